(* A one-axis cube dimension: what `ccube._walk` and the ffuncs see of an iindex after the extra
   axes have been sliced away (iindexes.py `slices1d`): the dict {(value,) -> increasing uint32 row
   ids} as an association list in dict order, plus the common value.  DEFINITIONS ONLY.
   Shared by Cube/Walk.v, Cube/Count.v (C02, C14) and the weighted aggregates (C03-C05). *)
From Coq Require Import ZArith List Bool.
From Catii Require Import Base.Sorted.
Import ListNotations.
Open Scope Z_scope.

Record dim := { dentries : list (Z * list Z); dcommon : Z }.

Definition dkeys (d : dim) : list Z := map fst (dentries d).

(* listed d r v: row r is stored under value v *)
Definition dlisted (d : dim) (r v : Z) : Prop :=
  exists rows, In (v, rows) (dentries d) /\ In r rows.

(* well-formedness of a dimension over N rows (iindex.validate for a 1-D index) *)
Record dim_wf (N : Z) (d : dim) : Prop := {
  dwf_keys     : NoDup (dkeys d);                                               (* a dict *)
  dwf_nocommon : ~ In (dcommon d) (dkeys d);                                    (* common is not stored *)
  dwf_sorted   : forall v rows, In (v, rows) (dentries d) -> sincr rows;        (* strictly increasing *)
  dwf_nonempty : forall v rows, In (v, rows) (dentries d) -> rows <> [];
  dwf_rows     : forall v rows r, In (v, rows) (dentries d) -> In r rows -> 0 <= r < N;
  dwf_excl     : forall r v v', dlisted d r v -> dlisted d r v' -> v = v';       (* pairwise disjoint *)
}.

(* ---- boolean twin (run by the harness on the real dimensions) ---- *)
Fixpoint nodupZ_b (l : list Z) : bool :=
  match l with
  | [] => true
  | x :: l' => negb (memZ x l') && nodupZ_b l'
  end.
Definition disjointZ_b (a b : list Z) : bool := forallb (fun x => negb (memZ x b)) a.
Fixpoint pairwise_disjoint_b (es : list (Z * list Z)) : bool :=
  match es with
  | [] => true
  | e :: es' => forallb (fun e' => disjointZ_b (snd e) (snd e')) es' && pairwise_disjoint_b es'
  end.
Definition nonempty_b (l : list Z) : bool := match l with [] => false | _ => true end.
Definition dentry_ok_b (N : Z) (e : Z * list Z) : bool :=
  sincr_b (snd e) && nonempty_b (snd e) && forallb (fun r => (0 <=? r) && (r <? N)) (snd e).
Definition dim_wf_b (N : Z) (d : dim) : bool :=
  nodupZ_b (dkeys d) && negb (memZ (dcommon d) (dkeys d))
  && forallb (dentry_ok_b N) (dentries d) && pairwise_disjoint_b (dentries d).

(* ---- meaning: the dense column the dimension stands for ---- *)
Definition dcovers (r : Z) (e : Z * list Z) : bool := memZ r (snd e).
Definition dim_dense (d : dim) (r : Z) : Z :=
  match find (dcovers r) (dentries d) with Some e => fst e | None => dcommon d end.

Definition dim0 : dim := {| dentries := []; dcommon := 0 |}.

(* category (as a natural number, the index type of Cube/Diff.v) of row r on dimension number a *)
Definition cat_of (dims : list dim) (a : nat) (r : Z) : nat := Z.to_nat (dim_dense (nth a dims dim0) r).

(* rows 0..N-1 *)
Definition rowrange (N : Z) : list Z := map Z.of_nat (seq 0 (Z.to_nat N)).
