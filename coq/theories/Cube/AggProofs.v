(* The theorems of C03 / C04 / C05 about the cube models, assembled from
     FFuncsProofs.ccube_agg_direct   (index cube = specification; marginal differencing of every region)
     XCubeProofs.xcube_agg_cells     (array cube: strides are the mixed-radix flat index, no wrap)
     AggCell.x_cols_direct           (per-cell algebra of both models = Direct.direct_cell)
   xfunc_A_direct, hidden_values_irrelevant, C03_agree, the missing rule and the report formats (C04),
   independence of the stored common (C05). *)
From Coq Require Import ZArith QArith Qcanon List Bool Lia.
From Catii Require Import Base.Cases Base.Sorted Cube.Dim Cube.Walk Cube.Diff Cube.Region Cube.Count
     Cube.Direct Cube.FFuncs Cube.XCube Cube.FillInv Cube.AggBase Cube.AggCell Cube.FFuncsProofs Cube.XCubeProofs.
Import ListNotations.
Open Scope Z_scope.

(* ================= C03: the array cube is the specification ================= *)
Theorem xcube_agg_direct A N arrs shape h f w ign :
  xhyps N arrs shape -> agg_fact_ok A f ->
  xcube_agg A N arrs shape h f w ign = Some (direct A N arrs shape f w ign).
Proof.
  intros H HA. rewrite (xcube_agg_cells A N arrs shape h f w ign H). f_equal.
  unfold direct. apply map_ext. intros cell. cbv zeta. now apply x_cols_direct.
Qed.

Theorem xcube_valid_count_plain0_direct N arrs shape h f w :
  xhyps N arrs shape -> f <> FNone ->
  xcube_valid_count_plain0 N arrs shape h f w =
  Some (map (fun cell => map (fun fx => cell_value (w_get w) fx AValidCount (cell_rows_f N arrs cell)) (fact_cols f))
            (all_cells shape)).
Proof.
  intros H HA. rewrite (xcube_valid_count_plain0_cells N arrs shape h f w H). f_equal.
  apply map_ext. intros cell. now apply x_cols_plain0_direct.
Qed.

(* ---- the specification only looks at the dense arrays on the rows 0..N-1 ---- *)
Definition same_on (N : Z) (a b : Z -> Z) : Prop := forall r, 0 <= r < N -> a r = b r.

Lemma row_in_cell_f_ext N cats cats' : Forall2 (same_on N) cats cats' ->
  forall cell r, 0 <= r < N -> row_in_cell_f cats cell r = row_in_cell_f cats' cell r.
Proof.
  induction 1 as [|a b l l' Hab _ IH]; intros cell r Hr; destruct cell as [|c cell]; cbn [row_in_cell_f]; try reflexivity.
  rewrite (Hab r Hr), (IH cell r Hr). reflexivity.
Qed.
Lemma cell_rows_f_ext N cats cats' cell : Forall2 (same_on N) cats cats' ->
  cell_rows_f N cats cell = cell_rows_f N cats' cell.
Proof.
  intros H. unfold cell_rows_f. apply filter_ext_in. intros r Hr. apply In_rowrange_iff in Hr.
  now apply (row_in_cell_f_ext N cats cats' H).
Qed.
Lemma direct_ext_cats A N cats cats' shape f w ign : Forall2 (same_on N) cats cats' ->
  direct A N cats shape f w ign = direct A N cats' shape f w ign.
Proof.
  intros H. unfold direct. apply map_ext. intros cell. now rewrite (cell_rows_f_ext N cats cats' cell H).
Qed.

(* ---- the specification only looks at values whose validity is true ---- *)
Definition col_equiv (c1 c2 : Z -> option Qc) : Prop := forall r, c1 r = c2 r.
Definition fact_equiv (f g : fact) : Prop := Forall2 col_equiv (fact_cols f) (fact_cols g).
Definition weights_equiv (w w' : weights) : Prop := col_equiv (w_get w) (w_get w').

Lemma direct_cell_ext wt wt' fx fx' A ign rows : col_equiv wt wt' -> col_equiv fx fx' ->
  direct_cell wt fx A ign rows = direct_cell wt' fx' A ign rows.
Proof.
  intros Hw Hf.
  assert (V : valid_rows wt fx rows = valid_rows wt' fx' rows).
  { unfold valid_rows. apply filter_ext. intros r. unfold row_valid. now rewrite Hw, Hf. }
  assert (D : den wt fx rows = den wt' fx' rows).
  { unfold den. rewrite V. f_equal. apply map_ext. intros r. now rewrite Hw. }
  assert (Nn : num wt fx rows = num wt' fx' rows).
  { unfold num. rewrite V. f_equal. apply map_ext. intros r. now rewrite Hw, Hf. }
  unfold direct_cell, cell_value, cell_missing. rewrite V, D, Nn. reflexivity.
Qed.
Lemma direct_ext_values A N cats shape f f' w w' ign : fact_equiv f f' -> weights_equiv w w' ->
  direct A N cats shape f w ign = direct A N cats shape f' w' ign.
Proof.
  intros Hf Hw. unfold direct. apply map_ext. intros cell.
  unfold fact_equiv in Hf. induction Hf as [|c1 c2 l l' Hc _ IH]; cbn [map]; [reflexivity|].
  rewrite IH. f_equal. now apply direct_cell_ext.
Qed.

(* what "hidden" means for a (values, validity) pair, and for the NaN form (nothing is hidden) *)
Lemma mpair_hidden_equiv v v' b :
  (forall r, znth r b false = true -> znth r v q0 = znth r v' q0) -> col_equiv (m_get (MPair v b)) (m_get (MPair v' b)).
Proof. intros H r. cbn [m_get]. destruct (znth r b false) eqn:E; [now rewrite (H r E)|reflexivity]. Qed.

(* neither cube model depends on the stand-in for NaN nor on any value under a False validity *)
Theorem hidden_values_irrelevant_ccube A N dims shape h h' f f' w w' ign :
  0 <= N -> Forall (dim_wf N) dims -> covers shape dims -> agg_fact_ok A f -> agg_fact_ok A f' ->
  fact_equiv f f' -> weights_equiv w w' ->
  ccube_agg N dims shape A h f w ign = ccube_agg N dims shape A h' f' w' ign.
Proof.
  intros HN W C HA HA' Hf Hw. rewrite !ccube_agg_direct by assumption. now apply direct_ext_values.
Qed.
Theorem hidden_values_irrelevant_xcube A N arrs shape h h' f f' w w' ign :
  xhyps N arrs shape -> agg_fact_ok A f -> agg_fact_ok A f' -> fact_equiv f f' -> weights_equiv w w' ->
  xcube_agg A N arrs shape h f w ign = xcube_agg A N arrs shape h' f' w' ign.
Proof.
  intros H HA HA' Hf Hw. rewrite !xcube_agg_direct by assumption. f_equal. now apply direct_ext_values.
Qed.

(* ---- the dense arrays of covered, well-formed dimensions satisfy the array cube's hypotheses ---- *)
Lemma covers_nonneg shape dims : covers shape dims -> Forall (fun e => 0 <= e) shape.
Proof. induction 1 as [|e d s ds [_ Hc] _ IH]; constructor; [lia|exact IH]. Qed.
Lemma covers_dense_range N shape dims arrs : covers shape dims ->
  Forall2 (fun a d => same_on N a (dim_dense d)) arrs dims ->
  Forall2 (fun a e => forall r, 0 <= r < N -> 0 <= a r < e) arrs shape.
Proof.
  intros C. revert arrs. induction C as [|e d s ds [Hk Hc] _ IH]; intros arrs H; inversion H as [|a d' l l' Had Hl]; subst; constructor.
  - intros r Hr. rewrite (Had r Hr). destruct (dim_dense_cases d r) as [E|E]; [now apply Hk|rewrite E; exact Hc].
  - now apply IH.
Qed.
Lemma xhyps_of_covers N shape dims arrs : 0 <= N -> covers shape dims -> prodZ shape <= 4294967295 ->
  Forall2 (fun a d => same_on N a (dim_dense d)) arrs dims -> xhyps N arrs shape.
Proof.
  intros HN C HP H. repeat split; [exact HN| |exact HP|].
  - now apply (covers_nonneg shape dims).
  - now apply (covers_dense_range N shape dims arrs).
Qed.
Lemma same_on_map_dense N arrs dims : Forall2 (fun a d => same_on N a (dim_dense d)) arrs dims ->
  Forall2 (same_on N) arrs (map dim_dense dims).
Proof. induction 1; cbn [map]; constructor; assumption. Qed.

(* C03: the three computations agree - values and missing marks, every cell, every column *)
Theorem C03_agree A N dims shape arrs h f w ign :
  0 <= N -> Forall (dim_wf N) dims -> covers shape dims -> prodZ shape <= 4294967295 -> agg_fact_ok A f ->
  Forall2 (fun a d => same_on N a (dim_dense d)) arrs dims ->
  ccube_agg N dims shape A h f w ign = direct A N (map dim_dense dims) shape f w ign
  /\ xcube_agg A N arrs shape h f w ign = Some (direct A N (map dim_dense dims) shape f w ign)
  /\ xcube_agg A N arrs shape h f w ign = Some (ccube_agg N dims shape A h f w ign).
Proof.
  intros HN W C HP HA HS.
  assert (X : xcube_agg A N arrs shape h f w ign = Some (direct A N (map dim_dense dims) shape f w ign)).
  { rewrite xcube_agg_direct; [|now apply (xhyps_of_covers N shape dims arrs)|exact HA].
    f_equal. apply direct_ext_cats. now apply same_on_map_dense. }
  split; [now apply ccube_agg_direct|]. split; [exact X|]. rewrite X. f_equal. symmetry. now apply ccube_agg_direct.
Qed.

(* ================= C04: the missing rule ================= *)
Lemma lenZ_filter_le {A} (p : A -> bool) l : lenZ (filter p l) <= lenZ l.
Proof.
  unfold lenZ. induction l as [|x l IH]; cbn [filter length]; [lia|].
  destruct (p x); cbn [length]; lia.
Qed.
Lemma lenZ_filter_zero {A} (p : A -> bool) l : lenZ (filter p l) = 0 <-> forall x, In x l -> p x = false.
Proof.
  induction l as [|x l IH]; cbn [filter]; [split; [intros _ y []|reflexivity]|].
  destruct (p x) eqn:E.
  - split.
    + unfold lenZ. cbn [length]. lia.
    + intros H. specialize (H x (or_introl eq_refl)). congruence.
  - rewrite IH. split.
    + intros H y [<-|Hy]; [exact E|now apply H].
    + intros H y Hy. apply H. now right.
Qed.
Lemma lenZ_filter_all {A} (p : A -> bool) l : lenZ (filter p l) = lenZ l <-> forall x, In x l -> p x = true.
Proof.
  induction l as [|x l IH]; cbn [filter]; [split; [intros _ y []|reflexivity]|].
  pose proof (lenZ_filter_le p l) as LE. destruct (p x) eqn:E.
  - assert (Q : lenZ (x :: filter p l) = lenZ (x :: l) <-> lenZ (filter p l) = lenZ l).
    { unfold lenZ. cbn [length]. lia. }
    rewrite Q, IH. split.
    + intros H y [<-|Hy]; [exact E|now apply H].
    + intros H y Hy. apply H. now right.
  - split.
    + unfold lenZ in *. cbn [length]. lia.
    + intros H. specialize (H x (or_introl eq_refl)). congruence.
Qed.

Lemma lenZ_filter_neq {A} (p : A -> bool) l : lenZ (filter p l) <> lenZ l -> exists x, In x l /\ p x = false.
Proof.
  induction l as [|x l IH]; cbn [filter]; intros H; [exfalso; now apply H|].
  destruct (p x) eqn:E.
  - destruct IH as [y [Hy Py]].
    + intros G. apply H. unfold lenZ in *. cbn [length]. lia.
    + exists y. split; [now right|exact Py].
  - exists x. split; [now left|exact E].
Qed.

(* the boolean the specification computes is the rule of the property text *)
Theorem cell_missing_rule wt fx A ign rows :
  cell_missing wt fx A ign rows = true <-> missing_rule wt fx A ign rows.
Proof.
  unfold cell_missing, missing_rule, valid_rows, row_missing.
  pose proof (lenZ_filter_zero (row_valid wt fx) rows) as Z0.
  pose proof (lenZ_filter_all (row_valid wt fx) rows) as ZA.
  rewrite !orb_true_iff, andb_true_iff, !negb_true_iff, Z.eqb_eq, Z.eqb_neq.
  assert (M : (match A with AMean => qc_eqb (den wt fx rows) q0 | _ => false end) = true
              <-> A = AMean /\ den wt fx rows = q0).
  { destruct A; try (split; [discriminate|intros [? _]; discriminate]).
    split; [intros H; split; [reflexivity|now apply qc_eqb_true]|intros [_ ->]; apply qc_eqb_refl]. }
  rewrite M. destruct ign.
  - (* ignore: all rows missing (rows = [] included) *)
    split.
    + intros [[H|[H _]]|H]; [right; left; now apply Z0|discriminate|right; right; exact H].
    + intros [->|[H|H]]; [left; left; reflexivity|left; left; now apply Z0|right; exact H].
  - (* propagate: no row, or some row missing *)
    split.
    + intros [[H|[_ H]]|H]; [| |right; right; exact H].
      * destruct rows as [|r rows]; [now left|]. right; left. exists r. split; [now left|].
        apply (proj1 Z0 H). now left.
      * right; left.
        now apply lenZ_filter_neq.
    + intros [->|[[r [Hi Hr]]|H]]; [left; left; reflexivity| |right; exact H].
      left. right. split; [reflexivity|]. intros E. pose proof (proj1 ZA E r Hi) as E1. rewrite E1 in Hr. discriminate.
Qed.

(* the cells of the index cube, per cell (ccube_agg is the map of this over all_cells) *)
Definition ccube_cell (A : agg) (N : Z) (dims : list dim) (shape : list Z) (h : Qc) (f : fact) (w : weights)
           (ign : bool) (cell : list Z) : list (Qc * bool) :=
  match A with
  | ACount => [ff_count_cell N dims shape (norm_w h w) ign cell]
  | AValidCount => map (fun x => ff_valid_count_cell N dims shape x (norm_w h w) ign cell) (fact_marrs f)
  | ASum => map (fun x => ff_sum_cell N dims shape h x (norm_w h w) ign cell) (fact_marrs f)
  | AMean => map (fun x => ff_mean_cell N dims shape h x (norm_w h w) ign cell) (fact_marrs f)
  end.
Lemma ccube_agg_cells A N dims shape h f w ign :
  ccube_agg N dims shape A h f w ign = map (ccube_cell A N dims shape h f w ign) (all_cells shape).
Proof. reflexivity. Qed.

Lemma Forall2_map_l {A B C} (P : B -> C -> Prop) (g : A -> B) l l' :
  Forall2 (fun a c => P (g a) c) l l' -> Forall2 P (map g l) l'.
Proof. induction 1; cbn [map]; constructor; assumption. Qed.
Lemma Forall2_diag {A} (P : A -> A -> Prop) l : (forall a, In a l -> P a a) -> Forall2 P l l.
Proof. induction l as [|a l IH]; intros H; constructor; [apply H; now left|apply IH; intros; apply H; now right]. Qed.

(* missing_rule_A, index cube: in every cell inside the shape and every column *)
Theorem ccube_missing_rule A N dims shape h f w ign cell :
  0 <= N -> Forall (dim_wf N) dims -> covers shape dims -> in_shape shape cell -> agg_fact_ok A f ->
  Forall2 (fun vm fx => snd vm = true <-> missing_rule (w_get w) fx A ign (cell_rows N dims cell))
          (ccube_cell A N dims shape h f w ign cell) (fact_cols f).
Proof.
  intros HN W C HI HA. unfold ccube_cell. rewrite (ff_cell_direct A N dims shape h f w ign cell HN W C HI HA).
  apply Forall2_map_l. apply Forall2_diag. intros fx _. cbn [direct_cell snd]. apply cell_missing_rule.
Qed.

(* missing_rule_A, array cube: the call succeeds and every cell (row-major) and column obeys the rule *)
Theorem xcube_missing_rule A N arrs shape h f w ign :
  xhyps N arrs shape -> agg_fact_ok A f ->
  exists out, xcube_agg A N arrs shape h f w ign = Some out /\
    Forall2 (fun row cell =>
               Forall2 (fun vm fx => snd vm = true <-> missing_rule (w_get w) fx A ign (cell_rows_f N arrs cell))
                       row (fact_cols f))
            out (all_cells shape).
Proof.
  intros H HA. eexists. split; [now apply xcube_agg_direct|].
  unfold direct. apply Forall2_map_l. apply Forall2_diag. intros cell _.
  apply Forall2_map_l. apply Forall2_diag. intros fx _. cbn [direct_cell snd]. apply cell_missing_rule.
Qed.

(* ================= C04: the three report formats ================= *)
(* from one (value, missing) pair the NaN format and the (sentinel, False) format mark the same cells,
   all three carry the same value where the cell is not missing, and the missing cell holds NaN / the
   sentinel with validity False / the plain replacement value *)
Theorem formats_agree_cell (vm : Qc * bool) (s v : Qc) :
  rcell_missing (report FmtNaN vm) = snd vm
  /\ rcell_missing (report (FmtPair s) vm) = snd vm
  /\ (snd vm = false -> report FmtNaN vm = RVal (fst vm) /\ report (FmtPair s) vm = RPair (fst vm) true
                        /\ report (FmtPlain v) vm = RVal (fst vm))
  /\ (snd vm = true -> report FmtNaN vm = RNaN /\ report (FmtPair s) vm = RPair s false
                       /\ report (FmtPlain v) vm = RVal v).
Proof.
  destruct vm as [x m]. unfold report. cbn [fst snd]. destruct m; cbn [rcell_missing negb];
  repeat split; intros; try reflexivity; discriminate.
Qed.

(* every format of a call is computed from the same (value, missing) cells - except the documented shortcut *)
Theorem ccube_report_formats A N dims shape h f w ign fm :
  (A = AValidCount -> is_plain0 fm = false) ->
  ccube_report A N dims shape h f w ign fm = report_all fm (ccube_agg N dims shape A h f w ign).
Proof. intros H. unfold ccube_report. destruct A; try reflexivity. now rewrite H. Qed.
Theorem xcube_report_formats A N arrs shape h f w ign fm :
  (A = AValidCount -> is_plain0 fm = false) ->
  xcube_report A N arrs shape h f w ign fm = option_map (report_all fm) (xcube_agg A N arrs shape h f w ign).
Proof. intros H. unfold xcube_report. destruct A; try reflexivity. now rewrite H. Qed.

(* formats_agree_A: both cubes report, in any format, the report of the specification's cells *)
Theorem formats_agree A N dims shape arrs h f w ign fm :
  0 <= N -> Forall (dim_wf N) dims -> covers shape dims -> prodZ shape <= 4294967295 -> agg_fact_ok A f ->
  Forall2 (fun a d => same_on N a (dim_dense d)) arrs dims ->
  (A = AValidCount -> is_plain0 fm = false) ->
  ccube_report A N dims shape h f w ign fm = report_all fm (direct A N (map dim_dense dims) shape f w ign)
  /\ xcube_report A N arrs shape h f w ign fm = Some (report_all fm (direct A N (map dim_dense dims) shape f w ign)).
Proof.
  intros HN W C HP HA HS HF.
  destruct (C03_agree A N dims shape arrs h f w ign HN W C HP HA HS) as (E1 & E2 & _).
  rewrite ccube_report_formats, xcube_report_formats by exact HF. rewrite E1, E2. split; reflexivity.
Qed.

(* the documented shortcut valid_count(..., return_missing_as=0): the partial count (the weighted
   count of the valid rows) in every cell, no missing marks - in both cubes; when missing values are
   ignored this IS the plain format of the ordinary result *)
Theorem valid_count_plain0_shortcut N dims shape arrs h f w ign :
  0 <= N -> Forall (dim_wf N) dims -> covers shape dims -> prodZ shape <= 4294967295 -> f <> FNone ->
  Forall2 (fun a d => same_on N a (dim_dense d)) arrs dims ->
  let partial := map (fun cell => map (fun fx => RVal (cell_value (w_get w) fx AValidCount
                                                         (cell_rows_f N (map dim_dense dims) cell))) (fact_cols f))
                     (all_cells shape) in
  ccube_report AValidCount N dims shape h f w ign (FmtPlain q0) = partial
  /\ xcube_report AValidCount N arrs shape h f w ign (FmtPlain q0) = Some partial.
Proof.
  intros HN W C HP HA HS partial. unfold ccube_report, xcube_report.
  assert (P0 : is_plain0 (FmtPlain q0) = true) by reflexivity. rewrite P0.
  rewrite ccube_valid_count_plain0_direct by assumption.
  rewrite xcube_valid_count_plain0_direct; [|now apply (xhyps_of_covers N shape dims arrs)|exact HA].
  unfold partial. cbn [option_map]. rewrite !map_map. split.
  - apply map_ext. intros cell. now rewrite map_map.
  - f_equal. apply map_ext. intros cell. rewrite map_map.
    now rewrite (cell_rows_f_ext N arrs (map dim_dense dims) cell (same_on_map_dense N arrs dims HS)).
Qed.
Theorem valid_count_plain0_ignore wt fx rows :
  report (FmtPlain q0) (direct_cell wt fx AValidCount true rows) = RVal (cell_value wt fx AValidCount rows).
Proof.
  unfold report, direct_cell. cbn [fst snd]. destruct (cell_missing wt fx AValidCount true rows) eqn:E; [|reflexivity].
  f_equal. unfold cell_missing in E. cbn [negb andb orb] in E. rewrite !orb_false_r in E.
  apply Z.eqb_eq in E. cbn [cell_value]. symmetry. now apply den_no_valid.
Qed.

(* ================= C05: the stored common is not observable ================= *)
Lemma same_on_maps N dims dims' : Forall2 (fun d d' => same_on N (dim_dense d) (dim_dense d')) dims dims' ->
  Forall2 (same_on N) (map dim_dense dims) (map dim_dense dims').
Proof. induction 1 as [|d d' l l' H _ IH]; cbn [map]; [constructor|constructor; [exact H|exact IH]]. Qed.

(* two lists of well-formed, covered dimensions with the same dense meaning give the same cube *)
Theorem ccube_agg_reencode A N dims dims' shape h f w ign :
  0 <= N -> Forall (dim_wf N) dims -> Forall (dim_wf N) dims' -> covers shape dims -> covers shape dims' ->
  agg_fact_ok A f ->
  Forall2 (fun d d' => same_on N (dim_dense d) (dim_dense d')) dims dims' ->
  ccube_agg N dims shape A h f w ign = ccube_agg N dims' shape A h f w ign.
Proof.
  intros HN W W' C C' HA HS. rewrite !ccube_agg_direct by assumption. apply direct_ext_cats.
  now apply same_on_maps.
Qed.
Theorem ccube_report_reencode A N dims dims' shape h f w ign fm :
  0 <= N -> Forall (dim_wf N) dims -> Forall (dim_wf N) dims' -> covers shape dims -> covers shape dims' ->
  agg_fact_ok A f ->
  Forall2 (fun d d' => same_on N (dim_dense d) (dim_dense d')) dims dims' ->
  ccube_report A N dims shape h f w ign fm = ccube_report A N dims' shape h f w ign fm.
Proof.
  intros HN W W' C C' HA HS.
  assert (M : Forall2 (same_on N) (map dim_dense dims) (map dim_dense dims')).
  { now apply same_on_maps. }
  unfold ccube_report. destruct A;
    try (now rewrite (ccube_agg_reencode _ N dims dims' shape h f w ign HN W W' C C' HA HS)).
  destruct (is_plain0 fm).
  - rewrite !ccube_valid_count_plain0_direct by assumption. f_equal. apply map_ext. intros cell.
    now rewrite (cell_rows_f_ext N _ _ cell M).
  - now rewrite (ccube_agg_reencode _ N dims dims' shape h f w ign HN W W' C C' HA HS).
Qed.

(* a cell that holds no row is missing, whatever the extents: enlarging the shape (explicitly or by
   inference from a larger common) only adds missing cells *)
Theorem empty_cell_missing wt fx A ign : cell_missing wt fx A ign [] = true.
Proof. reflexivity. Qed.
