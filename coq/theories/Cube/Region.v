(* The working region of an ffunc as a NumPy array, generic in the cell type V.  DEFINITIONS ONLY.

   ccube.working_shape = interacting_shape + 1 on every axis; index e_d (the extent) of axis d is
   the margin slot, which the walk addresses as -1 (NumPy wraps negative indices).  An [aregion]
   is a total function from NORMALISED coordinate lists to cells; only coordinates inside the
   working shape are meaningful (all others keep the initial zero and are never read for a cell
   inside the shape).  The model keeps NumPy's aliasing: coordinate c < 0 addresses c + e + 1, so a
   listed value -1 or e, or a common value equal to the extent, hits the margin slot exactly as in
   the code; [cube_ok] says when the code raises IndexError instead.

     init_region    ffunc.get_initial_regions : zeros, grand total in the corner (ffuncs.py:218-220)
     fill_with f    the callback of fill_func  : region[coords] = f(rowids), in call order (:264)
     adiff_axis     one iteration of ccube._compute_common_cells_from_marginal_diffs (ccubes.py:212-226):
                    region[common_slice] = region[margin_slice] - region[uncommon_slice].sum(axis),
                    right-hand side evaluated on the old array
     adiff_all      the loop over the axes 0..n-1
     reg_of         the bridge to the functional regions of Cube/Diff.v *)
From Coq Require Import ZArith List Bool.
From Catii Require Import Base.Cases Base.Sorted Cube.Dim Cube.Walk Cube.Diff.
Import ListNotations.
Open Scope Z_scope.

(* ---- coordinates ---- *)
(* an integer index c into an axis of length e+1 *)
Definition coord_ok (e c : Z) : bool := (- (e + 1) <=? c) && (c <=? e).
Definition norm_coord (e c : Z) : Z := if c <? 0 then c + e + 1 else c.

Fixpoint norm_coords (shape c : list Z) : list Z :=
  match shape, c with
  | e :: shape', x :: c' => norm_coord e x :: norm_coords shape' c'
  | _, _ => []
  end.
Fixpoint coords_ok (shape c : list Z) : bool :=
  match shape, c with
  | [], [] => true
  | e :: shape', x :: c' => coord_ok e x && coords_ok shape' c'
  | _, _ => false
  end.

Fixpoint set_nth (a : nat) (c : list Z) (v : Z) : list Z :=
  match a, c with
  | O, _ :: c' => v :: c'
  | Datatypes.S a', x :: c' => x :: set_nth a' c' v
  | _, [] => []
  end.

Section Region.
Variable V : Type.
Variable vadd vsub : V -> V -> V.
Variable vzero : V.

Definition aregion := list Z -> V.

Definition aset (R : aregion) (c : list Z) (v : V) : aregion :=
  fun c' => if zlist_eqb c' c then v else R c'.

(* zeros, corner value at (-1, ..., -1) = shape *)
Definition init_region (shape : list Z) (corner : V) : aregion :=
  fun c => if zlist_eqb c shape then corner else vzero.

Definition fill_with (f : list Z -> V) (shape : list Z) (ems : list emission) (R : aregion) : aregion :=
  fold_left (fun R em => aset R (norm_coords shape (fst em)) (f (snd em))) ems R.

Definition adiff_axis (shape coms : list Z) (a : nat) (R : aregion) : aregion :=
  let e := nth a shape 0 in
  let cm := norm_coord e (nth a coms 0) in
  fun c => if Z.eqb (nth a c 0) cm
           then vsub (R (set_nth a c e)) (vsum V vadd vzero (map (fun k => R (set_nth a c k)) (rowrange e)))
           else R c.

Fixpoint adiff_all (shape coms : list Z) (k : nat) (R : aregion) : aregion :=
  match k with O => R | Datatypes.S k' => adiff_axis shape coms k' (adiff_all shape coms k' R) end.

(* ---- bridge to Cube/Diff.v ---- *)
(* category k -> coordinate k (k+1 beyond the extent, so that an out-of-extent pattern never
   aliases the margin slot), margin -> e *)
Definition coord_of (e : Z) (o : option nat) : Z :=
  match o with
  | None => e
  | Some k => if Z.of_nat k <? e then Z.of_nat k else Z.of_nat k + 1
  end.
Fixpoint coords_from (a : nat) (shape : list Z) (p : pat) : list Z :=
  match shape with
  | [] => []
  | e :: shape' => coord_of e (p a) :: coords_from (Datatypes.S a) shape' p
  end.
Definition coords_of (shape : list Z) (p : pat) : list Z := coords_from 0 shape p.
Definition reg_of (shape : list Z) (R : aregion) : reg V := fun p => R (coords_of shape p).

End Region.

(* ---- which cubes the theorems cover / which raise IndexError ---- *)
Definition covers (shape : list Z) (dims : list dim) : Prop :=
  Forall2 (fun e d => (forall v, In v (dkeys d) -> 0 <= v < e) /\ 0 <= dcommon d < e) shape dims.
Fixpoint covers_b (shape : list Z) (dims : list dim) : bool :=
  match shape, dims with
  | [], [] => true
  | e :: shape', d :: dims' =>
      forallb (fun v => (0 <=? v) && (v <? e)) (dkeys d) && (0 <=? dcommon d) && (dcommon d <? e)
      && covers_b shape' dims'
  | _, _ => false
  end.

(* the code completes (no IndexError) iff every written coordinate and every common index is
   a valid index of its axis *)
Definition cube_ok (shape : list Z) (dims : list dim) : bool :=
  Nat.eqb (length shape) (length dims)
  && forallb (fun em => coords_ok shape (fst em)) (walk dims)
  && coords_ok shape (map dcommon dims).

(* ---- the specification side ---- *)
Fixpoint row_in_cell (dims : list dim) (cell : list Z) (r : Z) : bool :=
  match dims, cell with
  | [], [] => true
  | d :: dims', c :: cell' => Z.eqb (dim_dense d r) c && row_in_cell dims' cell' r
  | _, _ => false
  end.
(* the rows (increasing) whose category on every dimension is the cell's coordinate *)
Definition cell_rows (N : Z) (dims : list dim) (cell : list Z) : list Z :=
  filter (row_in_cell dims cell) (rowrange N).

Definition in_shape (shape cell : list Z) : Prop := Forall2 (fun e c => 0 <= c < e) shape cell.
Fixpoint in_shape_b (shape cell : list Z) : bool :=
  match shape, cell with
  | [], [] => true
  | e :: shape', c :: cell' => (0 <=? c) && (c <? e) && in_shape_b shape' cell'
  | _, _ => false
  end.
