(* The specification side of C14: the comprehension of the property text.  DEFINITIONS ONLY.

   { (c, rows(c)) : c in prod_d (uncommon_d + {-1}) minus {all -1}, rows(c) non-empty }
   where rows(c) = the increasing rows r < N whose category (dense value) on every non-marginal
   dimension equals the coordinate.  As a LIST, in the order of the product with the keys in
   dict order and the margin last - the order in which `_walk` calls back. *)
From Coq Require Import ZArith List Bool.
From Catii Require Import Base.Sorted Cube.Dim Cube.Walk.
Import ListNotations.
Open Scope Z_scope.

Fixpoint coord_product (dims : list dim) : list (list Z) :=
  match dims with
  | [] => [[]]
  | d :: rest => flat_map (fun k => map (cons k) (coord_product rest)) (dkeys d ++ [margin])
  end.

Fixpoint row_matches (dims : list dim) (c : list Z) (r : Z) : bool :=
  match dims, c with
  | [], [] => true
  | d :: dims', k :: c' => (Z.eqb k margin || Z.eqb (dim_dense d r) k) && row_matches dims' c' r
  | _, _ => false
  end.

Definition rows_matching (N : Z) (dims : list dim) (c : list Z) : list Z :=
  filter (row_matches dims c) (rowrange N).

Definition all_margin (c : list Z) : bool := forallb (Z.eqb margin) c.

Definition presented (N : Z) (dims : list dim) (c : list Z) : bool :=
  negb (all_margin c) && nonempty_b (rows_matching N dims c).

Definition walk_spec_list (N : Z) (dims : list dim) : list emission :=
  map (fun c => (c, rows_matching N dims c)) (filter (presented N dims) (coord_product dims)).

(* the marker -1 is not a category value (row-aligned categorical data has values >= 0) *)
Definition no_margin_key (d : dim) : Prop := ~ In margin (dkeys d).
Definition no_margin_key_b (d : dim) : bool := negb (memZ margin (dkeys d)).
