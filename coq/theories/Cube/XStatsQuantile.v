(* C18 - quantile_lin: the unweighted per-cell quantile (numpy.quantile / nanquantile, method
   "linear", as modelled: insertion sort, virtual index (n-1)p, floor, lerp) is the linear
   interpolation between the bracketing order statistics of the cell's valid values; the cell is
   missing exactly by the rule of C04. *)
From Coq Require Import ZArith QArith Qcanon Qround List Bool Lia Lqa ZifyBool Sorting.Permutation.
From Catii Require Import Cube.XStats Cube.XStatsSpec Cube.XStatsCell Cube.XStatsBase Cube.XStatsGroup.
Import ListNotations.
Open Scope Z_scope.

(* ------------------------------------------------------------------ insertion sort *)
Lemma insert_q_perm x l : Permutation (insert_q x l) (x :: l).
Proof.
  induction l as [ | y l IH]; [ apply Permutation_refl | ].
  cbn [insert_q]. destruct (Qle_bool (this x) (this y)); [ apply Permutation_refl | ].
  eapply Permutation_trans; [ apply perm_skip; exact IH | apply perm_swap ].
Qed.
Lemma isort_q_perm l : Permutation (isort_q l) l.
Proof.
  induction l as [ | x l IH]; [ apply Permutation_refl | ].
  cbn [isort_q]. eapply Permutation_trans; [ apply insert_q_perm | apply perm_skip; exact IH ].
Qed.

Definition hd_le (y : Qc) (l : list Qc) : Prop := match l with [] => True | z :: _ => (y <= z)%Qc end.
Lemma sortedQ_cons y l : sortedQ (y :: l) <-> hd_le y l /\ sortedQ l.
Proof. reflexivity. Qed.
Lemma insert_q_hd y x l : hd_le y l -> (y <= x)%Qc -> hd_le y (insert_q x l).
Proof.
  destruct l as [ | z l]; intros H1 H2; cbn [insert_q hd_le]; [ exact H2 | ].
  destruct (Qle_bool (this x) (this z)); cbn [hd_le]; assumption.
Qed.
Lemma insert_q_sorted x l : sortedQ l -> sortedQ (insert_q x l).
Proof.
  induction l as [ | y l IH]; intro H.
  - cbn. tauto.
  - cbn [insert_q]. destruct (Qle_bool (this x) (this y)) eqn:E.
    + apply sortedQ_cons. split; [ apply Qle_bool_Qcle in E; exact E | exact H ].
    + apply sortedQ_cons in H. destruct H as [H1 H2]. apply sortedQ_cons. split.
      * apply insert_q_hd; [ exact H1 | apply Qclt_le_weak, Qle_bool_false_Qclt, E ].
      * apply IH. exact H2.
Qed.
Lemma isort_q_sorted l : sortedQ (isort_q l).
Proof. induction l as [ | x l IH]; [ exact I | cbn [isort_q]; apply insert_q_sorted; exact IH ]. Qed.

(* ------------------------------------------------------------------ floor *)
Lemma qfloor_le (h : Qc) : (ofZ (qfloor h) <= h)%Qc.
Proof. unfold Qcle, qfloor. rewrite Qc_this_ofZ. apply Qfloor_le. Qed.
Lemma qfloor_lt (h : Qc) : (h < ofZ (qfloor h) + 1)%Qc.
Proof.
  unfold Qclt, qfloor. rewrite Qc_this_plus, Qc_this_ofZ.
  pose proof (Qlt_floor (this h)) as H. rewrite inject_Z_plus in H. exact H.
Qed.
Lemma qfloor_mono (a b : Qc) : (a <= b)%Qc -> qfloor a <= qfloor b.
Proof. unfold Qcle, qfloor. apply Qfloor_resp_le. Qed.
Lemma qfloor_ofZ z : qfloor (ofZ z) = z.
Proof. unfold qfloor. rewrite Qc_this_ofZ. apply Qfloor_Z. Qed.

(* ------------------------------------------------------------------ quantile_lin *)
Theorem quantile_lin xs p :
  xs <> [] -> (0 <= p)%Qc -> (p <= 1)%Qc -> is_lin_quantile xs p (lin_quantile xs p).
Proof.
  intros HX P0 P1. unfold is_lin_quantile, lin_quantile.
  assert (EL : lenZ (isort_q xs) = lenZ xs).
  { unfold lenZ. rewrite (Permutation_length (isort_q_perm xs)). reflexivity. }
  rewrite EL. set (n := lenZ xs). set (h := (ofZ (n - 1) * p)%Qc).
  assert (HN : 1 <= n).
  { unfold n. destruct xs; [ contradiction | rewrite lenZ_cons; pose proof (lenZ_nonneg xs); lia ]. }
  assert (N0 : (0 <= ofZ (n - 1))%Qc) by (rewrite <- ofZ_0; apply ofZ_le; lia).
  assert (H0 : (ofZ 0 <= h)%Qc).
  { rewrite ofZ_0. unfold h. clear - N0 P0. qcq. nra. }
  assert (H1 : (h <= ofZ (n - 1))%Qc).
  { unfold h. clear - N0 P1. qcq. nra. }
  exists (isort_q xs), (qfloor h). split; [ apply isort_q_perm | ]. split; [ apply isort_q_sorted | ].
  cbv zeta. fold n. fold h. split; [ | split; [ apply qfloor_le | split; [ apply qfloor_lt | reflexivity ] ] ].
  split.
  - rewrite <- (qfloor_ofZ 0). apply qfloor_mono. exact H0.
  - rewrite <- (qfloor_ofZ (n - 1)). apply qfloor_mono. exact H1.
Qed.

(* ------------------------------------------------------------------ the cell *)
Lemma is_some_summ weighted r : is_some (summ weighted r) = svalid weighted r.
Proof.
  unfold summ. destruct (svalid weighted r) eqn:E; [ | reflexivity ].
  unfold svalid in E. apply andb_prop in E. destruct E as [E _]. exact E.
Qed.
Lemma summ_valid weighted r : svalid weighted r = true -> summ weighted r = Some (fst (xw_of weighted r)).
Proof.
  intro H. unfold summ. rewrite H. unfold svalid in H. apply andb_prop in H. destruct H as [H _].
  unfold xw_of. cbn [fst]. destruct (rx r); [ reflexivity | discriminate ].
Qed.
(* the values that enter the quantile are the values of the valid rows of the cell, in row order *)
Lemma somes_summ weighted seg :
  somes (map (summ weighted) seg) = map (fun r => fst (xw_of weighted r)) (filter (svalid weighted) seg).
Proof.
  rewrite (somes_filter (summ weighted) seg).
  assert (E : filter (fun r => is_some (summ weighted r)) seg = filter (svalid weighted) seg).
  { apply filter_ext. intro r. apply is_some_summ. }
  rewrite E. apply somes_map_some. intros r Hr. apply summ_valid. eapply filter_In_true. exact Hr.
Qed.
Lemma all_some_summ weighted seg : all_some (map (summ weighted) seg) = forallb (svalid weighted) seg.
Proof.
  unfold all_some. induction seg as [ | r seg IH]; [ reflexivity | ].
  cbn [map forallb]. rewrite IH, is_some_summ. reflexivity.
Qed.

Lemma quantile_cell_none weighted ign p seg :
  quantile_cell weighted ign p seg = None <-> missing_rule ign (map (svalid weighted) seg) = true.
Proof.
  unfold quantile_cell. rewrite all_some_summ, somes_summ.
  destruct ign.
  - rewrite mr_ign. destruct (filter (svalid weighted) seg) as [ | r V] eqn:E; cbn [map].
    + split; reflexivity.
    + rewrite lenZ_cons. pose proof (lenZ_nonneg V). split; [ discriminate | lia ].
  - rewrite mr_prop. rewrite (forallb_filter_len (svalid weighted) seg).
    pose proof (filter_split_len (svalid weighted) seg) as HS.
    destruct (filter (svalid weighted) seg) as [ | r V] eqn:E; cbn [map].
    + rewrite lenZ_nil in HS. pose proof (lenZ_nonneg seg). split; [ intros _ | reflexivity ]. lia.
    + rewrite lenZ_cons in HS. pose proof (lenZ_nonneg V).
      pose proof (lenZ_nonneg (filter (fun x => negb (svalid weighted x)) seg)).
      destruct (lenZ (filter (fun x => negb (svalid weighted x)) seg) =? 0) eqn:E0.
      * split; [ discriminate | lia ].
      * split; [ intros _; lia | reflexivity ].
Qed.

Lemma quantile_cell_value weighted ign p seg q :
  (0 <= p)%Qc -> (p <= 1)%Qc ->
  quantile_cell weighted ign p seg = Some q ->
  is_lin_quantile (somes (map (summ weighted) seg)) p q.
Proof.
  intros P0 P1. unfold quantile_cell.
  destruct (somes (map (summ weighted) seg)) as [ | x V] eqn:E; [ discriminate | ].
  assert (G : Some (lin_quantile (x :: V) p) = Some q -> is_lin_quantile (x :: V) p q).
  { intro H. inversion H; subst. apply quantile_lin; [ discriminate | assumption | assumption ]. }
  destruct ign; [ exact G | ].
  destruct (all_some (map (summ weighted) seg)); [ exact G | discriminate ].
Qed.

Theorem quantile_spec weighted ign p size rows u d :
  0 <= u < size -> (0 <= p)%Qc -> (p <= 1)%Qc ->
  let seg := cell_s u rows in
  let V := map (fun r => fst (xw_of weighted r)) (filter (svalid weighted) seg) in   (* valid values, row order *)
  let out := nth (Z.to_nat u) (quantile weighted ign p size rows) d in
  (out = None <-> missing_rule ign (map (svalid weighted) seg) = true) /\
  (forall q, out = Some q -> is_lin_quantile V p q).
Proof.
  intros H P0 P1 seg V out.
  assert (EO : out = quantile_cell weighted ign p seg).
  { unfold out. rewrite quantile_group. apply per_cell_nth. exact H. }
  rewrite EO. split; [ apply quantile_cell_none | ].
  intros q Hq. unfold V. rewrite <- somes_summ. apply (quantile_cell_value weighted ign p seg q P0 P1 Hq).
Qed.

(* ------------------------------------------------------------------ the specification determines the value *)
Lemma sortedQ_hd_min x l : sortedQ (x :: l) -> Forall (fun y => (x <= y)%Qc) l.
Proof.
  revert x. induction l as [ | y l IH]; intros x H; [ constructor | ].
  apply sortedQ_cons in H. destruct H as [H1 H2]. cbn [hd_le] in H1.
  constructor; [ exact H1 | ].
  pose proof (IH y H2) as F. eapply Forall_impl; [ | exact F ].
  intros z Hz. eapply Qcle_trans; eassumption.
Qed.
Lemma sorted_perm_unique s s' : sortedQ s -> sortedQ s' -> Permutation s s' -> s = s'.
Proof.
  revert s'. induction s as [ | x s IH]; intros s' S1 S2 P.
  - apply Permutation_nil in P. symmetry. exact P.
  - destruct s' as [ | y s']; [ apply Permutation_sym, Permutation_nil in P; discriminate | ].
    assert (E : x = y).
    { pose proof (sortedQ_hd_min x s S1) as F1. pose proof (sortedQ_hd_min y s' S2) as F2.
      rewrite Forall_forall in F1, F2.
      assert (I1 : In x (y :: s')) by (eapply Permutation_in; [ exact P | left; reflexivity ]).
      assert (I2 : In y (x :: s)) by (eapply Permutation_in; [ apply Permutation_sym; exact P | left; reflexivity ]).
      destruct I1 as [-> | I1]; [ reflexivity | ]. destruct I2 as [-> | I2]; [ reflexivity | ].
      apply Qcle_antisym; [ apply F1; exact I2 | apply F2; exact I1 ]. }
    subst y. f_equal. apply IH.
    + exact (proj2 S1).
    + exact (proj2 S2).
    + eapply Permutation_cons_inv. exact P.
Qed.
Theorem is_lin_quantile_unique xs p q q' : is_lin_quantile xs p q -> is_lin_quantile xs p q' -> q = q'.
Proof.
  intros [s [k [P [S H]]]] [s' [k' [P' [S' H']]]]. cbv zeta in H, H'.
  destruct H as [_ [L1 [L2 ->]]]. destruct H' as [_ [L1' [L2' ->]]].
  assert (s = s').
  { apply sorted_perm_unique; [ assumption | assumption | ].
    eapply Permutation_trans; [ exact P | apply Permutation_sym; exact P' ]. }
  assert (k = k').
  { assert (A : (ofZ k < ofZ (k' + 1))%Qc) by (rewrite ofZ_plus, ofZ_1; eapply Qcle_lt_trans; eassumption).
    assert (B : (ofZ k' < ofZ (k + 1))%Qc) by (rewrite ofZ_plus, ofZ_1; eapply Qcle_lt_trans; eassumption).
    apply (proj1 (ofZ_lt _ _)) in A. apply (proj1 (ofZ_lt _ _)) in B. lia. }
  subst. reflexivity.
Qed.
