(* Executable checkers for the correspondence cases of C03, C04, C05 (no proofs).  The harness
   writes one real cube call (dimensions of the index cube, dense arrays of the array cube, fact,
   weights, policy, report format) and what each cube returned, abstracted to exact rationals and
   missing marks; these functions compare that with the models FFuncs.ccube_report /
   XCube.xcube_report and with the specification Direct.direct, inside Coq. *)
From Coq Require Import ZArith QArith Qabs Qcanon List Bool.
From Catii Require Import Base.Cases Base.Sorted Cube.Dim Cube.Walk Cube.Diff Cube.Region Cube.Count
     Cube.Direct Cube.FFuncs Cube.XCube.
Import ListNotations.
Open Scope Z_scope.

Definition q (n : Z) (d : positive) : Qc := Q2Qc (n # d).

Definition dimlit := (list (Z * list Z) * Z)%type.           (* (entries in dict order, common) *)
Definition mkdim (l : dimlit) : dim := {| dentries := fst l; dcommon := snd l |}.

(* what a cube returned: it raised / cells that differ from a default row, by flat index
   (None = missing; the plain format has no missing marks: every entry is Some) / not recorded *)
Inductive obs :=
| OExc
| OCells (default : list (option Qc)) (cells : list (Z * list (option Qc)))
| OSkip.

Record agg_case := mk {
  c_agg : agg; c_N : Z;
  c_dims : list dimlit; c_cshape : list Z; c_cinferred : bool;
  c_arrs : list (list Z); c_xshape : list Z; c_xinferred : bool;
  c_fact : fact; c_w : weights; c_ign : bool; c_fmt : fmt;
  c_obs_c : obs; c_obs_x : obs }.

(* a reported cell as the harness abstracts it *)
Definition rcell_obs (c : rcell) : option Qc :=
  match c with RNaN => None | RVal v => Some v | RPair v ok => if ok then Some v else None end.

(* exact, or (mean: one rounded division) within 2^-45 relative *)
Definition q_close (exact : bool) (x y : Qc) : bool :=
  if exact then qc_eqb x y
  else Qle_bool (Qabs (this x - this y)%Q) ((1 # 35184372088832) * (Qabs (this y) + 1))%Q.
Definition oq_close (exact : bool) (a b : option Qc) : bool :=
  match a, b with
  | None, None => true
  | Some x, Some y => q_close exact x y
  | _, _ => false
  end.

Fixpoint lookup (u : Z) (cells : list (Z * list (option Qc))) (d : list (option Qc)) : list (option Qc) :=
  match cells with
  | [] => d
  | (k, v) :: cells' => if Z.eqb k u then v else lookup u cells' d
  end.

Fixpoint check_cells (exact : bool) (u : Z) (model : list (list rcell))
         (cells : list (Z * list (option Qc))) (d : list (option Qc)) : bool :=
  match model with
  | [] => true
  | row :: model' =>
      list_eqb (oq_close exact) (map rcell_obs row) (lookup u cells d)
      && check_cells exact (u + 1) model' cells d
  end.

Definition obs_matches (exact : bool) (model : option (list (list rcell))) (o : obs) : bool :=
  match o, model with
  | OSkip, _ => true
  | OExc, None => true
  | OCells d cells, Some m =>
      check_cells exact 0 m cells d
      && forallb (fun kv => (0 <=? fst kv) && (fst kv <? lenZ m)) cells
  | _, _ => false
  end.

Definition is_mean (A : agg) : bool := match A with AMean => true | _ => false end.

(* the dense arrays are the dense meaning of the dimensions (equivalent inputs to the two cubes) *)
Definition same_data (N : Z) (dims : list dim) (arrs : list (list Z)) : bool :=
  list_eqb zlist_eqb (map (fun d => map (dim_dense d) (rowrange N)) dims) arrs.

(* stand-in for NaN used when evaluating the models (any value works: hidden_values_irrelevant) *)
Definition h_eval : Qc := q 12345 7.

Definition ccube_model (c : agg_case) : option (list (list rcell)) :=
  let dims := map mkdim (c_dims c) in
  if cube_ok (c_cshape c) dims
  then Some (ccube_report (c_agg c) (c_N c) dims (c_cshape c) h_eval (c_fact c) (c_w c) (c_ign c) (c_fmt c))
  else None.
Definition xcube_model (c : agg_case) : option (list (list rcell)) :=
  xcube_report (c_agg c) (c_N c) (map arr_cat (c_arrs c)) (c_xshape c) h_eval (c_fact c) (c_w c) (c_ign c) (c_fmt c).

Definition agg_check (c : agg_case) : bool :=
  let dims := map mkdim (c_dims c) in
  let exact := negb (is_mean (c_agg c)) in
  forallb (dim_wf_b (c_N c)) dims
  && (match c_obs_c c with OSkip => true | _ => same_data (c_N c) dims (c_arrs c) end)
  && (if c_cinferred c then zlist_eqb (infer_shape dims) (c_cshape c) else true)
  && (if c_xinferred c then zlist_eqb (xinfer_shape (c_arrs c)) (c_xshape c) else true)
  && (match c_obs_c c with OSkip => true | o => obs_matches exact (ccube_model c) o end)
  && obs_matches exact (xcube_model c) (c_obs_x c).

(* the specification on the same call, in the same report format (exact comparison with the models;
   only meaningful when the cube covers the data) *)
Definition spec_report (c : agg_case) (cats : list (Z -> Z)) (shape : list Z) : list (list rcell) :=
  let d := direct (c_agg c) (c_N c) cats shape (c_fact c) (c_w c) (c_ign c) in
  match c_agg c with
  | AValidCount => if is_plain0 (c_fmt c) then map (map (fun vm => RVal (fst vm))) d else report_all (c_fmt c) d
  | _ => report_all (c_fmt c) d
  end.
Definition rcell_eqb (a b : rcell) : bool :=
  match a, b with
  | RNaN, RNaN => true
  | RVal x, RVal y => qc_eqb x y
  | RPair x u, RPair y v => Bool.eqb u v && (if u then qc_eqb x y else true)
  | _, _ => false
  end.
Definition agg_spec_check (c : agg_case) : bool :=
  let dims := map mkdim (c_dims c) in
  (match c_obs_c c with
   | OSkip => true
   | _ => if covers_b (c_cshape c) dims
          then match ccube_model c with
               | Some m => list_eqb (list_eqb rcell_eqb) m (spec_report c (map dim_dense dims) (c_cshape c))
               | None => false
               end
          else true
   end)
  && (match xcube_model c, c_obs_x c with
      | Some m, OCells _ _ => list_eqb (list_eqb rcell_eqb) m (spec_report c (map arr_cat (c_arrs c)) (c_xshape c))
      | _, _ => true
      end).

(* ---- large cubes (an extent product at the 65535 / 65536 mintype boundary): sparse evaluation ----
   Beyond TABLE_LIMIT cells the cubes are not tabulated.  The cells examined are the cells the
   implementation reported as different from the default row (missing / the plain value) and the
   cell of every input row; every other cell holds no row.
     array cube: the MODEL itself, evaluated at those flat indices ([seg] of any other index is
       empty, so the model's row there is its row for no rows, which must be the default);
     index cube: the right-hand side of theorem FFuncsProofs.ccube_agg_direct (the specification on
       the rows of the cell), demanding the theorem's hypotheses dim_wf_b / covers_b - the functional
       region model recomputes every differencing sum on each lookup and cannot be tabulated here. *)
Definition TABLE_LIMIT : Z := 1024.
Definition big_case (c : agg_case) : bool :=
  (TABLE_LIMIT <? prodZ (c_cshape c)) || (TABLE_LIMIT <? prodZ (c_xshape c)).

Fixpoint flat_index (shape cell : list Z) : Z :=
  match shape, cell with e :: s, x :: cs => x * prodZ s + flat_index s cs | _, _ => 0 end.
Fixpoint unflat (shape : list Z) (u : Z) : list Z :=
  match shape with [] => [] | e :: s => (u / prodZ s) :: unflat s (u mod prodZ s) end.

(* one cell's row of reported values from its (value, missing) pairs / partial counts *)
Definition report_row (c : agg_case) (vms : list (Qc * bool)) : list rcell :=
  match c_agg c with
  | AValidCount => if is_plain0 (c_fmt c) then map (fun vm => RVal (fst vm)) vms else map (report (c_fmt c)) vms
  | _ => map (report (c_fmt c)) vms
  end.
Definition spec_row (c : agg_case) (rows : list Z) : list rcell :=
  report_row c (map (fun fx => direct_cell (w_get (c_w c)) fx (c_agg c) (c_ign c) rows) (fact_cols (c_fact c))).
Definition x_model_row (c : agg_case) (p : xpath) (rows : list Z) : list rcell :=
  let nw := norm_w h_eval (c_w c) in
  match c_agg c with
  | AValidCount =>
      if is_plain0 (c_fmt c) then map RVal (x_cols_plain0 (c_fact c) nw rows)
      else map (report (c_fmt c)) (x_cols AValidCount h_eval (c_fact c) nw p (c_ign c) (lenZ rows) rows)
  | A => map (report (c_fmt c)) (x_cols A h_eval (c_fact c) nw p (c_ign c) (lenZ rows) rows)
  end.

Definition row_matches_obs (exact : bool) (row : list rcell) (o : list (option Qc)) : bool :=
  list_eqb (oq_close exact) (map rcell_obs row) o.
Definition in_range_b (size u : Z) : bool := (0 <=? u) && (u <? size).

Definition xcube_sparse_check (c : agg_case) : bool :=
  let exact := negb (is_mean (c_agg c)) in
  let size := prodZ (c_xshape c) in
  let p := path_of (c_agg c) (c_fact c) in
  match c_obs_x c, xcoords (c_xshape c) (map arr_cat (c_arrs c)) with
  | OSkip, _ => true
  | OExc, XTooBig => true
  | OExc, XCoords co => match p with PBins => false | _ => negb (bincount_ok (crows (c_N c) co) size) end
  | OCells d cells, XCoords co =>
      let cr := crows (c_N c) co in
      (match p with PBins => true | _ => bincount_ok cr size end)
      && forallb (fun kv => in_range_b size (fst kv)) cells
      && forallb (fun u => row_matches_obs exact (x_model_row c p (seg cr u)) (lookup u cells d)
                           && list_eqb rcell_eqb (x_model_row c p (seg cr u))
                                       (spec_row c (cell_rows_f (c_N c) (map arr_cat (c_arrs c)) (unflat (c_xshape c) u))))
                 (map fst cells ++ filter (in_range_b size) (map snd cr))
      && row_matches_obs exact (x_model_row c p []) d
  | _, _ => false
  end.

Definition ccube_sparse_check (c : agg_case) : bool :=
  let exact := negb (is_mean (c_agg c)) in
  let dims := map mkdim (c_dims c) in
  let shape := c_cshape c in
  let size := prodZ shape in
  match c_obs_c c with
  | OSkip => true
  | OExc => negb (cube_ok shape dims)
  | OCells d cells =>
      cube_ok shape dims && covers_b shape dims
      && forallb (fun kv => in_range_b size (fst kv)) cells
      && forallb (fun u => row_matches_obs exact (spec_row c (cell_rows (c_N c) dims (unflat shape u))) (lookup u cells d))
                 (map fst cells ++ map (fun r => flat_index shape (map (fun dm => dim_dense dm r) dims)) (rowrange (c_N c)))
      && row_matches_obs exact (spec_row c []) d
  end.

Definition agg_sparse_check (c : agg_case) : bool :=
  let dims := map mkdim (c_dims c) in
  forallb (dim_wf_b (c_N c)) dims
  && (match c_obs_c c with OSkip => true | _ => same_data (c_N c) dims (c_arrs c) end)
  && (if c_cinferred c then zlist_eqb (infer_shape dims) (c_cshape c) else true)
  && (if c_xinferred c then zlist_eqb (xinfer_shape (c_arrs c)) (c_xshape c) else true)
  && ccube_sparse_check c && xcube_sparse_check c.

(* the check the harness runs *)
Definition agg_check_any (c : agg_case) : bool :=
  if big_case c then agg_sparse_check c else agg_check c && agg_spec_check c.

(* decidable equality of model outputs (Qc carries a canonicity proof: compare the fractions) *)
Definition vm_eqb (a b : Qc * bool) : bool := qc_eqb (fst a) (fst b) && Bool.eqb (snd a) (snd b).
Definition cells_eqb : list (list (Qc * bool)) -> list (list (Qc * bool)) -> bool := list_eqb (list_eqb vm_eqb).
Definition ocells_eqb (a b : option (list (list (Qc * bool)))) : bool :=
  match a, b with Some x, Some y => cells_eqb x y | None, None => true | _, _ => false end.

Definition agg_explain (c : agg_case) :=
  if big_case c then (ccube_sparse_check c, xcube_sparse_check c, None, None) else
  (forallb (dim_wf_b (c_N c)) (map mkdim (c_dims c)), same_data (c_N c) (map mkdim (c_dims c)) (c_arrs c),
   ccube_model c, xcube_model c).
