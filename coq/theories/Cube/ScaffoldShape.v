From Coq Require Import ZArith List Bool Lia.
From Catii Require Import Base.Cases Base.Sorted IIndex.Model Cube.Scaffold Cube.ScaffoldProofs.
Import ListNotations.
Open Scope Z_scope.

Lemma in_zrange x n : In x (zrange n) <-> 0 <= x < n.
Proof.
  unfold zrange. rewrite in_map_iff. split.
  - intros [k [<- Hk]]. apply in_seq in Hk. lia.
  - intros H. exists (Z.to_nat x). split; [lia|apply in_seq; lia].
Qed.

Lemma nodup_zrange n : NoDup (zrange n).
Proof.
  unfold zrange. apply nodup_map_inj; [apply seq_NoDup|]. intros x y _ _ E. lia.
Qed.

Lemma in_all_hcs hs : forall hc, In hc (all_hcs hs) <-> in_hshape hc hs.
Proof.
  induction hs as [|e hs IH]; intros hc; cbn [all_hcs]; unfold in_hshape in *.
  - split; [intros [<-|[]]; constructor|intros H; inversion H; now left].
  - rewrite in_flat_map. split.
    + intros [c [Hc Hin]]. apply in_map_iff in Hin. destruct Hin as [t [<- Ht]].
      constructor; [apply in_zrange; exact Hc|apply IH; exact Ht].
    + intros H. inversion H as [|c e' t hs' Hc Ht]; subst. exists c. split; [apply in_zrange; exact Hc|].
      apply in_map_iff. exists t. split; [reflexivity|apply IH; exact Ht].
Qed.

Lemma in_hshape_length hc hs : in_hshape hc hs -> length hc = length hs.
Proof. intros H. induction H; cbn; congruence. Qed.

Lemma nodup_all_hcs hs : NoDup (all_hcs hs).
Proof.
  induction hs as [|e hs IH]; cbn [all_hcs]; [constructor; [intros []|constructor]|].
  pose proof (nodup_zrange e) as N. induction (zrange e) as [|c l IHl]; cbn [flat_map]; [constructor|].
  inversion N as [|? ? Hn N']; subst. apply NoDup_app_intro.
  - apply nodup_map_inj; [exact IH|]. intros x y _ _ E. inversion E. reflexivity.
  - apply IHl. exact N'.
  - intros t Ht Ht'. apply in_map_iff in Ht. destruct Ht as [u [<- Hu]].
    apply in_flat_map in Ht'. destruct Ht' as [c' [Hc' Ht']]. apply in_map_iff in Ht'.
    destruct Ht' as [u' [E Hu']]. inversion E; subst. contradiction.
Qed.

Lemma in_hshape_app j a b :
  in_hshape j (a ++ b) <-> exists j1 j2, j = j1 ++ j2 /\ in_hshape j1 a /\ in_hshape j2 b.
Proof.
  unfold in_hshape. split.
  - intros H. apply Forall2_app_inv_r in H. destruct H as [j1 [j2 [H1 [H2 E]]]]. eauto.
  - intros [j1 [j2 [-> [H1 H2]]]]. apply Forall2_app; assumption.
Qed.

(* a position in the scaffold splits, uniquely, into one extra-axis coordinate tuple per dimension *)
Lemma in_scaffold_split hss : forall j,
  in_hshape j (scaffold_shape hss) <-> exists js, Forall2 in_hshape js hss /\ concat js = j.
Proof.
  unfold scaffold_shape. induction hss as [|hs hss IH]; intros j; cbn [concat].
  - split.
    + intros H. inversion H. exists []. split; constructor.
    + intros [js [F <-]]. inversion F. constructor.
  - rewrite in_hshape_app. split.
    + intros [j1 [j2 [-> [H1 H2]]]]. apply IH in H2. destruct H2 as [js [F <-]].
      exists (j1 :: js). split; [constructor; assumption|reflexivity].
    + intros [js [F <-]]. inversion F as [|j1 ? js' ? H1 F']; subst. cbn [concat].
      exists j1, (concat js'). split; [reflexivity|]. split; [exact H1|]. apply IH. eauto.
Qed.

Lemma wf_slices_generic {A} (hs : list Z) (f : list Z -> A) :
  wf_sdim A (map (fun hc => (hc, f hc)) (all_hcs hs)) (length hs).
Proof.
  split.
  - rewrite map_map. cbn [fst]. rewrite map_id. apply nodup_all_hcs.
  - intros s Hs. apply in_map_iff in Hs. destruct Hs as [hc [<- Hhc]]. cbn [fst].
    apply in_hshape_length. apply in_all_hcs. exact Hhc.
Qed.

Lemma wf_slices_of_index idx : wf_sdim iindex (slices_of_index idx) (length (hshape idx)).
Proof. apply wf_slices_generic. Qed.

(* the 1-D slice IS the column: its dense content is the column of the original *)
Lemma slice_at_dense idx hc r : dense (slice_at idx hc) r [] = dense idx r hc.
Proof.
  unfold dense, slice_at. cbn [entries common].
  induction (entries idx) as [|e es IH]; cbn [flat_map find]; [reflexivity|].
  destruct e as [[v h] rows]. cbn [fst snd]. unfold covers at 2. cbn [fst snd].
  destruct (zl_eqb h hc) eqn:E; cbn [app find andb].
  - unfold covers at 1. cbn [fst snd zl_eqb andb]. destruct (memZ r rows); [reflexivity|exact IH].
  - exact IH.
Qed.

Lemma slice_at_shape idx hc : hshape (slice_at idx hc) = [] /\ nrows (slice_at idx hc) = nrows idx
  /\ common (slice_at idx hc) = common idx.
Proof. repeat split. Qed.

Section Blocks.
Variable B : Type.

Fixpoint map2 {X Y C} (f : X -> Y -> C) (xs : list X) (ys : list Y) : list C :=
  match xs, ys with x :: xs', y :: ys' => f x y :: map2 f xs' ys' | _, _ => [] end.

(* C13 for the index cube: extra axes outermost in dimension order then axis order (the block
   address is the concatenation of the per-dimension extra coordinates), and the block found at ANY
   combination of extra-axis positions is what the sub-cube over the corresponding 1-D slices computes. *)
Theorem index_cube_block (fill : list iindex -> B) (idxs : list iindex) (j : list Z) :
  in_hshape j (scaffold_shape (map hshape idxs)) ->
  exists js, Forall2 (fun hc idx => in_hshape hc (hshape idx)) js idxs /\ concat js = j /\
    read (calculate fill (map slices_of_index idxs)) j = Some (fill (map2 slice_at idxs js)).
Proof.
  intros H. apply in_scaffold_split in H. destruct H as [js [F <-]].
  exists js. split; [|split; [reflexivity|]].
  - clear fill. revert js F. induction idxs as [|i idxs IH]; intros js F; inversion F; subst; constructor; auto.
  - set (combo := map2 (fun idx hc => (hc, slice_at idx hc)) idxs js).
    assert (Hc : flat_coords combo = concat js /\ map snd combo = map2 slice_at idxs js
                 /\ In combo (product (map slices_of_index idxs))).
    { subst combo. clear fill. revert js F. induction idxs as [|i idxs IH]; intros js F; inversion F as [|hc ? js' ? Hhc F']; subst.
      - cbn. auto.
      - destruct (IH js' F') as [E1 [E2 E3]]. cbn [map2 map]. unfold flat_coords in *. cbn [map fst snd concat].
        rewrite E1, E2. split; [reflexivity|]. split; [reflexivity|].
        apply in_product. constructor.
        + unfold slices_of_index. apply in_map_iff. exists hc. split; [reflexivity|apply in_all_hcs; exact Hhc].
        + apply in_product. exact E3. }
    destruct Hc as [E1 [E2 E3]]. rewrite <- E1, <- E2.
    eapply (calculate_block iindex B fill _ (map (fun i => length (hshape i)) idxs)); [|exact E3].
    clear. induction idxs as [|i idxs IH]; cbn [map]; constructor; [apply wf_slices_of_index|exact IH].
Qed.

Theorem index_cube_outside (fill : list iindex -> B) (idxs : list iindex) (j : list Z) :
  ~ in_hshape j (scaffold_shape (map hshape idxs)) ->
  read (calculate fill (map slices_of_index idxs)) j = None.
Proof.
  intros H. apply calculate_only_blocks. intros Hin. apply H.
  apply in_map_iff in Hin. destruct Hin as [combo [<- Hc]]. apply in_product in Hc.
  apply in_scaffold_split. exists (map fst combo). split; [|reflexivity].
  clear H. revert combo Hc. induction idxs as [|i idxs IH]; intros combo Hc; inversion Hc as [|s d c' ds Hs Hc']; subst; cbn [map]; constructor.
  - unfold slices_of_index in Hs. apply in_map_iff in Hs. destruct Hs as [hc [<- Hhc]]. apply in_all_hcs. exact Hhc.
  - apply IH. exact Hc'.
Qed.

(* each of the prod(extents) blocks is written exactly once (also the footprint fact behind C16) *)
Theorem index_cube_writes_once (fill : list iindex -> B) (idxs : list iindex) :
  NoDup (map fst (calculate fill (map slices_of_index idxs))) /\
  length (calculate fill (map slices_of_index idxs)) = length (all_hcs (scaffold_shape (map hshape idxs))).
Proof.
  assert (W : Forall2 (wf_sdim iindex) (map slices_of_index idxs) (map (fun i => length (hshape i)) idxs)).
  { induction idxs as [|i idxs IH]; cbn [map]; constructor; [apply wf_slices_of_index|exact IH]. }
  destruct (calculate_writes_once iindex B fill _ _ W) as [N L]. split; [exact N|].
  rewrite L. rewrite product_length. unfold scaffold_shape.
  clear. induction idxs as [|i idxs IH]; cbn [map fold_right concat]; [reflexivity|].
  rewrite IH. unfold slices_of_index. rewrite map_length.
  generalize (concat (map hshape idxs)) as t. generalize (hshape i) as h. clear.
  induction h as [|e h IHh]; intros t; cbn [all_hcs app length]; [lia|].
  assert (G : forall (l : list Z) (P : list (list Z)), length (flat_map (fun c => map (cons c) P) l) = (length l * length P)%nat).
  { induction l as [|c l IHl]; intros P; cbn [flat_map length]; [reflexivity|]. rewrite app_length, map_length, IHl. lia. }
  rewrite !G. rewrite <- IHh. lia.
Qed.

(* the array cube: the same statement with the column of the dense array as the slice *)
Theorem array_cube_block {A} (fill : list A -> B) (dims : list (list Z * (list Z -> A))) (j : list Z) :
  in_hshape j (scaffold_shape (map fst dims)) ->
  exists js, Forall2 (fun hc d => in_hshape hc (fst d)) js dims /\ concat js = j /\
    read (calculate fill (map (fun d => slices_of_array A (fst d) (snd d)) dims)) j
      = Some (fill (map2 (fun d hc => snd d hc) dims js)).
Proof.
  intros H. apply in_scaffold_split in H. destruct H as [js [F <-]].
  exists js. split; [|split; [reflexivity|]].
  - clear fill. revert js F. induction dims as [|d dims IH]; intros js F; inversion F; subst; constructor; auto.
  - set (combo := map2 (fun (d : list Z * (list Z -> A)) hc => (hc, snd d hc)) dims js).
    assert (Hc : flat_coords combo = concat js /\ map snd combo = map2 (fun d hc => snd d hc) dims js
                 /\ In combo (product (map (fun d => slices_of_array A (fst d) (snd d)) dims))).
    { subst combo. clear fill. revert js F. induction dims as [|d dims IH]; intros js F; inversion F as [|hc ? js' ? Hhc F']; subst.
      - cbn. auto.
      - destruct (IH js' F') as [E1 [E2 E3]]. cbn [map2 map]. unfold flat_coords in *. cbn [map fst snd concat].
        rewrite E1, E2. split; [reflexivity|]. split; [reflexivity|].
        apply in_product. constructor.
        + unfold slices_of_array. apply in_map_iff. exists hc. split; [reflexivity|apply in_all_hcs; exact Hhc].
        + apply in_product. exact E3. }
    destruct Hc as [E1 [E2 E3]]. rewrite <- E1, <- E2.
    eapply (calculate_block A B fill _ (map (fun d => length (fst d)) dims)); [|exact E3].
    clear. induction dims as [|d dims IH]; cbn [map]; constructor; [apply wf_slices_generic|exact IH].
Qed.

End Blocks.
