(* The array cube as the code computes it: xcube (src/catii/xcubes.py:41-246) with xfunc_count /
   xfunc_valid_count / xfunc_sum / xfunc_mean (src/catii/xfuncs.py:171-756) over one-axis dense
   arrays.  DEFINITIONS ONLY.

     __init__            shape inference `int(max(d.flat)) + 1` per dimension           [xinfer_shape]
     _set_strides        multipliers = append(flip(cumprod(reversed(shape)))[1:], [1]),
                         mintype = first of uint8/16/32 whose max >= the number of cells,
                         TypeError beyond uint32                              [multipliers] [mintype_bits]
     strided_dims        dim.astype(mintype) - an explicit wrap modulo 2^bits whatever the source
                         dtype - and, when the multiplier is not 1, `* m` with m a numpy.int64
                         scalar: the product is int64 (NEP 50), otherwise the array keeps the
                         narrow mintype                                               [strided_fun]
     calculate           coordinates = reduce(operator.add, strided dims): an addition of two narrow
                         arrays stays narrow and wraps, anything else is int64   [add_sfun] [xcoords]
     xfunc.fill          one fact column: numpy.bincount(coordinates, weights=..., minlength=size)
                         assigned into the flat region (ValueError when a coordinate is negative or
                         >= size); several columns: `bins`: for u in range(size): rows where
                         coordinates == u (rows outside the range are silently dropped); no
                         dimensions: whole-array reductions into a region of shape (1,) [xcube_agg]
     xfunc.reduce        output_is_missing, division for the mean, adjust_zeros/report formats.

   Arrays are functions row -> value (elementwise NumPy operations are pointwise); the rows of flat
   cell u are [seg]: the increasing r < N with coordinates r = u, so that bincount with weights a is
   the sum of a over seg u (bincount and boolean-mask selection are NumPy primitives: modelled, not
   verified).  int64 arithmetic is modelled exactly (products < 2^64 cannot be reached with a valid
   mintype and in-range categories).  Extra axes of a dimension are C13. *)
From Coq Require Import ZArith QArith Qcanon List Bool.
From Catii Require Import Base.Cases Base.Sorted Cube.Dim Cube.Count Cube.Direct Cube.FFuncs.
Import ListNotations.
Open Scope Z_scope.

Definition prodZ (l : list Z) : Z := fold_right Z.mul 1 l.

(* interacting_shape = tuple(int(max(d.flat)) + 1 for d in self.dims)   (N > 0) *)
Definition xinfer_shape (arrs : list (list Z)) : list Z := map (fun a => py_max a + 1) arrs.

(* numpy.cumprod *)
Fixpoint cumprod_from (acc : Z) (l : list Z) : list Z :=
  match l with [] => [] | x :: l' => (acc * x) :: cumprod_from (acc * x) l' end.
Definition cumprod_rev (shape : list Z) : list Z := cumprod_from 1 (rev shape).
Definition multipliers (shape : list Z) : list Z := tl (rev (cumprod_rev shape)) ++ [1].
Definition maxmult (shape : list Z) : Z := last (cumprod_rev shape) 1.

Definition mintype_bits (mm : Z) : option Z :=
  if mm <=? 255 then Some 8
  else if mm <=? 65535 then Some 16
  else if mm <=? 4294967295 then Some 32
  else None.                                            (* TypeError: too many cells *)

Definition wrap (bits v : Z) : Z := v mod 2 ^ bits.

(* a strided dimension: its values, and whether it still has the narrow mintype *)
Definition sfun := ((Z -> Z) * bool)%type.
Definition strided_fun (bits m : Z) (a : Z -> Z) : sfun :=
  if m =? 1 then (fun r => wrap bits (a r), true)
  else (fun r => wrap bits (a r) * m, false).
Definition add_sfun (bits : Z) (a b : sfun) : sfun :=
  if snd a && snd b then (fun r => wrap bits (fst a r + fst b r), true)
  else (fun r => fst a r + fst b r, false).

Inductive xsetup :=
| XTooBig                         (* TypeError *)
| XDimless                        (* coordinates is None *)
| XCoords (c : Z -> Z).

Definition xcoords (shape : list Z) (arrs : list (Z -> Z)) : xsetup :=
  match mintype_bits (maxmult shape) with
  | None => XTooBig
  | Some bits =>
      match map (fun ma => strided_fun bits (fst ma) (snd ma)) (combine (multipliers shape) arrs) with
      | [] => XDimless
      | s :: rest => XCoords (fst (fold_left (add_sfun bits) rest s))
      end
  end.

(* the coordinate of every row, computed once: [(r, coordinates r)] for r < N *)
Definition crows (N : Z) (coords : Z -> Z) : list (Z * Z) := map (fun r => (r, coords r)) (rowrange N).
(* the rows of flat cell u, increasing *)
Definition seg (cr : list (Z * Z)) (u : Z) : list Z := map fst (filter (fun p => Z.eqb (snd p) u) cr).
(* numpy.bincount(...) assigned into a region of `size` cells succeeds *)
Definition bincount_ok (cr : list (Z * Z)) (size : Z) : bool :=
  forallb (fun p => (0 <=? snd p) && (snd p <? size)) cr.

(* the missing counter is obtained in two ways: bincount(weights=~validity) / count_nonzero(~validity)
   / sum(~validity[mask]), or len(segment) - sum(valid_segment) *)
Inductive mform := MNeg | MSub.
Definition mcount (mf : mform) (vld : Z -> bool) (rows : list Z) : Z :=
  match mf with
  | MNeg => countb (fun r => negb (vld r)) rows
  | MSub => lenZ rows - countb vld rows
  end.

Inductive xpath := PZero | PBincount | PBins.
(* which expression the path uses for the missing counter of valid_count / sum *)
Definition mform_of (p : xpath) : mform := match p with PBins => MSub | _ => MNeg end.

(* ---- xfunc_count (xfuncs.py:171-317); nrows = len of the segment, or self.N without dimensions ---- *)
Definition xf_count_cell (w : nweights) (ign : bool) (nrows : Z) (rows : list Z) : Qc * bool :=
  match w with
  | NWNone => (qz nrows, nrows =? 0)                         (* bincount | self.N ; isclose(counts, 0) *)
  | NWScalar v b =>
      let w0 := if b then v else q0 in
      (* bcounts * weights, bcounts * validity, bcounts * ~validity  |  N * ... without dimensions *)
      (Qcmult (qz nrows) w0, out_missing ign (nrows * b2z b =? 0) (nrows * b2z (negb b)))
  | NWArr v b =>
      let w0 := fun r => if b r then v r else q0 in
      (sumQ (map w0 rows), out_missing ign (countb b rows =? 0) (mcount MNeg b rows))
  end.

Section XCol.
Variable h : Qc.
Variable x : marr.
Variable w : nweights.
Variable p : xpath.
Let vld := validity x w.

(* ---- xfunc_sum (xfuncs.py:478-613) ---- *)
Definition xf_sum_cell (ign : bool) (rows : list Z) : Qc * bool :=
  (sumQ (map (summable h x w) rows), out_missing ign (countb vld rows =? 0) (mcount (mform_of p) vld rows)).
(* ---- xfunc_valid_count (xfuncs.py:320-475) ---- *)
Definition xf_valid_count_cell (ign : bool) (rows : list Z) : Qc * bool :=
  (sumQ (map (countable_vc x w) rows), out_missing ign (countb vld rows =? 0) (mcount (mform_of p) vld rows)).
Definition xf_valid_count_plain0_cell (rows : list Z) : Qc := adjust0 (sumQ (map (countable_vc x w) rows)).
(* ---- xfunc_mean (xfuncs.py:616-756): weighted valid counts; missing counter from ~validity on
        every path; no adjust_zeros on the denominator ---- *)
Definition xf_mean_cell (ign : bool) (rows : list Z) : Qc * bool :=
  let vc := sumQ (map (countable_mean x w) rows) in
  (Qcdiv (sumQ (map (summable h x w) rows)) vc, out_missing ign (qc_eqb vc q0) (mcount MNeg vld rows)).
End XCol.

Definition x_cols (A : agg) (h : Qc) (f : fact) (nw : nweights) (p : xpath) (ign : bool)
           (nrows : Z) (rows : list Z) : list (Qc * bool) :=
  match A with
  | ACount => [xf_count_cell nw ign nrows rows]
  | AValidCount => map (fun x => xf_valid_count_cell x nw p ign rows) (fact_marrs f)
  | ASum => map (fun x => xf_sum_cell h x nw p ign rows) (fact_marrs f)
  | AMean => map (fun x => xf_mean_cell h x nw ign rows) (fact_marrs f)
  end.

(* one fact column (or a count) -> bincount; several -> bins *)
Definition path_of (A : agg) (f : fact) : xpath :=
  match A, f with
  | ACount, _ => PBincount
  | _, FCols _ => PBins
  | _, _ => PBincount
  end.

(* xcube.count / valid_count / sum / mean: None = the call raised; else flat cells x columns *)
Definition xcube_agg (A : agg) (N : Z) (arrs : list (Z -> Z)) (shape : list Z) (h : Qc)
           (f : fact) (w : weights) (ign : bool) : option (list (list (Qc * bool))) :=
  let nw := norm_w h w in
  match xcoords shape arrs with
  | XTooBig => None
  | XDimless => Some [x_cols A h f nw PZero ign N (rowrange N)]
  | XCoords c =>
      let size := prodZ shape in
      let cr := crows N c in
      match path_of A f with
      | PBins => Some (map (fun u => x_cols A h f nw PBins ign (lenZ (seg cr u)) (seg cr u)) (zrange size))
      | pth => if bincount_ok cr size
               then Some (map (fun u => x_cols A h f nw pth ign (lenZ (seg cr u)) (seg cr u)) (zrange size))
               else None
      end
  end.

Definition x_cols_plain0 (f : fact) (nw : nweights) (rows : list Z) : list Qc :=
  map (fun x => xf_valid_count_plain0_cell x nw rows) (fact_marrs f).
Definition xcube_valid_count_plain0 (N : Z) (arrs : list (Z -> Z)) (shape : list Z) (h : Qc)
           (f : fact) (w : weights) : option (list (list Qc)) :=
  let nw := norm_w h w in
  match xcoords shape arrs with
  | XTooBig => None
  | XDimless => Some [x_cols_plain0 f nw (rowrange N)]
  | XCoords c =>
      let size := prodZ shape in
      let cr := crows N c in
      match path_of AValidCount f with
      | PBins => Some (map (fun u => x_cols_plain0 f nw (seg cr u)) (zrange size))
      | _ => if bincount_ok cr size
             then Some (map (fun u => x_cols_plain0 f nw (seg cr u)) (zrange size))
             else None
      end
  end.

Definition xcube_report (A : agg) (N : Z) (arrs : list (Z -> Z)) (shape : list Z) (h : Qc)
           (f : fact) (w : weights) (ign : bool) (fm : fmt) : option (list (list rcell)) :=
  match A with
  | AValidCount =>
      if is_plain0 fm then option_map (map (map RVal)) (xcube_valid_count_plain0 N arrs shape h f w)
      else option_map (report_all fm) (xcube_agg A N arrs shape h f w ign)
  | _ => option_map (report_all fm) (xcube_agg A N arrs shape h f w ign)
  end.
