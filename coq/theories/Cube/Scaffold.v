(* C13 - extra axes: the stacking algorithm of ccube.calculate / xcube.calculate.  DEFINITIONS ONLY.

   ccubes.py:230-267, 285-311 and xcubes.py:123-163, 190-220:
     product   = itertools.product over, per dimension, its (extra-axis coords, 1-D slice) pairs
                 (index cube: dim.slices1d(); array cube: product of the extra-axis ranges, or the
                 single pair (None, dim) for a 1-D dimension);
     each element of the product ("sub-cube") computes its aggregate from the 1-D slices alone and
     writes it into the view  region[tuple(flattened coords)]  of the stacked result regions;
     scaffold_shape = concatenation of the extra extents of the dimensions, in dimension order.
   The sub-cube computation itself (`fill`, modelled in Cube/Count.v, FFuncs.v, XCube.v) and the
   slice type are parameters here. *)
From Coq Require Import ZArith List Bool.
From Catii Require Import Base.Cases IIndex.Model.
Import ListNotations.
Open Scope Z_scope.

Section Stack.
Variables (Sl B : Type).

(* one dimension: its 1-D slices, each labelled with its own extra-axis coordinates *)
Definition sdim := list (list Z * Sl).

(* itertools.product: first dimension outermost *)
Fixpoint product (ds : list sdim) : list (list (list Z * Sl)) :=
  match ds with
  | [] => [[]]
  | d :: ds' => flat_map (fun s => map (cons s) (product ds')) d
  end.

(* flattened_slice = [e for coords in subcube_coords for e in coords] *)
Definition flat_coords (combo : list (list Z * Sl)) : list Z := concat (map fst combo).

(* the stacked result: blocks addressed by flattened coordinates; a later write shadows an earlier one
   (a NumPy view assignment overwrites) *)
Definition store := list (list Z * B).
Definition write (st : store) (j : list Z) (b : B) : store := (j, b) :: st.
Fixpoint read (st : store) (j : list Z) : option B :=
  match st with
  | [] => None
  | (k, b) :: st' => if zlist_eqb k j then Some b else read st' j
  end.

Variable fill : list Sl -> B.    (* what one sub-cube computes from its 1-D slices *)

Definition fill_one (st : store) (combo : list (list Z * Sl)) : store :=
  write st (flat_coords combo) (fill (map snd combo)).

Definition calculate (ds : list sdim) : store := fold_left fill_one (product ds) [].

End Stack.

Arguments product {Sl} ds.
Arguments flat_coords {Sl} combo.
Arguments read {B} st j.
Arguments calculate {Sl B} fill ds.
Arguments fill_one {Sl B} fill st combo.

(* ---- the two instances of "slices of a dimension" ---- *)

(* index cube, specification level: one slice per higher-coordinate tuple, in all_hcs order
   (iindex.slices1d yields the same pairs, possibly in another order: IIndex/OpsB.v slices1d) *)
Definition slice_at (idx : iindex) (hc : list Z) : iindex :=
  {| entries := flat_map (fun e => if zl_eqb (snd (fst e)) hc then [((fst (fst e), []), snd e)] else []) (entries idx);
     common := common idx; nrows := nrows idx; hshape := [] |}.
Definition slices_of_index (idx : iindex) : sdim iindex :=
  map (fun hc => (hc, slice_at idx hc)) (all_hcs (hshape idx)).

(* array cube: a dimension is a dense array given as a function of (row, higher coords);
   xcube.product: itertools.product over range(e) for e in shape[1:], or the single pair (None,) *)
Definition slices_of_array (A : Type) (hs : list Z) (column : list Z -> A) : sdim A :=
  map (fun hc => (hc, column hc)) (all_hcs hs).

Definition scaffold_shape (hss : list (list Z)) : list Z := concat hss.
