(* C18 - wq_range: for strictly positive weights and 0 <= p <= 1 the repo's weighted quantile of a
   non-missing cell is defined and lies between the smallest and the largest valid value of the cell. *)
From Coq Require Import ZArith QArith Qcanon List Bool Lia Lqa ZifyBool Sorting.Sorted.
From Catii Require Import Cube.XStats Cube.XStatsSpec Cube.XStatsCell Cube.XStatsBase Cube.XStatsGroup
  Cube.XStatsQuantile Cube.XStatsWQ.
Import ListNotations.
Open Scope Z_scope.

(* ------------------------------------------------------------------ small facts over Qc *)
Lemma qmax0_nonneg x : (0 <= x)%Qc -> qmax0 x = x.
Proof. intro H. unfold qmax0. apply Qle_bool_Qcle in H. change (this 0%Qc) with 0%Q in H. rewrite H. reflexivity. Qed.
Lemma qmax0_nonpos x : (x <= 0)%Qc -> qmax0 x = 0%Qc.
Proof.
  intro H. unfold qmax0. destruct (Qle_bool 0 (this x)) eqn:E; [ | reflexivity ].
  apply Qcle_antisym; [ exact H | ]. apply Qle_bool_Qcle. exact E.
Qed.
Lemma qc_div_bounds x y : (0 <= x)%Qc -> (x <= y)%Qc -> (0 < y)%Qc -> (0 <= x / y)%Qc /\ (x / y <= 1)%Qc.
Proof.
  intros H0 H1 HY.
  assert (NY : y <> 0%Qc) by (intro E; rewrite E in HY; exact (Qclt_not_eq _ _ HY eq_refl)).
  pose proof (Qcmult_div_r x y NY) as E. set (f := (x / y)%Qc) in *. clearbody f. subst x.
  split; clear - H0 H1 HY; qcq; nra.
Qed.
Lemma lerp_bounds a b f : (a <= b)%Qc -> (0 <= f)%Qc -> (f <= 1)%Qc ->
  (a <= a + f * (b - a))%Qc /\ (a + f * (b - a) <= b)%Qc.
Proof. intros H1 H2 H3. split; qcq; nra. Qed.

(* ------------------------------------------------------------------ cumulative sums *)
Lemma cumsum_from_length acc l : length (cumsum_from acc l) = length l.
Proof. revert acc. induction l as [ | x l IH]; intro acc; [ reflexivity | cbn [cumsum_from length]; rewrite IH; reflexivity ]. Qed.
Lemma cumsum_from_step l : forall acc i, (S i < length l)%nat ->
  nth (S i) (cumsum_from acc l) 0%Qc = (nth i (cumsum_from acc l) 0%Qc + nth (S i) l 0%Qc)%Qc.
Proof.
  induction l as [ | x l IH]; intros acc i H; [ cbn [length] in H; lia | ].
  destruct i as [ | i].
  - destruct l as [ | y l]; [ cbn [length] in H; lia | ]. reflexivity.
  - cbn [cumsum_from nth]. cbn [length] in H. apply IH. lia.
Qed.
Lemma cumsum_from_sorted l : forall acc, Forall (fun x => (0 < x)%Qc) l ->
  StronglySorted Qclt (cumsum_from acc l) /\ Forall (fun c => (acc < c)%Qc) (cumsum_from acc l).
Proof.
  induction l as [ | x l IH]; intros acc H; [ split; constructor | ].
  inversion H as [ | ? ? Hx Hl ]; subst. cbn [cumsum_from].
  destruct (IH (acc + x)%Qc Hl) as [S F].
  assert (A : (acc < acc + x)%Qc) by (clear - Hx; qcq; lra).
  split.
  - constructor; [ exact S | exact F ].
  - constructor; [ exact A | ]. eapply Forall_impl; [ | exact F ]. intros c Hc. eapply Qclt_trans; eassumption.
Qed.

(* numpy.digitize on increasing bins: the bins <= x are a prefix *)
Lemma digitize_all_gt x l : Forall (fun c => (x < c)%Qc) l -> digitize x l = 0.
Proof.
  unfold digitize, countb. induction 1 as [ | c l Hc _ IH]; [ reflexivity | ].
  cbn [filter]. destruct (Qle_bool (this c) (this x)) eqn:E; [ | exact IH ].
  apply Qle_bool_Qcle in E. exfalso. exact (Qclt_not_le _ _ Hc E).
Qed.
Lemma digitize_split x l : StronglySorted Qclt l ->
  exists R : nat, digitize x l = Z.of_nat R /\ (R <= length l)%nat /\
    (forall i, (i < R)%nat -> (nth i l 0%Qc <= x)%Qc) /\
    (forall i, (R <= i < length l)%nat -> (x < nth i l 0%Qc)%Qc).
Proof.
  induction 1 as [ | c l Sl IH F].
  - exists 0%nat. repeat split; [ cbn; lia | intros; lia | cbn [length]; intros; lia ].
  - destruct (Qle_bool (this c) (this x)) eqn:E.
    + destruct IH as [R [E1 [E2 [E3 E4]]]]. exists (S R). repeat split.
      * unfold digitize, countb in *. cbn [filter]. rewrite E, lenZ_cons, E1. lia.
      * cbn [length]. lia.
      * intros [ | i] Hi; [ apply Qle_bool_Qcle; exact E | apply E3; lia ].
      * intros [ | i] Hi; [ lia | ]. cbn [nth]. apply E4. cbn [length] in Hi. lia.
    + apply Qle_bool_false_Qclt in E. exists 0%nat. repeat split.
      * assert (G : Forall (fun y => (x < y)%Qc) (c :: l)).
        { constructor; [ exact E | ]. eapply Forall_impl; [ | exact F ]. intros y Hy. eapply Qclt_trans; eassumption. }
        rewrite (digitize_all_gt x _ G). reflexivity.
      * lia.
      * intros; lia.
      * intros [ | i] Hi; [ exact E | ]. cbn [nth].
        rewrite Forall_forall in F. eapply Qclt_trans; [ exact E | ]. apply F. apply nth_In. cbn [length] in Hi. lia.
Qed.

(* numpy.diff(a, append=[0]) *)
Lemma xdiff_nth a : forall i, (S i < length a)%nat -> nth i (xdiff a) 0%Qc = (nth (S i) a 0%Qc - nth i a 0%Qc)%Qc.
Proof.
  induction a as [ | x a IH]; intros i H; [ cbn [length] in H; lia | ].
  destruct i as [ | i].
  - destruct a as [ | y a]; [ cbn [length] in H; lia | ]. reflexivity.
  - cbn [xdiff nth]. apply IH. cbn [length] in H. lia.
Qed.

Lemma sortedQ_nth_le l : sortedQ l -> forall i j, (i <= j)%nat -> (j < length l)%nat ->
  (nth i l 0%Qc <= nth j l 0%Qc)%Qc.
Proof.
  induction l as [ | x l IH]; intros S i j Hij Hj; [ cbn [length] in Hj; lia | ].
  destruct j as [ | j].
  - replace i with 0%nat by lia. apply Qcle_refl.
  - destruct i as [ | i].
    + cbn [nth]. pose proof (sortedQ_hd_min x l S) as F. rewrite Forall_forall in F.
      apply F. apply nth_In. cbn [length] in Hj. lia.
    + cbn [nth]. apply IH; [ exact (proj2 S) | lia | cbn [length] in Hj; lia ].
Qed.

(* ------------------------------------------------------------------ the core *)
Theorem wq_core_range p a w :
  length a = length w -> (1 <= length w)%nat ->
  Forall (fun x => (0 < x)%Qc) w -> sortedQ a -> (0 <= p)%Qc -> (p <= 1)%Qc ->
  exists q, wq_core p a w = Some q /\
            (nth 0 a 0%Qc <= q)%Qc /\ (q <= nth (length a - 1) a 0%Qc)%Qc.
Proof.
  intros HL HN HW HS P0 P1.
  set (n := length w) in *.
  set (cs := cumsum w).
  assert (LC : length cs = n) by (unfold cs, cumsum; apply cumsum_from_length).
  destruct (cumsum_from_sorted w 0%Qc HW) as [SS FP]. fold (cumsum w) in SS, FP. fold cs in SS, FP.
  set (tot := nth (n - 1) cs 0%Qc).
  assert (TP : (0 < tot)%Qc).
  { rewrite Forall_forall in FP. apply FP. apply nth_In. lia. }
  set (prob := (p * tot)%Qc).
  assert (PR0 : (0 <= prob)%Qc) by (unfold prob; clear - P0 TP; qcq; nra).
  assert (PR1 : (prob <= tot)%Qc) by (unfold prob; clear - P1 TP; qcq; nra).
  destruct (digitize_split prob cs SS) as [R [ER [RB [RL RG]]]]. rewrite LC in RB, RG.
  assert (WP : forall i, (i < n)%nat -> (0 < nth i w 0%Qc)%Qc).
  { intros i Hi. rewrite Forall_forall in HW. apply HW. apply nth_In. exact Hi. }
  (* the expression computed by the code, over nat indices *)
  assert (EC : wq_core p a w
               = fadd (Some (nth (R - 1) a 0%Qc))
                      (fmul (fdiv (Some (qmax0 (prob - nth (R - 1) cs 0%Qc)))
                                  (Some (nth (Nat.min R (n - 1)) w 0%Qc)))
                            (Some (nth (R - 1) (xdiff a) 0%Qc)))).
  { unfold wq_core, nthQ. fold cs.
    replace (Z.to_nat (lenZ w - 1)) with (n - 1)%nat by (unfold lenZ, n; lia).
    fold tot. fold prob. rewrite ER.
    replace (Z.to_nat (Z.max (Z.of_nat R - 1) 0)) with (R - 1)%nat by lia.
    replace (Z.to_nat (Z.min (Z.of_nat R) (lenZ w - 1))) with (Nat.min R (n - 1)) by (unfold lenZ, n; lia).
    reflexivity. }
  rewrite EC.
  assert (DEN : (0 < nth (Nat.min R (n - 1)) w 0%Qc)%Qc) by (apply WP; lia).
  assert (DN0 : nth (Nat.min R (n - 1)) w 0%Qc <> 0%Qc).
  { intro E. rewrite E in DEN. exact (Qclt_not_eq _ _ DEN eq_refl). }
  rewrite (fdiv_some _ _ DN0). cbn [fmul fadd flift2]. eexists. split; [ reflexivity | ].
  assert (SA : forall i j, (i <= j)%nat -> (j < n)%nat -> (nth i a 0%Qc <= nth j a 0%Qc)%Qc).
  { intros i j H1 H2. apply sortedQ_nth_le; [ exact HS | exact H1 | rewrite HL; exact H2 ]. }
  rewrite HL. fold n.
  destruct R as [ | R'].
  - (* prob below the first cumulative weight: the smallest value *)
    cbn [Nat.sub]. assert (L : (prob < nth 0 cs 0%Qc)%Qc) by (apply RG; lia).
    rewrite qmax0_nonpos by (clear - L; qcq; lra).
    replace (nth 0 a 0 + 0 / nth (Nat.min 0 (n - 1)) w 0 * nth 0 (xdiff a) 0)%Qc with (nth 0 a 0%Qc)
      by (unfold Qcdiv; ring).
    split; [ apply Qcle_refl | apply SA; lia ].
  - replace (S R' - 1)%nat with R' by lia.
    destruct (Nat.eq_dec (S R') n) as [EN | EN].
    + (* prob = total weight: the largest value *)
      assert (L : (tot <= prob)%Qc) by (unfold tot; rewrite <- EN; replace (S R' - 1)%nat with R' by lia; apply RL; lia).
      assert (ER' : R' = (n - 1)%nat) by lia. rewrite ER'. fold tot.
      rewrite qmax0_nonpos by (clear - PR1; qcq; lra).
      replace (nth (n - 1) a 0 + 0 / nth (Nat.min (S (n - 1)) (n - 1)) w 0 * nth (n - 1) (xdiff a) 0)%Qc
        with (nth (n - 1) a 0%Qc) by (unfold Qcdiv; ring).
      split; [ apply SA; lia | apply Qcle_refl ].
    + (* strictly inside: between two neighbouring order statistics *)
      assert (HR : (S R' < n)%nat) by lia.
      replace (Nat.min (S R') (n - 1)) with (S R') in * by lia.
      assert (L1 : (nth R' cs 0%Qc <= prob)%Qc) by (apply RL; lia).
      assert (L2 : (prob < nth (S R') cs 0%Qc)%Qc) by (apply RG; lia).
      assert (ST : nth (S R') cs 0%Qc = (nth R' cs 0%Qc + nth (S R') w 0%Qc)%Qc)
        by (unfold cs, cumsum; apply cumsum_from_step; exact HR).
      rewrite qmax0_nonneg by (clear - L1; qcq; lra).
      rewrite xdiff_nth by (rewrite HL; exact HR).
      destruct (qc_div_bounds (prob - nth R' cs 0)%Qc (nth (S R') w 0%Qc)) as [F0 F1].
      * clear - L1. qcq. lra.
      * rewrite ST in L2. clear - L2. qcq. lra.
      * exact DEN.
      * destruct (lerp_bounds (nth R' a 0%Qc) (nth (S R') a 0%Qc) _ (SA R' (S R') ltac:(lia) HR) F0 F1) as [B0 B1].
        split.
        -- eapply Qcle_trans; [ apply (SA 0%nat R'); lia | exact B0 ].
        -- eapply Qcle_trans; [ exact B1 | apply SA; lia ].
Qed.

(* ------------------------------------------------------------------ the sorted, filtered segment *)
Definition fstR (x y : F * F) : Prop := fle (fst x) (fst y) = true.
Lemma fle_trans a b c : fle a b = true -> fle b c = true -> fle a c = true.
Proof.
  destruct a as [x | ], b as [y | ], c as [z | ]; cbn [fle]; try congruence; intros H1 H2.
  apply Qle_bool_Qcle. apply Qle_bool_Qcle in H1. apply Qle_bool_Qcle in H2. eapply Qcle_trans; eassumption.
Qed.
Lemma sorted_aw_strong l : sorted_aw l = true -> StronglySorted fstR l.
Proof.
  induction l as [ | x l IH]; intro H; [ constructor | ].
  cbn [sorted_aw] in H. apply andb_prop in H. destruct H as [H1 H2].
  pose proof (IH H2) as S. constructor; [ exact S | ].
  destruct l as [ | y l]; [ constructor | ].
  inversion S as [ | ? ? S' F ]; subst. constructor; [ exact H1 | ].
  eapply Forall_impl; [ | exact F ]. intros z Hz. unfold fstR in *. eapply fle_trans; eassumption.
Qed.
Lemma strong_filter (f : F * F -> bool) l : StronglySorted fstR l -> StronglySorted fstR (filter f l).
Proof.
  induction 1 as [ | x l S IH F]; [ constructor | ].
  cbn [filter]. destruct (f x); [ | exact IH ].
  constructor; [ exact IH | ]. apply Forall_forall. intros y Hy. apply filter_In in Hy.
  rewrite Forall_forall in F. apply F. tauto.
Qed.
Lemma strong_somes l : StronglySorted fstR l -> forallb pair_some l = true -> sortedQ (somes (map fst l)).
Proof.
  induction 1 as [ | x l S IH F]; intro H; [ exact I | ].
  cbn [forallb] in H. apply andb_prop in H. destruct H as [H1 H2].
  destruct x as [[xa | ] xw]; [ | discriminate ]. cbn [map somes fst].
  apply sortedQ_cons. split; [ | apply IH; exact H2 ].
  destruct l as [ | [[ya | ] yw] l]; [ exact I | | cbn [forallb] in H2; discriminate ].
  cbn [map somes fst hd_le]. inversion F as [ | ? ? Hxy _ ]; subst. unfold fstR in Hxy. cbn [fst fle] in Hxy.
  apply Qle_bool_Qcle. exact Hxy.
Qed.
Lemma somes_lengths l : forallb pair_some l = true ->
  length (somes (map fst l)) = length l /\ length (somes (map snd l)) = length l.
Proof.
  induction l as [ | [[a | ] [w | ]] l IH]; intro H; cbn [forallb] in H; try discriminate; [ split; reflexivity | ].
  cbn [andb pair_some fst snd is_some] in H. destruct (IH H) as [E1 E2].
  cbn [map somes fst snd length]. rewrite E1, E2. split; reflexivity.
Qed.

(* ------------------------------------------------------------------ wq_range *)
Definition pos_weights (seg : list srow) : Prop :=
  forall r w, In r seg -> svalid true r = true -> rw r = Some w -> (0 < w)%Qc.

Theorem wq_range ign p perm seg :
  sort_perm_ok perm (wq_seg true seg) = true ->           (* what every argsort result satisfies *)
  (0 <= p)%Qc -> (p <= 1)%Qc -> pos_weights seg ->
  missing_rule ign (map (svalid true) seg) = false ->
  let V := map (fun r => fst (xw_of true r)) (filter (svalid true) seg) in   (* the valid values of the cell *)
  exists q, wquantile_cell true ign p perm seg = Some q /\
            forall lo hi, is_min lo V -> is_max hi V -> (lo <= q)%Qc /\ (q <= hi)%Qc.
Proof.
  intros HP P0 P1 HW HM V.
  unfold sort_perm_ok in HP. apply andb_prop in HP. destruct HP as [HPB HSO].
  unfold wq_seg in HPB. rewrite map_length in HPB.
  set (ap := apply_perm perm (wq_seg true seg)) in *.
  set (s := if ign then filter pair_some ap else ap).
  (* the rows that enter: all pair_some, sorted, non-empty, each from a valid row of the cell *)
  assert (SS : StronglySorted fstR s).
  { unfold s. destruct ign; [ apply strong_filter | ]; apply sorted_aw_strong; exact HSO. }
  assert (FROM : forall aw, In aw s -> pair_some aw = true ->
                 exists r, In r seg /\ svalid true r = true /\ aw = (summ true r, rw r)).
  { intros aw Hin Hps.
    assert (I : In aw ap) by (unfold s in Hin; destruct ign; [ apply filter_In in Hin; tauto | exact Hin ]).
    destruct (apply_perm_In perm seg aw I) as [-> | [r [Hr ->]]]; [ discriminate | ].
    exists r. rewrite pair_some_wq in Hps. repeat split; assumption. }
  assert (ALL : forallb pair_some s = true).
  { unfold s. destruct ign; [ apply forallb_filter_id | ].
    rewrite mr_prop in HM. apply orb_false_elim in HM. destruct HM as [_ HM].
    apply forallb_forall. intros aw Hin. unfold ap, apply_perm in Hin. apply in_map_iff in Hin.
    destruct Hin as [i [<- Hi]]. pose proof (is_perm_b_bound _ _ _ HPB Hi) as Hlt.
    assert (I : In (nth i (wq_seg true seg) (None, None)) (wq_seg true seg))
      by (apply nth_In; unfold wq_seg; rewrite map_length; exact Hlt).
    unfold wq_seg in I at 2. apply in_map_iff in I. destruct I as [r [<- Hr]]. rewrite pair_some_wq.
    destruct (svalid true r) eqn:E; [ reflexivity | ].
    assert (I2 : In r (filter (fun x => negb (svalid true x)) seg)) by (apply filter_In; rewrite E; tauto).
    destruct (filter (fun x => negb (svalid true x)) seg); [ contradiction | ]. rewrite lenZ_cons in HM.
    pose proof (lenZ_nonneg l). lia. }
  assert (NE : s <> []).
  { assert (EX : exists r, In r seg /\ svalid true r = true).
    { destruct ign.
      - rewrite mr_ign in HM. destruct (filter (svalid true) seg) as [ | r l] eqn:E; [ discriminate | ].
        exists r. apply filter_In. rewrite E. left. reflexivity.
      - rewrite mr_prop in HM. apply orb_false_elim in HM. destruct HM as [HM1 HM2].
        destruct seg as [ | r seg']; [ discriminate | ]. exists r. split; [ left; reflexivity | ].
        destruct (svalid true r) eqn:E; [ reflexivity | ]. cbn [filter] in HM2. rewrite E in HM2. cbn [negb] in HM2.
        rewrite lenZ_cons in HM2. pose proof (lenZ_nonneg (filter (fun x => negb (svalid true x)) seg')). lia. }
    destruct EX as [r [Hr Hv]]. pose proof (apply_perm_covers perm seg r HPB Hr) as I. fold ap in I.
    assert (I2 : In (summ true r, rw r) s).
    { unfold s. destruct ign; [ apply filter_In; split; [ exact I | rewrite pair_some_wq; exact Hv ] | exact I ]. }
    intro E. rewrite E in I2. contradiction. }
  assert (EQ : wquantile_cell true ign p perm seg = wq_core p (somes (map fst s)) (somes (map snd s))).
  { unfold wquantile_cell. destruct seg as [ | r0 seg0] eqn:ES.
    - exfalso. apply NE. unfold s, ap, apply_perm. cbn [length] in HPB.
      unfold is_perm_b in HPB. apply andb_prop in HPB. destruct HPB as [HPB _]. apply andb_prop in HPB.
      destruct HPB as [HPB _]. apply Nat.eqb_eq in HPB. destruct perm; [ | discriminate ].
      destruct ign; reflexivity.
    - assert (G : forall t, t <> [] -> forallb pair_some t = true ->
                match t with
                | [] => None
                | _ :: _ => if forallb pair_some t then wq_core p (somes (map fst t)) (somes (map snd t)) else None
                end = wq_core p (somes (map fst t)) (somes (map snd t))).
      { intros t Ht Ha. destruct t; [ contradiction | ]. rewrite Ha. reflexivity. }
      exact (G s NE ALL). }
  rewrite EQ. destruct (somes_lengths s ALL) as [LA LW].
  destruct (wq_core_range p (somes (map fst s)) (somes (map snd s))) as [q [Eq [Q0 Q1]]].
  - rewrite LA, LW. reflexivity.
  - rewrite LW. destruct s; [ contradiction | cbn [length]; lia ].
  - apply Forall_forall. intros w Hw. apply In_somes in Hw. apply in_map_iff in Hw.
    destruct Hw as [aw [E Hin]]. rewrite forallb_forall in ALL.
    destruct (FROM aw Hin (ALL aw Hin)) as [r [Hr [Hv ->]]]. cbn [snd] in E. eapply HW; eassumption.
  - apply strong_somes; assumption.
  - exact P0.
  - exact P1.
  - exists q. split; [ exact Eq | ]. intros lo hi [_ HLO] [_ HHI].
    assert (SUB : forall x, In x (somes (map fst s)) -> In x V).
    { intros x Hx. apply In_somes in Hx. apply in_map_iff in Hx. destruct Hx as [aw [E Hin]].
      rewrite forallb_forall in ALL. destruct (FROM aw Hin (ALL aw Hin)) as [r [Hr [Hv ->]]]. cbn [fst] in E.
      unfold V. apply in_map_iff. exists r. split; [ | apply filter_In; split; assumption ].
      rewrite (summ_valid true r Hv) in E. inversion E. reflexivity. }
    assert (LP : (0 < length (somes (map fst s)))%nat).
    { rewrite LA. destruct s; [ contradiction | cbn [length]; lia ]. }
    rewrite Forall_forall in HLO, HHI. split.
    + eapply Qcle_trans; [ apply HLO, SUB, nth_In; exact LP | exact Q0 ].
    + eapply Qcle_trans; [ exact Q1 | apply HHI, SUB, nth_In; lia ].
Qed.
