(* C05: the bridge from the index model of IIndex/Model.v (the object `shift_common` works on) to the
   one-axis cube dimension of Cube/Dim.v, and the corollary: re-encoding every dimension of an index
   cube with `shift_common v` (any v inside the extent - frequent, rare or absent from the data), or
   with the automatic `shift_common()`, changes no cell of any aggregate in any report format. *)
From Coq Require Import ZArith QArith Qcanon List Bool Lia.
From Catii Require Import Base.Sorted IIndex.Model IIndex.ModelFacts IIndex.OpsA IIndex.ShiftCommon.
From Catii Require Import Base.Cases Cube.Dim Cube.Walk Cube.Diff Cube.Region Cube.Count
     Cube.Direct Cube.FFuncs Cube.XCube Cube.FillInv Cube.AggBase Cube.AggProofs.
Import ListNotations.
Open Scope Z_scope.

(* a 1-D index as a cube dimension: the dict {(value,) -> rows} in dict order, and the common *)
Definition dentry_of (e : entry) : Z * list Z := (fst (fst e), snd e).
Definition dim_of_iindex (i : iindex) : dim :=
  {| dentries := map dentry_of (entries i); dcommon := common i |}.

Definition is1d (N : Z) (i : iindex) : Prop := WF i /\ nrows i = N /\ hshape i = [].

Lemma hc_nil i e : WF i -> hshape i = [] -> In e (entries i) -> snd (fst e) = [].
Proof.
  intros W H Hin. destruct e as [k rows]. pose proof (wf_hc i W k rows Hin) as G. rewrite H in G.
  unfold in_hshape in G. inversion G. cbn [fst snd]. congruence.
Qed.

Lemma entry_eta i e : WF i -> hshape i = [] -> In e (entries i) -> e = ((fst (fst e), []), snd e).
Proof.
  intros W H Hin. pose proof (hc_nil i e W H Hin) as G. destruct e as [[v hc] rows]. cbn [fst snd] in *. now subst.
Qed.

Lemma in_dentries i v rows : WF i -> hshape i = [] ->
  (In (v, rows) (dentries (dim_of_iindex i)) <-> In ((v, []), rows) (entries i)).
Proof.
  intros W H. cbn [dim_of_iindex dentries]. rewrite in_map_iff. split.
  - intros [e [E Hin]]. rewrite (entry_eta i e W H Hin) in Hin. unfold dentry_of in E. now inversion E; subst.
  - intros Hin. exists ((v, []), rows). split; [reflexivity|exact Hin].
Qed.

Lemma dlisted_listed i r v : WF i -> hshape i = [] -> (dlisted (dim_of_iindex i) r v <-> listed i r [] v).
Proof.
  intros W H. unfold dlisted, listed. split; intros [rows [Hin Hr]]; exists rows; (split; [|exact Hr]);
  now apply (in_dentries i v rows W H).
Qed.

Lemma in_dkeys i v : WF i -> hshape i = [] ->
  (In v (dkeys (dim_of_iindex i)) <-> exists rows, In ((v, []), rows) (entries i)).
Proof.
  intros W H. unfold dkeys. rewrite in_map_iff. split.
  - intros [[v' rows] [E Hin]]. cbn [fst] in E. subst v'. exists rows. now apply in_dentries.
  - intros [rows Hin]. exists (v, rows). split; [reflexivity|now apply in_dentries].
Qed.

Theorem dim_of_iindex_wf N i : is1d N i -> dim_wf N (dim_of_iindex i).
Proof.
  intros (W & HN & H). constructor.
  - (* keys *)
    pose proof (wf_keys i W) as ND.
    assert (E : map fst (entries i) = map (fun v => (v, @nil Z)) (dkeys (dim_of_iindex i))).
    { unfold dkeys. cbn [dim_of_iindex dentries]. rewrite !map_map. apply map_ext_in. intros e Hin.
      rewrite (entry_eta i e W H Hin) at 1. reflexivity. }
    rewrite E in ND. now apply NoDup_map_inv in ND.
  - intros Hin. apply (in_dkeys i _ W H) in Hin. destruct Hin as [rows Hin].
    now apply (wf_nocommon i W _ _ Hin).
  - intros v rows Hin. apply (in_dentries i v rows W H) in Hin. now apply (wf_sorted i W _ _ Hin).
  - intros v rows Hin. apply (in_dentries i v rows W H) in Hin. now apply (wf_nonempty i W _ _ Hin).
  - intros v rows r Hin Hr. apply (in_dentries i v rows W H) in Hin. rewrite <- HN. now apply (wf_rows i W _ _ r Hin).
  - intros r v v' L L'. apply (dlisted_listed i r _ W H) in L, L'. now apply (wf_excl i W r [] v v').
Qed.

Lemma find_dense_aux r c (es : list entry) : (forall e, In e es -> snd (fst e) = []) ->
  match find (dcovers r) (map dentry_of es) with Some e => fst e | None => c end
  = match find (Model.covers r []) es with Some e => fst (fst e) | None => c end.
Proof.
  induction es as [|e es IH]; intros H; cbn [map find]; [reflexivity|].
  assert (E : dcovers r (dentry_of e) = Model.covers r [] e).
  { unfold dcovers, Model.covers, dentry_of. cbn [snd]. rewrite (H e (or_introl eq_refl)). reflexivity. }
  rewrite E. destruct (Model.covers r [] e); [reflexivity|]. apply IH. intros e' Hin. apply H. now right.
Qed.

(* the dense column of the dimension is the dense array of the index *)
Theorem dim_of_iindex_dense i r : WF i -> hshape i = [] -> dim_dense (dim_of_iindex i) r = dense i r [].
Proof.
  intros W H. unfold dim_dense, dense. cbn [dim_of_iindex dentries dcommon].
  apply find_dense_aux. intros e Hin. now apply (hc_nil i e W H).
Qed.

Theorem dim_of_iindex_spec N i : is1d N i ->
  dim_wf N (dim_of_iindex i) /\ forall r, dim_dense (dim_of_iindex i) r = dense i r [].
Proof.
  intros I. split; [now apply dim_of_iindex_wf|]. destruct I as (W & _ & H). intros r. now apply dim_of_iindex_dense.
Qed.

Lemma is1d_shift N i v : is1d N i -> is1d N (shift_common i v).
Proof.
  intros (W & HN & H). destruct (shift_common_shape i v) as [E1 E2]. split; [|split].
  - now apply shift_common_wf.
  - now rewrite E1.
  - now rewrite E2.
Qed.

(* C05 for one dimension: same rows, same dense column *)
Theorem shift_common_same_dense N i v : is1d N i ->
  same_on N (dim_dense (dim_of_iindex (shift_common i v))) (dim_dense (dim_of_iindex i)).
Proof.
  intros I r Hr. pose proof (is1d_shift N i v I) as (W' & _ & H'). destruct I as (W & HN & H).
  rewrite !dim_of_iindex_dense by assumption. apply shift_common_dense; [exact W|].
  split; [lia|]. rewrite H. constructor.
Qed.

(* the keys after the shift are old keys or the old common *)
Lemma shift_keys N i v u : is1d N i -> In u (dkeys (dim_of_iindex (shift_common i v))) ->
  In u (dkeys (dim_of_iindex i)) \/ u = common i.
Proof.
  intros I Hin. destruct (Z.eq_dec v (common i)) as [E|Hv].
  { unfold shift_common in Hin. rewrite E, Z.eqb_refl in Hin. now left. }
  pose proof (is1d_shift N i v I) as (W' & _ & H'). destruct I as (W & HN & H).
  apply (in_dkeys _ u W' H') in Hin. destruct Hin as [rows Hin].
  pose proof (wf_nonempty _ W' _ _ Hin) as NE. destruct rows as [|r rows]; [contradiction|].
  assert (L : listed (shift_common i v) r [] u) by (exists (r :: rows); split; [exact Hin|now left]).
  apply (listed_shift i v r [] u W Hv) in L. destruct L as [_ [[rows' [Hin' _]]|[E _]]]; [left|now right].
  apply (in_dkeys i u W H). now exists rows'.
Qed.

Definition shifted (idxs : list iindex) (vs : list Z) : list iindex :=
  map (fun iv => shift_common (fst iv) (snd iv)) (combine idxs vs).

Lemma shifted_facts N : forall idxs vs shape,
  Forall (is1d N) idxs -> Region.covers shape (map dim_of_iindex idxs) -> Forall2 (fun v e => 0 <= v < e) vs shape ->
  Forall (dim_wf N) (map dim_of_iindex (shifted idxs vs))
  /\ Region.covers shape (map dim_of_iindex (shifted idxs vs))
  /\ Forall2 (fun d d' => same_on N (dim_dense d) (dim_dense d'))
             (map dim_of_iindex (shifted idxs vs)) (map dim_of_iindex idxs).
Proof.
  induction idxs as [|i idxs IH]; intros vs shape HI C HV.
  - cbn in C. inversion C; subst. inversion HV; subst. cbn. repeat split; constructor.
  - cbn [map] in C. inversion C as [|e d s ds [Hk Hc] Cs]; subst. inversion HV as [|v e' vs' s' Hv HVs]; subst.
    inversion HI as [|i' l Ii Il]; subst.
    destruct (IH vs' s Il Cs HVs) as (W & C' & S). unfold shifted. cbn [combine map fst snd]. repeat split.
    + constructor; [apply dim_of_iindex_wf; now apply is1d_shift|exact W].
    + constructor; [|exact C']. split.
      * intros u Hu. destruct (shift_keys N i v u Ii Hu) as [G| ->]; [now apply Hk|exact Hc].
      * cbn [dim_of_iindex dcommon]. now rewrite shift_common_common.
    + constructor; [now apply shift_common_same_dense|exact S].
Qed.

(* C05: every dimension d_k replaced by d_k.shift_common(v_k) - with v_k = d_k.common the dimension is
   unchanged, so this covers "any dimension d and any value v" - leaves every aggregate, in every
   report format, unchanged *)
Theorem C05_shift_common A N idxs vs shape h f w ign fm :
  0 <= N -> Forall (is1d N) idxs -> Region.covers shape (map dim_of_iindex idxs) ->
  Forall2 (fun v e => 0 <= v < e) vs shape -> agg_fact_ok A f ->
  ccube_agg N (map dim_of_iindex (shifted idxs vs)) shape A h f w ign
    = ccube_agg N (map dim_of_iindex idxs) shape A h f w ign
  /\ ccube_report A N (map dim_of_iindex (shifted idxs vs)) shape h f w ign fm
     = ccube_report A N (map dim_of_iindex idxs) shape h f w ign fm.
Proof.
  intros HN HI C HV HA. destruct (shifted_facts N idxs vs shape HI C HV) as (W' & C' & S).
  assert (W : Forall (dim_wf N) (map dim_of_iindex idxs)).
  { clear -HI. induction HI; cbn [map]; constructor; [now apply dim_of_iindex_wf|assumption]. }
  split; [now apply ccube_agg_reencode|now apply ccube_report_reencode].
Qed.

(* ... and after re-normalising with the automatic choice shift_common() *)
Definition renormalised (idxs : list iindex) : list iindex := shifted idxs (map auto_common idxs).
Theorem C05_shift_common_auto A N idxs shape h f w ign fm :
  0 <= N -> Forall (is1d N) idxs -> Region.covers shape (map dim_of_iindex idxs) ->
  Forall2 (fun v e => 0 <= v < e) (map auto_common idxs) shape -> agg_fact_ok A f ->
  ccube_report A N (map dim_of_iindex (renormalised idxs)) shape h f w ign fm
  = ccube_report A N (map dim_of_iindex idxs) shape h f w ign fm.
Proof. intros HN HI C HV HA. now apply C05_shift_common. Qed.
