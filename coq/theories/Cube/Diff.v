(* N-dimensional marginal differencing (ccubes.py:154-226 `_compute_common_cells_from_marginal_diffs`),
   generic in the value type: any commutative group (V, vadd, vsub, vzero).
   Instances at the end: Z (counts) and Qc (exact rationals: weights, sums).

   A region is a function from patterns to values; a pattern gives, for every axis, a category
   (Some k) or the margin (None).  [S p] is the specification: the sum of [mu r] over the rows
   matching p.  [Inv a R] says that R already holds S p at every pattern without a common category
   on the axes >= a, and zero where one of those axes is at its common category (the cells the walk
   never visits).  [diff_axis a] is one iteration of the loop - common cell := margin - sum over
   ALL categories 0..ext-1 of the axis (including the still-zero common one, exactly like
   `region[uncommon_slice].sum(axis)`) - and [diff_all n] the whole loop. *)
From Coq Require Import ZArith List Bool Lia Arith QArith Qcanon.
Import ListNotations.

Section Diff.
Variable V : Type.
Variable vadd vsub : V -> V -> V.
Variable vzero : V.
Hypothesis vadd_comm : forall x y, vadd x y = vadd y x.
Hypothesis vadd_assoc : forall x y z, vadd x (vadd y z) = vadd (vadd x y) z.
Hypothesis vadd_0_l : forall x, vadd vzero x = x.
Hypothesis vadd_sub : forall x y, vsub (vadd x y) y = x.      (* (x + y) - y = x *)

Variable Row : Type.
Variable rows : list Row.
Variable cat : nat -> Row -> nat.     (* category of a row on dimension d *)
Variable mu : Row -> V.               (* what is being summed *)
Variable n : nat.                     (* number of dims *)
Variable ext : nat -> nat.            (* extent of dim d *)
Variable com : nat -> nat.            (* common category of dim d *)
Hypothesis cat_lt : forall d r, (d < n)%nat -> In r rows -> (cat d r < ext d)%nat.
Hypothesis com_lt : forall d, (d < n)%nat -> (com d < ext d)%nat.

Definition pat := nat -> option nat.   (* None = margin *)

Definition upd (p : pat) (a : nat) (v : option nat) : pat :=
  fun d => if Nat.eqb d a then v else p d.

Definition matchd (p : pat) (r : Row) (d : nat) : bool :=
  match p d with None => true | Some k => Nat.eqb (cat d r) k end.

Definition matches (p : pat) (r : Row) : bool := forallb (matchd p r) (seq 0 n).

Fixpoint vsum (l : list V) : V := match l with [] => vzero | x :: l => vadd x (vsum l) end.

Definition S (p : pat) : V := vsum (map mu (filter (matches p) rows)).

Definition reg := pat -> V.

Definition diff_axis (a : nat) (R : reg) : reg :=
  fun p => match p a with
           | Some k => if Nat.eqb k (com a)
                       then vsub (R (upd p a None)) (vsum (map (fun k => R (upd p a (Some k))) (seq 0 (ext a))))
                       else R p
           | None => R p
           end.

(* pointwise-extensional regions: R only looks at p on [0,n) *)
Definition ext_reg (R : reg) := forall p q, (forall d, (d < n)%nat -> p d = q d) -> R p = R q.

Definition has_common_from (a : nat) (p : pat) : Prop :=
  exists d, (a <= d < n)%nat /\ p d = Some (com d).

Definition Inv (a : nat) (R : reg) : Prop :=
  forall p, (has_common_from a p -> R p = vzero) /\ (~ has_common_from a p -> R p = S p).

(* ---- group algebra ---- *)
Lemma vadd_0_r x : vadd x vzero = x.
Proof. rewrite vadd_comm. apply vadd_0_l. Qed.

Lemma vsum_app l1 l2 : vsum (l1 ++ l2) = vadd (vsum l1) (vsum l2).
Proof.
  induction l1 as [|x l1 IH]; cbn [app vsum]; [now rewrite vadd_0_l|].
  now rewrite IH, vadd_assoc.
Qed.

Lemma vadd_swap x y z w : vadd (vadd x y) (vadd z w) = vadd (vadd x z) (vadd y w).
Proof.
  rewrite <- (vadd_assoc x y), (vadd_assoc y z w), (vadd_comm y z), <- (vadd_assoc z y w).
  now rewrite vadd_assoc.
Qed.

Lemma vsum_add {A} (f g : A -> V) l :
  vsum (map (fun k => vadd (f k) (g k)) l) = vadd (vsum (map f l)) (vsum (map g l)).
Proof.
  induction l as [|x l IH]; cbn [map vsum]; [now rewrite vadd_0_l|].
  now rewrite IH, vadd_swap.
Qed.

Lemma vsum_zero {A} (f : A -> V) l : (forall k, In k l -> f k = vzero) -> vsum (map f l) = vzero.
Proof.
  induction l as [|x l IH]; intros H; cbn [map vsum]; [reflexivity|].
  rewrite H by now left. rewrite IH; [apply vadd_0_l|]. intros; apply H; now right.
Qed.

(* sum over 0..e-1 of (x if k = c else 0) *)
Lemma vsum_delta c x e :
  vsum (map (fun k => if Nat.eqb c k then x else vzero) (seq 0 e)) = if (c <? e)%nat then x else vzero.
Proof.
  induction e as [|e IH]; [reflexivity|].
  rewrite seq_S, map_app, vsum_app, IH. cbn [plus map vsum].
  rewrite vadd_0_r.
  destruct (Nat.eqb_spec c e) as [->|Hne].
  - destruct (Nat.ltb_spec e e); [lia|]. destruct (Nat.ltb_spec e (Datatypes.S e)); [|lia].
    now rewrite vadd_0_l.
  - rewrite vadd_0_r.
    destruct (Nat.ltb_spec c e); destruct (Nat.ltb_spec c (Datatypes.S e)); try lia; reflexivity.
Qed.

Lemma vsum_ext {A} (f g : A -> V) l : (forall k, In k l -> f k = g k) -> vsum (map f l) = vsum (map g l).
Proof. intros H. f_equal. apply map_ext_in. exact H. Qed.

(* ---- patterns ---- *)
Lemma matches_upd_other p a v r d : d <> a -> matchd (upd p a v) r d = matchd p r d.
Proof. intros H. unfold matchd, upd. destruct (Nat.eqb_spec d a); [contradiction|reflexivity]. Qed.

(* matches p[a:=v] r = (v-test at a) && matches-on-others *)
Definition others (p : pat) (a : nat) (r : Row) : bool :=
  forallb (fun d => if Nat.eqb d a then true else matchd p r d) (seq 0 n).

Lemma matches_split p a v r : (a < n)%nat ->
  matches (upd p a v) r = (match v with None => true | Some k => Nat.eqb (cat a r) k end) && others p a r.
Proof.
  intros Ha. apply Bool.eq_iff_eq_true. unfold matches, others.
  rewrite andb_true_iff, !forallb_forall. split.
  - intros H. split.
    + specialize (H a). unfold matchd, upd in H. rewrite Nat.eqb_refl in H. apply H. apply in_seq. lia.
    + intros d Hd. destruct (Nat.eqb_spec d a); [reflexivity|].
      rewrite <- (matches_upd_other p a v) by assumption. auto.
  - intros [H1 H2] d Hd. destruct (Nat.eqb_spec d a) as [->|Hne].
    + unfold matchd, upd. rewrite Nat.eqb_refl. exact H1.
    + rewrite matches_upd_other by assumption. specialize (H2 d Hd).
      destruct (Nat.eqb_spec d a); [contradiction|assumption].
Qed.

(* partition: S(p[a:=None]) = sum_k<ext S(p[a:=Some k]) *)
Lemma partition p a : (a < n)%nat ->
  S (upd p a None) = vsum (map (fun k => S (upd p a (Some k))) (seq 0 (ext a))).
Proof.
  intros Ha. unfold S.
  assert (G: forall l, (forall r, In r l -> In r rows) ->
     vsum (map mu (filter (matches (upd p a None)) l)) =
     vsum (map (fun k => vsum (map mu (filter (matches (upd p a (Some k))) l))) (seq 0 (ext a)))).
  { induction l as [|r l IH]; intros Hl.
    - cbn [filter map vsum]. symmetry. apply vsum_zero. reflexivity.
    - assert (Hc: (cat a r < ext a)%nat) by (apply cat_lt; [assumption|apply Hl; now left]).
      (* every inner sum gains (mu r if cat a r = k and the others match) *)
      rewrite (vsum_ext _ (fun k => vadd (if Nat.eqb (cat a r) k then (if others p a r then mu r else vzero) else vzero)
                                         (vsum (map mu (filter (matches (upd p a (Some k))) l))))).
      2:{ intros k _. cbn [filter]. rewrite (matches_split p a (Some k)) by assumption.
          destruct (Nat.eqb (cat a r) k); cbn [andb]; [|now rewrite vadd_0_l].
          destruct (others p a r); cbn [map vsum]; [reflexivity|now rewrite vadd_0_l]. }
      rewrite vsum_add, vsum_delta. destruct (Nat.ltb_spec (cat a r) (ext a)); [|lia].
      rewrite <- IH by (intros; apply Hl; now right).
      cbn [filter]. rewrite (matches_split p a None) by assumption. cbn [andb].
      destruct (others p a r); cbn [map vsum]; [reflexivity|now rewrite vadd_0_l]. }
  apply G. auto.
Qed.

Lemma S_ext p q : (forall d, (d < n)%nat -> p d = q d) -> S p = S q.
Proof.
  intros H. unfold S. f_equal. f_equal. apply filter_ext_in. intros r _.
  unfold matches. apply Bool.eq_iff_eq_true. rewrite !forallb_forall.
  split; intros G d Hd; specialize (G d Hd); apply in_seq in Hd; unfold matchd in *;
  [rewrite <- H by lia|rewrite H by lia]; exact G.
Qed.
Lemma upd_same p a : forall d, upd p a (p a) d = p d.
Proof. intros d. unfold upd. destruct (Nat.eqb_spec d a); congruence. Qed.

Lemma hcf_upd_lt a p v b : (b < a)%nat -> (has_common_from a (upd p b v) <-> has_common_from a p).
Proof.
  intros Hb. unfold has_common_from, upd. split; intros [d [Hd E]]; exists d; (split; [lia|]);
  destruct (Nat.eqb_spec d b); try lia; assumption.
Qed.

Lemma step_inv a R : (a < n)%nat -> Inv a R -> Inv (Datatypes.S a) (diff_axis a R).
Proof.
  intros Ha HI p. unfold diff_axis.
  destruct (p a) as [k|] eqn:Epa.
  2:{ (* margin at a: unchanged *)
      split; intros H.
      - apply (HI p). destruct H as [d [Hd E]]. exists d. split; [lia|assumption].
      - apply (HI p). intros [d [Hd E]]. apply H. exists d. split; [|assumption].
        assert (d <> a) by congruence. lia. }
  destruct (Nat.eqb_spec k (com a)) as [->|Hk].
  2:{ split; intros H.
      - apply (HI p). destruct H as [d [Hd E]]. exists d. split; [lia|assumption].
      - apply (HI p). intros [d [Hd E]]. apply H. exists d. split; [|assumption].
        assert (d <> a) by congruence. lia. }
  (* p a = Some (com a) *)
  split; intros H.
  - (* some later common: everything involved is 0 *)
    assert (Z1: R (upd p a None) = vzero).
    { apply (HI _). destruct H as [d [Hd E]]. exists d. split; [lia|]. unfold upd. destruct (Nat.eqb_spec d a); [lia|assumption]. }
    rewrite Z1, vsum_zero.
    + rewrite <- (vadd_0_l vzero) at 1. apply vadd_sub.
    + intros k _. apply (HI _).
      destruct H as [d [Hd E]]. exists d. split; [lia|]. unfold upd. destruct (Nat.eqb_spec d a); [lia|assumption].
  - (* no later common *)
    assert (NC: forall v, v <> Some (com a) -> ~ has_common_from a (upd p a v)).
    { intros v Hv [d [Hd E]]. unfold upd in E. destruct (Nat.eqb_spec d a) as [->|Hne]; [congruence|].
      apply H. exists d. split; [lia|assumption]. }
    rewrite (proj2 (HI _) (NC None ltac:(discriminate))).
    rewrite (partition p a Ha).
    (* S_k = delta_k + R_k with delta_k = S(p[a:=com a]) at k = com a, else 0 *)
    rewrite (vsum_ext (fun k => S (upd p a (Some k)))
              (fun k => vadd (if Nat.eqb (com a) k then S (upd p a (Some (com a))) else vzero)
                             (R (upd p a (Some k))))).
    2:{ intros k _. destruct (Nat.eqb_spec (com a) k) as [<-|Hne].
        - assert (R (upd p a (Some (com a))) = vzero) as ->.
          { apply (HI _). exists a. split; [lia|]. unfold upd. now rewrite Nat.eqb_refl. }
          now rewrite vadd_0_r.
        - rewrite vadd_0_l. symmetry. apply (HI _). apply NC. congruence. }
    rewrite vsum_add, vsum_delta, vadd_sub.
    pose proof (com_lt a Ha). destruct (Nat.ltb_spec (com a) (ext a)); [|lia].
    rewrite <- Epa. apply S_ext. intros; apply upd_same.
Qed.

Fixpoint diff_all (k : nat) (R : reg) : reg :=
  match k with O => R | Datatypes.S k' => diff_axis k' (diff_all k' R) end.

Lemma diff_all_inv R : Inv 0 R -> forall k, (k <= n)%nat -> Inv k (diff_all k R).
Proof.
  intros H0. induction k as [|k IH]; intros Hk; [exact H0|].
  cbn [diff_all]. apply step_inv; [lia|apply IH; lia].
Qed.

Theorem diff_all_correct R : Inv 0 R -> forall p, diff_all n R p = S p.
Proof.
  intros H0 p. apply (diff_all_inv R H0 n (le_n n) p). intros [d [Hd _]]. lia.
Qed.
End Diff.


(* ---- instances ---- *)
Section Instances.
Variable Row : Type.
Variable rows : list Row.
Variable cat : nat -> Row -> nat.
Variable n : nat.
Variable ext com : nat -> nat.
Hypothesis cat_lt : forall d r, (d < n)%nat -> In r rows -> (cat d r < ext d)%nat.
Hypothesis com_lt : forall d, (d < n)%nat -> (com d < ext d)%nat.

(* counts: V = Z *)
Theorem diff_all_correct_Z (mu : Row -> Z) (R : reg Z) :
  Inv Z Z.add 0%Z Row rows cat mu n com 0 R ->
  forall p, diff_all Z Z.add Z.sub 0%Z ext com n R p = S Z Z.add 0%Z Row rows cat mu n p.
Proof.
  apply diff_all_correct; try assumption; intros; lia.
Qed.

(* sums, weights: V = Qc *)
Theorem diff_all_correct_Qc (mu : Row -> Qc) (R : reg Qc) :
  Inv Qc Qcplus (Q2Qc 0) Row rows cat mu n com 0 R ->
  forall p, diff_all Qc Qcplus Qcminus (Q2Qc 0) ext com n R p = S Qc Qcplus (Q2Qc 0) Row rows cat mu n p.
Proof.
  apply diff_all_correct; try assumption; intros; ring.
Qed.
End Instances.

Check diff_all_correct.
Print Assumptions diff_all_correct.
Print Assumptions diff_all_correct_Z.
Print Assumptions diff_all_correct_Qc.
