From Coq Require Import ZArith List Bool Lia Arith.
Import ListNotations.
Open Scope Z_scope.

Section Diff.
Variable Row : Type.
Variable rows : list Row.
Variable cat : nat -> Row -> nat.     (* category of a row on dimension d *)
Variable mu : Row -> Z.               (* what is being summed *)
Variable n : nat.                     (* number of dims *)
Variable ext : nat -> nat.            (* extent of dim d *)
Variable com : nat -> nat.            (* common category of dim d *)
Hypothesis cat_lt : forall d r, (d < n)%nat -> In r rows -> (cat d r < ext d)%nat.
Hypothesis com_lt : forall d, (d < n)%nat -> (com d < ext d)%nat.

Definition pat := nat -> option nat.   (* None = margin *)

Definition upd (p : pat) (a : nat) (v : option nat) : pat :=
  fun d => if Nat.eqb d a then v else p d.

Definition matchd (p : pat) (r : Row) (d : nat) : bool :=
  match p d with None => true | Some k => Nat.eqb (cat d r) k end.

Definition matches (p : pat) (r : Row) : bool := forallb (matchd p r) (seq 0 n).

Fixpoint sumZ (l : list Z) : Z := match l with [] => 0 | x :: l => x + sumZ l end.

Definition S (p : pat) : Z := sumZ (map mu (filter (matches p) rows)).

Definition reg := pat -> Z.

Definition diff_axis (a : nat) (R : reg) : reg :=
  fun p => match p a with
           | Some k => if Nat.eqb k (com a)
                       then R (upd p a None) - sumZ (map (fun k => R (upd p a (Some k))) (seq 0 (ext a)))
                       else R p
           | None => R p
           end.

(* pointwise-extensional regions: R only looks at p on [0,n) *)
Definition ext_reg (R : reg) := forall p q, (forall d, (d < n)%nat -> p d = q d) -> R p = R q.

Definition has_common_from (a : nat) (p : pat) : Prop :=
  exists d, (a <= d < n)%nat /\ p d = Some (com d).

Definition Inv (a : nat) (R : reg) : Prop :=
  forall p, (has_common_from a p -> R p = 0) /\ (~ has_common_from a p -> R p = S p).

Lemma sumZ_app l1 l2 : sumZ (l1 ++ l2) = sumZ l1 + sumZ l2.
Proof. induction l1 as [|x l1 IH]; cbn [app sumZ]; lia. Qed.

Lemma matches_upd_other p a v r d : d <> a -> matchd (upd p a v) r d = matchd p r d.
Proof. intros H. unfold matchd, upd. destruct (Nat.eqb_spec d a); [contradiction|reflexivity]. Qed.

(* matches p[a:=v] r = (v-test at a) && matches-on-others *)
Definition others (p : pat) (a : nat) (r : Row) : bool :=
  forallb (fun d => if Nat.eqb d a then true else matchd p r d) (seq 0 n).

Lemma matches_split p a v r : (a < n)%nat ->
  matches (upd p a v) r = (match v with None => true | Some k => Nat.eqb (cat a r) k end) && others p a r.
Proof.
  intros Ha. apply Bool.eq_iff_eq_true. unfold matches, others.
  rewrite andb_true_iff, !forallb_forall. split.
  - intros H. split.
    + specialize (H a). unfold matchd, upd in H. rewrite Nat.eqb_refl in H. apply H. apply in_seq. lia.
    + intros d Hd. destruct (Nat.eqb_spec d a); [reflexivity|].
      rewrite <- (matches_upd_other p a v) by assumption. auto.
  - intros [H1 H2] d Hd. destruct (Nat.eqb_spec d a) as [->|Hne].
    + unfold matchd, upd. rewrite Nat.eqb_refl. exact H1.
    + rewrite matches_upd_other by assumption. specialize (H2 d Hd).
      destruct (Nat.eqb_spec d a); [contradiction|assumption].
Qed.

(* partition: S(p[a:=None]) = sum_k<ext S(p[a:=Some k]) *)
Lemma partition p a : (a < n)%nat ->
  S (upd p a None) = sumZ (map (fun k => S (upd p a (Some k))) (seq 0 (ext a))).
Proof.
  intros Ha. unfold S.
  assert (G: forall l, (forall r, In r l -> In r rows) ->
     sumZ (map mu (filter (matches (upd p a None)) l)) =
     sumZ (map (fun k => sumZ (map mu (filter (matches (upd p a (Some k))) l))) (seq 0 (ext a)))).
  { induction l as [|r l IH]; intros Hl.
    - cbn. induction (seq 0 (ext a)); cbn; lia.
    - cbn [filter]. rewrite (matches_split p a None) by assumption. cbn [andb].
      assert (Hc: (cat a r < ext a)%nat) by (apply cat_lt; [assumption|apply Hl; now left]).
      assert (E: forall e, sumZ (map (fun k => sumZ (map mu (filter (matches (upd p a (Some k))) (r :: l)))) (seq 0 e)) =
               sumZ (map (fun k => sumZ (map mu (filter (matches (upd p a (Some k))) l))) (seq 0 e))
               + (if (cat a r <? e)%nat then (if others p a r then mu r else 0) else 0)).
      { induction e as [|e IHe]; [cbn; lia|].
        rewrite seq_S, !map_app, !sumZ_app, IHe. cbn [map sumZ filter plus].
        rewrite (matches_split p a (Some e)) by assumption.
        destruct (Nat.eqb_spec (cat a r) e) as [Heq|Hne].
        - subst e. destruct (Nat.ltb_spec (cat a r) (cat a r)); [lia|].
          destruct (Nat.ltb_spec (cat a r) (Datatypes.S (cat a r))); [|lia].
          cbn [andb]. destruct (others p a r); cbn [map sumZ]; lia.
        - cbn [andb].
          destruct (Nat.ltb_spec (cat a r) e); destruct (Nat.ltb_spec (cat a r) (Datatypes.S e)); try lia. }
      rewrite E. destruct (Nat.ltb_spec (cat a r) (ext a)); [|lia].
      rewrite <- IH by (intros; apply Hl; now right).
      destruct (others p a r); cbn [map sumZ]; lia. }
  apply G. auto.
Qed.


Lemma S_ext p q : (forall d, (d < n)%nat -> p d = q d) -> S p = S q.
Proof.
  intros H. unfold S. f_equal. f_equal. apply filter_ext_in. intros r _.
  unfold matches. apply Bool.eq_iff_eq_true. rewrite !forallb_forall.
  split; intros G d Hd; specialize (G d Hd); apply in_seq in Hd; unfold matchd in *;
  [rewrite <- H by lia|rewrite H by lia]; exact G.
Qed.
Lemma upd_same p a : forall d, upd p a (p a) d = p d.
Proof. intros d. unfold upd. destruct (Nat.eqb_spec d a); congruence. Qed.

Lemma hcf_upd_lt a p v b : (b < a)%nat -> (has_common_from a (upd p b v) <-> has_common_from a p).
Proof.
  intros Hb. unfold has_common_from, upd. split; intros [d [Hd E]]; exists d; (split; [lia|]);
  destruct (Nat.eqb_spec d b); try lia; assumption.
Qed.

Lemma sum_zero (f : nat -> Z) l : (forall k, In k l -> f k = 0) -> sumZ (map f l) = 0.
Proof. induction l as [|x l IH]; intros H; cbn [map sumZ]; [reflexivity|]. rewrite H by now left. rewrite IH; [lia|]. intros; apply H; now right. Qed.

Lemma step_inv a R : (a < n)%nat -> Inv a R -> Inv (Datatypes.S a) (diff_axis a R).
Proof.
  intros Ha HI p. unfold diff_axis.
  destruct (p a) as [k|] eqn:Epa.
  2:{ (* margin at a: unchanged *)
      split; intros H.
      - apply (HI p). destruct H as [d [Hd E]]. exists d. split; [lia|assumption].
      - apply (HI p). intros [d [Hd E]]. apply H. exists d. split; [|assumption].
        assert (d <> a) by congruence. lia. }
  destruct (Nat.eqb_spec k (com a)) as [->|Hk].
  2:{ split; intros H.
      - apply (HI p). destruct H as [d [Hd E]]. exists d. split; [lia|assumption].
      - apply (HI p). intros [d [Hd E]]. apply H. exists d. split; [|assumption].
        assert (d <> a) by congruence. lia. }
  (* p a = Some (com a) *)
  split; intros H.
  - (* some later common: everything involved is 0 *)
    assert (Z1: R (upd p a None) = 0).
    { apply (HI _). destruct H as [d [Hd E]]. exists d. split; [lia|]. unfold upd. destruct (Nat.eqb_spec d a); [lia|assumption]. }
    rewrite Z1, sum_zero; [lia|]. intros k _. apply (HI _).
    destruct H as [d [Hd E]]. exists d. split; [lia|]. unfold upd. destruct (Nat.eqb_spec d a); [lia|assumption].
  - (* no later common *)
    assert (NC: forall v, v <> Some (com a) -> ~ has_common_from a (upd p a v)).
    { intros v Hv [d [Hd E]]. unfold upd in E. destruct (Nat.eqb_spec d a) as [->|Hne]; [congruence|].
      apply H. exists d. split; [lia|assumption]. }
    rewrite (proj2 (HI _) (NC None ltac:(discriminate))).
    rewrite (partition p a Ha).
    (* split the sum at k = com a *)
    assert (G: forall e, sumZ (map (fun k => S (upd p a (Some k))) (seq 0 e))
                 - sumZ (map (fun k => R (upd p a (Some k))) (seq 0 e))
                 = if (com a <? e)%nat then S (upd p a (Some (com a))) else 0).
    { induction e as [|e IHe]; [reflexivity|].
      rewrite seq_S, !map_app, !sumZ_app. cbn [plus map sumZ].
      destruct (Nat.eqb_spec e (com a)) as [->|Hne].
      - assert (R (upd p a (Some (com a))) = 0) as ->.
        { apply (HI _). exists a. split; [lia|]. unfold upd. now rewrite Nat.eqb_refl. }
        destruct (Nat.ltb_spec (com a) (com a)); [lia|].
        destruct (Nat.ltb_spec (com a) (Datatypes.S (com a))); [|lia]. lia.
      - rewrite (proj2 (HI _) (NC (Some e) ltac:(congruence))).
        destruct (Nat.ltb_spec (com a) e); destruct (Nat.ltb_spec (com a) (Datatypes.S e)); lia. }
    specialize (G (ext a)). pose proof (com_lt a Ha). destruct (Nat.ltb_spec (com a) (ext a)); [|lia].
    rewrite <- Epa in G. rewrite (S_ext (upd p a (p a)) p) in G by (intros; apply upd_same). lia.
Qed.

Fixpoint diff_all (k : nat) (R : reg) : reg :=
  match k with O => R | Datatypes.S k' => diff_axis k' (diff_all k' R) end.

Theorem diff_all_correct R : Inv 0 R -> forall p, diff_all n R p = S p.
Proof.
  intros H0.
  assert (G: forall k, (k <= n)%nat -> Inv k (diff_all k R)).
  { induction k as [|k IH]; intros Hk; [exact H0|]. cbn [diff_all]. apply step_inv; [lia|apply IH; lia]. }
  intros p. apply (G n (le_n n) p). intros [d [Hd _]]. lia.
Qed.
End Diff.
Check diff_all_correct.
Print Assumptions diff_all_correct.
