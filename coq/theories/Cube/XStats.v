(* C18 - model of the statistics only the array cube provides (src/catii/xfuncs.py: xfunc_stddev,
   xfunc_quantile incl. weighted_quantile, xfunc_max/min, xfunc_corrcoef, xfunc_covariance, bins()) and
   of the strided coordinates of src/catii/xcubes.py.  Definitions only; exact rationals [Qc].

   Conventions
   * a float is [F := option Qc]; [None] stands for a non-finite double (NaN, and +-inf produced by a
     division by zero, which nothing downstream turns back into a finite number); arithmetic is
     None-absorbing exactly like NaN; [nansum] skips None.
   * the parallel NumPy arrays of one call (coordinates, fact column(s), weights) are one list of
     row records, in row order; a fact / weight entry is [None] when it is missing (NaN-marked or
     validity False: the code overwrites such entries with NaN in every xfunc modelled here, and the
     places where the raw hidden weight is still read only feed cells that are masked).
   * [sqrt] is not modelled: the stddev model returns the VARIANCE, the correlation model returns
     the triple (cov_ij, cov_ii, cov_jj). *)
From Coq Require Import ZArith QArith Qcanon Qround List Bool.
Import ListNotations.
Open Scope Z_scope.

(* ------------------------------------------------------------------ floats *)
Definition F := option Qc.

Definition flift2 (f : Qc -> Qc -> Qc) (a b : F) : F :=
  match a, b with Some x, Some y => Some (f x y) | _, _ => None end.
Definition fadd := flift2 Qcplus.
Definition fsub := flift2 Qcminus.
Definition fmul := flift2 Qcmult.
Definition qc_is0 (y : Qc) : bool := Qeq_bool (this y) 0.
Definition fdiv (a b : F) : F :=
  match a, b with
  | Some x, Some y => if qc_is0 y then None else Some (x / y)%Qc
  | _, _ => None
  end.
Definition is_some {A} (o : option A) : bool := match o with Some _ => true | None => false end.
Definition ofZ (z : Z) : Qc := Q2Qc (inject_Z z).
Definition fZ (z : Z) : F := Some (ofZ z).

Fixpoint sumQc (l : list Qc) : Qc := match l with [] => 0%Qc | x :: l' => (x + sumQc l')%Qc end.
(* numpy.sum / bincount weights over doubles: NaN-absorbing *)
Fixpoint fsum (l : list F) : F := match l with [] => Some 0%Qc | x :: l' => fadd x (fsum l') end.
(* numpy.nansum *)
Fixpoint fnansum (l : list F) : F :=
  match l with [] => Some 0%Qc | Some x :: l' => fadd (Some x) (fnansum l') | None :: l' => fnansum l' end.
Definition lenZ {A} (l : list A) : Z := Z.of_nat (length l).

(* ------------------------------------------------------------------ coordinates (xcubes.py) *)
Fixpoint prodZ (l : list Z) : Z := match l with [] => 1 | x :: l' => x * prodZ l' end.
(* _set_strides: multiplier of a dimension = product of the later extents *)
Fixpoint strides (exts : list Z) : list Z :=
  match exts with [] => [] | _ :: es => prodZ es :: strides es end.
Fixpoint dotZ (a b : list Z) : Z :=
  match a, b with x :: a', y :: b' => x * y + dotZ a' b' | _, _ => 0 end.
(* strided_dims + reduce(operator.add): coordinate of a row = sum over dims of value * stride *)
Definition coordinate (exts cats : list Z) : Z := dotZ cats (strides exts).

Definition cells (size : Z) : list Z := map Z.of_nat (seq 0 (Z.to_nat size)).

(* ------------------------------------------------------------------ rows *)
(* single fact column *)
Record srow := mk_srow { rc : Z; rx : F; rw : F }.
(* several fact columns *)
Record mrow := mk_mrow { mc : Z; mxs : list F; mw : F }.

(* bins(coordinates, size): one boolean row mask per cell;  arr[rowmask] *)
Definition cell_s (u : Z) (rows : list srow) : list srow := filter (fun r => Z.eqb (rc r) u) rows.
Definition cell_m (u : Z) (rows : list mrow) : list mrow := filter (fun r => Z.eqb (mc r) u) rows.
Definition countb {A} (f : A -> bool) (l : list A) : Z := lenZ (filter f l).
Definition nthF (l : list F) (i : Z) : F := nth (Z.to_nat i) l None.

Section Weighted.
Variable weighted : bool.   (* weights is not None *)
Variable ign : bool.        (* ignore_missing *)

(* __init__: validity = fact validity & weights validity *)
Definition svalid (r : srow) : bool := is_some (rx r) && (negb weighted || is_some (rw r)).
(* summables[~validity] = NaN *)
Definition summ (r : srow) : F := if svalid r then rx r else None.

(* ---------------------------------------------------------------- xfunc_stddev *)
Definition countable (r : srow) : F :=
  if svalid r then (if weighted then rw r else Some 1%Qc) else Some 0%Qc.
Definition wsumm (r : srow) : F := if weighted then fmul (summ r) (rw r) else summ r.

(* numpy.bincount(coords, weights=f, minlength=size) *)
Definition bincountF (size : Z) (rows : list srow) (f : srow -> F) : list F :=
  map (fun u => fsum (map f (cell_s u rows))) (cells size).
Definition bincountN (size : Z) (rows : list srow) (f : srow -> bool) : list Z :=
  map (fun u => countb f (cell_s u rows)) (cells size).

Definition sqdev (wmeans : list F) (r : srow) : F :=
  let d := fsub (summ r) (nthF wmeans (rc r)) in
  let s := fmul d d in
  if weighted then fmul s (rw r) else s.

(* one cell of the three regions after _fill_one_by_coordinates: (variance, valid_counts, missing_counts) *)
Definition stddev_regions (size : Z) (rows : list srow) : list (F * Z * Z) :=
  let used := if ign then filter svalid rows else rows in
  let wsums := bincountF size used wsumm in
  let wcounts := bincountF size used countable in
  let wmeans := map (fun ab => fdiv (fst ab) (snd ab)) (combine wsums wcounts) in
  let varsums := bincountF size used (sqdev wmeans) in
  let Ns := bincountN size used (fun _ => true) in
  let weightsums := bincountF size used rw in
  let missing := bincountN size rows (fun r => negb (svalid r)) in
  map (fun u =>
         let N := nth (Z.to_nat u) Ns 0 in
         let vs := nthF varsums u in
         let var := if weighted
                    then fmul (fdiv vs (nthF weightsums u)) (fdiv (fZ N) (fZ (N - 1)))
                    else fdiv vs (fZ (N - 1)) in
         (var, N, nth (Z.to_nat u) missing 0))
      (cells size).

(* reduce: (value, output_is_missing) *)
Definition stddev_reduce (reg : F * Z * Z) : F * bool :=
  let '(var, vc, mcnt) := reg in
  (var, if ign then vc <? 2 else (vc <? 2) || negb (mcnt =? 0)).
Definition stddev (size : Z) (rows : list srow) : list (F * bool) :=
  map stddev_reduce (stddev_regions size rows).

(* ---------------------------------------------------------------- xfunc_quantile, unweighted *)
Fixpoint insert_q (x : Qc) (l : list Qc) : list Qc :=
  match l with
  | [] => [x]
  | y :: l' => if Qle_bool (this x) (this y) then x :: l else y :: insert_q x l'
  end.
Fixpoint isort_q (l : list Qc) : list Qc :=
  match l with [] => [] | x :: l' => insert_q x (isort_q l') end.

Definition nthQ (l : list Qc) (i : Z) : Qc := nth (Z.to_nat i) l 0%Qc.
Definition qfloor (x : Qc) : Z := Qfloor (this x).

(* numpy.quantile(method="linear") on a non-empty NaN-free sample: virtual index (n-1)p, its floor k,
   gamma = (n-1)p - k, lerp(s[k], s[min(k+1,n-1)], gamma) *)
Definition lin_quantile (xs : list Qc) (p : Qc) : Qc :=
  let s := isort_q xs in
  let n := lenZ s in
  let vi := (ofZ (n - 1) * p)%Qc in
  let k := qfloor vi in
  let g := (vi - ofZ k)%Qc in
  let a := nthQ s k in
  let b := nthQ s (Z.min (k + 1) (n - 1)) in
  (a + (b - a) * g)%Qc.

Fixpoint somes (l : list F) : list Qc :=
  match l with [] => [] | Some x :: l' => x :: somes l' | None :: l' => somes l' end.
Definition all_some (l : list F) : bool := forallb is_some l.

(* one cell: seg = arr[rowmask]; if len(seg) and not all NaN: qfunc(seg, p)
   numpy.quantile returns NaN when a NaN is present, numpy.nanquantile drops the NaNs *)
Definition quantile_cell (p : Qc) (seg : list srow) : F :=
  let a := map summ seg in
  match somes a with
  | [] => None
  | v => if ign then Some (lin_quantile v p)
         else if all_some a then Some (lin_quantile v p) else None
  end.
Definition quantile (p : Qc) (size : Z) (rows : list srow) : list F :=
  map (fun u => quantile_cell p (cell_s u rows)) (cells size).

(* ---------------------------------------------------------------- weighted_quantile_1d *)
(* ind = a.argsort(): NaN sorts last; WHICH permutation NumPy returns among tied values is not
   specified (SIMD / introsort, not stable) and the result below depends on it, so the permutation
   is a parameter of the model: [perm] lists, in sorted order, the positions in the cell's segment.
   [sort_perm_ok] is what every argsort result satisfies. *)
Definition fle (a b : F) : bool :=
  match a, b with
  | Some x, Some y => Qle_bool (this x) (this y)
  | Some _, None => true
  | None, Some _ => false
  | None, None => true
  end.
Definition apply_perm (perm : list nat) (seg : list (F * F)) : list (F * F) :=
  map (fun i => nth i seg (None, None)) perm.
Fixpoint sorted_aw (l : list (F * F)) : bool :=
  match l with
  | [] => true
  | x :: l' => match l' with [] => true | y :: _ => fle (fst x) (fst y) end && sorted_aw l'
  end.
Definition is_perm_b (perm : list nat) (n : nat) : bool :=
  Nat.eqb (length perm) n && forallb (fun i => Nat.ltb i n) perm &&
  forallb (fun i => existsb (Nat.eqb i) perm) (seq 0 n).
Definition sort_perm_ok (perm : list nat) (seg : list (F * F)) : bool :=
  is_perm_b perm (length seg) && sorted_aw (apply_perm perm seg).

Fixpoint cumsum_from (acc : Qc) (l : list Qc) : list Qc :=
  match l with [] => [] | x :: l' => (acc + x)%Qc :: cumsum_from (acc + x)%Qc l' end.
Definition cumsum (l : list Qc) : list Qc := cumsum_from 0%Qc l.
(* numpy.digitize(x, bins) for non-decreasing bins: number of bins <= x *)
Definition digitize (x : Qc) (bins : list Qc) : Z := countb (fun c => Qle_bool (this c) (this x)) bins.
Definition qmax0 (x : Qc) : Qc := if Qle_bool 0 (this x) then x else 0%Qc.
(* numpy.diff(a, append=[0]) *)
Fixpoint xdiff (a : list Qc) : list Qc :=
  match a with
  | [] => []
  | x :: a' => (match a' with [] => 0 - x | y :: _ => y - x end)%Qc :: xdiff a'
  end.

Definition wq_core (p : Qc) (a w : list Qc) : F :=
  let n := lenZ w in
  let cs := cumsum w in
  let prob := (p * nthQ cs (n - 1))%Qc in
  let right := digitize prob cs in
  let left := Z.max (right - 1) 0 in
  let frac := fdiv (Some (qmax0 (prob - nthQ cs left))) (Some (nthQ w (Z.min right (n - 1)))) in
  fadd (Some (nthQ a left)) (fmul frac (Some (nthQ (xdiff a) left))).

Definition pair_some (aw : F * F) : bool := is_some (fst aw) && is_some (snd aw).

(* seg: (a, w) of the rows of one cell, a already NaN where the row is invalid; w raw *)
Definition wq_1d (p : Qc) (perm : list nat) (seg : list (F * F)) : F :=
  let s := apply_perm perm seg in
  let s := if ign then filter pair_some s else s in
  match s with
  | [] => None
  | _ => if forallb pair_some s
         then wq_core p (somes (map fst s)) (somes (map snd s))
         else None      (* propagate: any NaN value or weight *)
  end.
Definition wq_seg (seg : list srow) : list (F * F) := map (fun r => (summ r, rw r)) seg.
Definition wquantile_cell (p : Qc) (perm : list nat) (seg : list srow) : F :=
  match seg with
  | [] => None                                   (* if len(seg) *)
  | _ => wq_1d p perm (wq_seg seg)
  end.
(* perms: the argsort result of every cell, in cell order *)
Definition wquantile (p : Qc) (size : Z) (perms : list (list nat)) (rows : list srow) : list F :=
  map (fun up => wquantile_cell p (snd up) (cell_s (fst up) rows)) (combine (cells size) perms).
Definition wq_perms_ok (size : Z) (perms : list (list nat)) (rows : list srow) : bool :=
  Nat.eqb (length perms) (Z.to_nat size) &&
  forallb (fun up => sort_perm_ok (snd up) (wq_seg (cell_s (fst up) rows))) (combine (cells size) perms).

(* ---------------------------------------------------------------- xfunc_max / xfunc_min *)
Fixpoint fold1 (f : Qc -> Qc -> Qc) (x : Qc) (l : list Qc) : Qc :=
  match l with [] => x | y :: l' => fold1 f (f x y) l' end.
Definition qcmax (x y : Qc) : Qc := if Qle_bool (this x) (this y) then y else x.
Definition qcmin (x y : Qc) : Qc := if Qle_bool (this x) (this y) then x else y.
Definition op_list (mx : bool) (l : list Qc) : F :=
  match l with [] => None | x :: l' => Some (fold1 (if mx then qcmax else qcmin) x l') end.

(* weights are never given to min/max: validity is the fact's own *)
Definition ovalid (r : srow) : bool := is_some (rx r).
Definition minmax_cell (mx : bool) (u : Z) (rows : list srow) : F :=
  if ign then
    (* values = values[validity]; coordinates = coordinates[validity]; matches = values[coordinates == i] *)
    op_list mx (somes (map rx (cell_s u (filter ovalid rows))))
  else
    (* rowmask = coordinates == i; len(matches) and all(validity[rowmask]) *)
    let seg := cell_s u rows in
    match seg with
    | [] => None
    | _ => if forallb ovalid seg then op_list mx (somes (map rx seg)) else None
    end.
Definition minmax (mx : bool) (size : Z) (rows : list srow) : list F :=
  map (fun u => minmax_cell mx u rows) (cells size).

(* ---------------------------------------------------------------- covariance / corrcoef *)
Definition mwvalid (r : mrow) : bool := negb weighted || is_some (mw r).
(* arr[~validity] = NaN, per entry *)
Definition marr (r : mrow) : list F :=
  map (fun x => if is_some x && mwvalid r then x else None) (mxs r).
(* numpy.all(validity, over the columns): complete rows *)
Definition complete (r : mrow) : bool := forallb is_some (marr r).
Definition mweight (r : mrow) : F := if weighted then mw r else Some 1%Qc.
Definition colF (i : nat) (r : mrow) : F := nth i (marr r) None.

(* numpy.cov(seg.T, aweights=w)[i, j] on doubles:
   avg = sum(w x)/sum(w); fact = sum(w) - sum(w*w)/sum(w)  (n - 1 without weights);
   c = sum(w (x_i - avg_i)(x_j - avg_j)) / fact *)
Definition npcov (seg : list mrow) (i j : nat) : F :=
  let w := map mweight seg in
  let V1 := fsum w in
  let avg k := fdiv (fsum (map (fun r => fmul (mweight r) (colF k r)) seg)) V1 in
  let fact := if weighted then fsub V1 (fdiv (fsum (map (fun x => fmul x x) w)) V1)
              else fZ (lenZ seg - 1) in
  let num := fsum (map (fun r => fmul (mweight r)
                                   (fmul (fsub (colF i r) (avg i)) (fsub (colF j r) (avg j)))) seg) in
  fdiv num fact.

Definition mused (rows : list mrow) : list mrow := if ign then filter complete rows else rows.

(* if seg.shape[0] > 1 (and more than one column): numpy.cov *)
Definition cov_cell (u : Z) (rows : list mrow) (i j : nat) : F :=
  let seg := cell_m u (mused rows) in
  if 1 <? lenZ seg then npcov seg i j else None.
Definition covariance (ncol : nat) (size : Z) (rows : list mrow) : list (list F) :=
  map (fun u => flat_map (fun i => map (fun j => cov_cell u rows i j) (seq 0 ncol)) (seq 0 ncol)) (cells size).

(* numpy.corrcoef(seg)[i, j] = c_ij / sqrt(c_ii c_jj): the model returns (c_ij, c_ii, c_jj); the entry is
   NaN when one of them is, or when a variance is 0 *)
Definition corr_cell (u : Z) (rows : list mrow) (i j : nat) : option (Qc * Qc * Qc) :=
  let seg := cell_m u (mused rows) in
  match seg with
  | [] => None                                  (* if len(seg) *)
  | _ => match npcov seg i j, npcov seg i i, npcov seg j j with
         | Some cij, Some cii, Some cjj =>
             if qc_is0 (cii * cjj)%Qc then None else Some (cij, cii, cjj)
         | _, _, _ => None
         end
  end.
Definition corrcoef (ncol : nat) (size : Z) (rows : list mrow) : list (list (option (Qc * Qc * Qc))) :=
  map (fun u => flat_map (fun i => map (fun j => corr_cell u rows i j) (seq 0 ncol)) (seq 0 ncol)) (cells size).

End Weighted.

(* ------------------------------------------------------------------ generic per-cell application *)
(* "NumPy's quantile / cov / corrcoef applied to exactly the rows of the cell": any kernel K *)
Definition per_cell {A R} (key : A -> Z) (K : list A -> R) (size : Z) (rows : list A) : list R :=
  map (fun u => K (filter (fun r => Z.eqb (key r) u) rows)) (cells size).

(* ------------------------------------------------------------------ report formats *)
(* NaN in place: a masked cell is NaN; (values, validity): (sentinel, False) *)
Definition nan_format (vm : F * bool) : F := if snd vm then None else fst vm.
Definition pair_format (s : Qc) (vm : F * bool) : F * bool :=
  if snd vm then (Some s, false) else (fst vm, true).
(* quantile / covariance / corrcoef: missings = isnan(result) *)
Definition of_nan (v : F) : F * bool := (v, negb (is_some v)).

(* (values, validity) input -> NaN-marked input *)
Fixpoint normalize (vals : list Qc) (valid : list bool) : list F :=
  match vals, valid with
  | v :: vals', b :: valid' => (if b then Some v else None) :: normalize vals' valid'
  | _, _ => []
  end.
