(* The specification side of C03-C05: the textbook per-cell ("direct group-by") definition of the
   four aggregates both cube types offer - weighted count, valid count, sum, mean - over the rows
   of each cell, with optional weights and the two missing-value policies.  DEFINITIONS ONLY.

   Conventions (DESIGN section 3):
     * values are exact rationals [Qc]; NaN is never a number.  A NaN-marked input array is a
       [list (option Qc)] (None = NaN), a (values, validity) pair is [list Qc * list bool]; the
       specification only ever looks at a value whose validity is true ([m_get]), so whatever is
       hidden under a False validity cannot matter here - for the cube MODELS that is a theorem
       ([hidden_values_irrelevant] in AggsNorm.v);
     * every row-aligned array has the cube's N rows; it is read through the total accessor [znth]
       (the code would raise on a length mismatch; the harness always passes N rows);
     * an output cell is a pair (value, missing); the three report formats are computed from it
       ([report]) the way `adjust_zeros` + `return_missing_as` do. *)
From Coq Require Import ZArith QArith Qcanon List Bool.
From Catii Require Import Cube.Dim.
Import ListNotations.
Open Scope Z_scope.

(* ---- small numeric helpers ---- *)
Definition q0 : Qc := Q2Qc 0.
Definition q1 : Qc := Q2Qc 1.
Definition qc_eqb (x y : Qc) : bool := Qeq_bool x y.
Definition qz (z : Z) : Qc := Q2Qc (inject_Z z).
Fixpoint sumQ (l : list Qc) : Qc := match l with [] => q0 | x :: l' => Qcplus x (sumQ l') end.
Fixpoint sumZ (l : list Z) : Z := match l with [] => 0 | x :: l' => x + sumZ l' end.
Definition lenZ {A : Type} (l : list A) : Z := Z.of_nat (length l).
Definition b2z (b : bool) : Z := if b then 1 else 0.
Definition countb (f : Z -> bool) (rows : list Z) : Z := sumZ (map (fun r => b2z (f r)) rows).

Definition znth {A : Type} (r : Z) (l : list A) (d : A) : A :=
  if r <? 0 then d else nth (Z.to_nat r) l d.

(* 0 .. n-1, linear time (Dim.rowrange costs O(n^2) under vm_compute: Z.of_nat of a unary number);
   equal to [rowrange n] (AggsBase.zrange_rowrange) *)
Fixpoint zseq (s : Z) (n : nat) : list Z := match n with O => [] | S n' => s :: zseq (s + 1) n' end.
Definition zrange (n : Z) : list Z := zseq 0 (Z.to_nat n).

Definition is_some {A : Type} (o : option A) : bool := match o with Some _ => true | None => false end.

(* ---- inputs ---- *)
(* an array with missingness: NaN-marked, or a (values, validity) pair *)
Inductive marr :=
| MNaN (l : list (option Qc))
| MPair (v : list Qc) (b : list bool).

(* the fact variable: none (count), shape (N,), or shape (N,K) given column by column *)
Inductive fact :=
| FNone
| FOne (a : marr)
| FCols (cs : list marr).

(* weights: None, a scalar (float / NaN, or a (value, validity) pair), an (N,) array in either form *)
Inductive weights :=
| WNone
| WScalarNaN (o : option Qc)
| WScalarPair (v : Qc) (b : bool)
| WArr (a : marr).

(* row r of an array: its validity, and its value when valid *)
Definition m_valid (a : marr) (r : Z) : bool :=
  match a with
  | MNaN l => is_some (znth r l None)
  | MPair _ b => znth r b false
  end.
Definition m_get (a : marr) (r : Z) : option Qc :=
  match a with
  | MNaN l => znth r l None
  | MPair v b => if znth r b false then Some (znth r v q0) else None
  end.

Definition w_get (w : weights) (r : Z) : option Qc :=
  match w with
  | WNone => Some q1
  | WScalarNaN o => o
  | WScalarPair v b => if b then Some v else None
  | WArr a => m_get a r
  end.

(* the columns of a fact; a count has the single "always valid, value 1" column *)
Definition ones : Z -> option Qc := fun _ => Some q1.
Definition fact_cols (f : fact) : list (Z -> option Qc) :=
  match f with
  | FNone => [ones]
  | FOne a => [m_get a]
  | FCols cs => map m_get cs
  end.

(* ---- the four aggregates of one cell ---- *)
Inductive agg := ACount | AValidCount | ASum | AMean.

Section Cell.
Variable wt : Z -> option Qc.      (* weight of a row, None = missing; 1 when unweighted *)
Variable fx : Z -> option Qc.      (* fact value of a row, None = missing; [ones] for a count *)

Definition row_valid (r : Z) : bool := is_some (wt r) && is_some (fx r).
Definition oq (o : option Qc) : Qc := match o with Some x => x | None => q0 end.

Definition valid_rows (rows : list Z) : list Z := filter row_valid rows.
(* sum of the valid weights / of weight * value over the valid rows *)
Definition den (rows : list Z) : Qc := sumQ (map (fun r => oq (wt r)) (valid_rows rows)).
Definition num (rows : list Z) : Qc := sumQ (map (fun r => Qcmult (oq (fx r)) (oq (wt r))) (valid_rows rows)).

Definition cell_value (A : agg) (rows : list Z) : Qc :=
  match A with
  | ACount | AValidCount => den rows
  | ASum => num rows
  | AMean => Qcdiv (num rows) (den rows)
  end.

(* missing: no valid row at all (no rows, or all missing) - or, when missing values propagate, any
   missing row - or, for a mean, valid weights that sum to zero *)
Definition cell_missing (A : agg) (ign : bool) (rows : list Z) : bool :=
  (lenZ (valid_rows rows) =? 0)
  || (negb ign && negb (lenZ (valid_rows rows) =? lenZ rows))
  || (match A with AMean => qc_eqb (den rows) q0 | _ => false end).

Definition direct_cell (A : agg) (ign : bool) (rows : list Z) : Qc * bool :=
  (cell_value A rows, cell_missing A ign rows).

(* the same rule as the property text states it (C04) *)
Definition row_missing (r : Z) : Prop := row_valid r = false.
Definition missing_rule (A : agg) (ign : bool) (rows : list Z) : Prop :=
  rows = []
  \/ (if ign then (forall r, In r rows -> row_missing r) else (exists r, In r rows /\ row_missing r))
  \/ (A = AMean /\ den rows = q0).
End Cell.

(* ---- cells ---- *)
(* all cells of a shape, row-major (first axis outermost): the order of numpy's flat iteration *)
Fixpoint all_cells (shape : list Z) : list (list Z) :=
  match shape with
  | [] => [[]]
  | e :: shape' => flat_map (fun c => map (cons c) (all_cells shape')) (rowrange e)
  end.

(* the rows of a cell, for dimensions given as row -> category functions *)
Fixpoint row_in_cell_f (cats : list (Z -> Z)) (cell : list Z) (r : Z) : bool :=
  match cats, cell with
  | [], [] => true
  | f :: cats', c :: cell' => Z.eqb (f r) c && row_in_cell_f cats' cell' r
  | _, _ => false
  end.
Definition cell_rows_f (N : Z) (cats : list (Z -> Z)) (cell : list Z) : list Z :=
  filter (row_in_cell_f cats cell) (rowrange N).

(* the whole direct group-by: cells (row-major) x fact columns of (value, missing) *)
Definition direct (A : agg) (N : Z) (cats : list (Z -> Z)) (shape : list Z)
           (f : fact) (w : weights) (ign : bool) : list (list (Qc * bool)) :=
  map (fun cell => map (fun fx => direct_cell (w_get w) fx A ign (cell_rows_f N cats cell)) (fact_cols f))
      (all_cells shape).

(* dense arrays (array cube) as category functions *)
Definition arr_cat (a : list Z) : Z -> Z := fun r => znth r a (-1).

(* ---- the three report formats ---- *)
Inductive fmt := FmtNaN | FmtPair (sentinel : Qc) | FmtPlain (v : Qc).
Inductive rcell :=
| RNaN                                   (* NaN in place *)
| RVal (q : Qc)                          (* a number in a single array *)
| RPair (q : Qc) (valid : bool).         (* values array, validity array *)

Definition report (f : fmt) (vm : Qc * bool) : rcell :=
  match f with
  | FmtNaN => if snd vm then RNaN else RVal (fst vm)
  | FmtPair s => RPair (if snd vm then s else fst vm) (negb (snd vm))
  | FmtPlain v => RVal (if snd vm then v else fst vm)
  end.
Definition report_all (f : fmt) (out : list (list (Qc * bool))) : list (list rcell) :=
  map (map (report f)) out.

(* what a reported cell says: is it missing, and its value otherwise.  A plain replacement value is
   indistinguishable from a number, so that format only has the second reading. *)
Definition rcell_missing (c : rcell) : bool :=
  match c with RNaN => true | RVal _ => false | RPair _ v => negb v end.
Definition rcell_value (c : rcell) : Qc :=
  match c with RNaN => q0 | RVal q => q | RPair q _ => q end.
