(* C18 - lemma library for the proofs about Cube/XStats.v: Qc <-> Q transfer, None-absorbing sums,
   cells / per-cell selection, the missing rule as counts. *)
From Coq Require Import ZArith QArith Qcanon Qround List Bool Lia Lqa ZifyBool.
From Catii Require Import Cube.XStats Cube.XStatsSpec.
Import ListNotations.
Open Scope Z_scope.

(* ------------------------------------------------------------------ Qc -> Q *)
Lemma Qc_this_plus (a b : Qc) : (this (a + b)%Qc == this a + this b)%Q.
Proof. unfold Qcplus, Q2Qc. cbn [this]. apply Qred_correct. Qed.
Lemma Qc_this_mult (a b : Qc) : (this (a * b)%Qc == this a * this b)%Q.
Proof. unfold Qcmult, Q2Qc. cbn [this]. apply Qred_correct. Qed.
Lemma Qc_this_opp (a : Qc) : (this (- a)%Qc == - this a)%Q.
Proof. unfold Qcopp, Q2Qc. cbn [this]. apply Qred_correct. Qed.
Lemma Qc_this_minus (a b : Qc) : (this (a - b)%Qc == this a - this b)%Q.
Proof. unfold Qcminus. rewrite Qc_this_plus, Qc_this_opp. reflexivity. Qed.
Lemma Qc_this_ofZ (z : Z) : (this (ofZ z) == inject_Z z)%Q.
Proof. unfold ofZ, Q2Qc. cbn [this]. apply Qred_correct. Qed.

(* turn an order goal / hypotheses over Qc into one over Q for lra / nra *)
Ltac qcq :=
  unfold Qcle, Qclt in *;
  repeat first [ rewrite Qc_this_plus in * | rewrite Qc_this_mult in * | rewrite Qc_this_minus in *
               | rewrite Qc_this_opp in * | rewrite Qc_this_ofZ in * ];
  cbn [this Q2Qc] in *; rewrite ?Qred_correct in *.

Lemma Qc_eq_this (a b : Qc) : (this a == this b)%Q -> a = b.
Proof. apply Qc_is_canon. Qed.

Lemma Qle_bool_Qcle (x y : Qc) : Qle_bool (this x) (this y) = true <-> (x <= y)%Qc.
Proof. unfold Qcle. apply Qle_bool_iff. Qed.
Lemma Qle_bool_false_Qclt (x y : Qc) : Qle_bool (this x) (this y) = false -> (y < x)%Qc.
Proof.
  intro H. apply Qcnot_le_lt. intro L. apply Qle_bool_Qcle in L. congruence.
Qed.

Lemma qc_is0_true (y : Qc) : qc_is0 y = true <-> y = 0%Qc.
Proof.
  unfold qc_is0. rewrite Qeq_bool_iff. split.
  - intro H. apply Qc_is_canon. exact H.
  - intros ->. reflexivity.
Qed.
Lemma qc_is0_false (y : Qc) : qc_is0 y = false <-> y <> 0%Qc.
Proof.
  split.
  - intros H E. apply qc_is0_true in E. congruence.
  - intro H. destruct (qc_is0 y) eqn:E; [ apply qc_is0_true in E; contradiction | reflexivity ].
Qed.

Lemma fdiv_some (x y : Qc) : y <> 0%Qc -> fdiv (Some x) (Some y) = Some (x / y)%Qc.
Proof. intro H. unfold fdiv. apply qc_is0_false in H. rewrite H. reflexivity. Qed.
Lemma fdiv_zero (x : F) (y : Qc) : y = 0%Qc -> fdiv x (Some y) = None.
Proof. intro H. unfold fdiv. destruct x; [ | reflexivity ]. apply qc_is0_true in H. rewrite H. reflexivity. Qed.

(* ------------------------------------------------------------------ ofZ *)
Lemma ofZ_0 : ofZ 0 = 0%Qc.
Proof. apply Qc_eq_this. rewrite Qc_this_ofZ. reflexivity. Qed.
Lemma ofZ_1 : ofZ 1 = 1%Qc.
Proof. apply Qc_eq_this. rewrite Qc_this_ofZ. reflexivity. Qed.
Lemma ofZ_plus (a b : Z) : ofZ (a + b) = (ofZ a + ofZ b)%Qc.
Proof. apply Qc_eq_this. rewrite Qc_this_plus, !Qc_this_ofZ. rewrite inject_Z_plus. reflexivity. Qed.
Lemma ofZ_minus (a b : Z) : ofZ (a - b) = (ofZ a - ofZ b)%Qc.
Proof.
  apply Qc_eq_this. rewrite Qc_this_minus, !Qc_this_ofZ. unfold Z.sub.
  rewrite inject_Z_plus, inject_Z_opp. reflexivity.
Qed.
Lemma ofZ_le (a b : Z) : (ofZ a <= ofZ b)%Qc <-> a <= b.
Proof. unfold Qcle. rewrite !Qc_this_ofZ. rewrite <- Zle_Qle. tauto. Qed.
Lemma ofZ_lt (a b : Z) : (ofZ a < ofZ b)%Qc <-> a < b.
Proof. unfold Qclt. rewrite !Qc_this_ofZ. rewrite <- Zlt_Qlt. tauto. Qed.
Lemma ofZ_inj (a b : Z) : ofZ a = ofZ b -> a = b.
Proof. intro H. apply Z.le_antisymm; apply ofZ_le; rewrite H; apply Qcle_refl. Qed.
Lemma ofZ_nonzero (a : Z) : a <> 0 -> ofZ a <> 0%Qc.
Proof. intros H E. rewrite <- ofZ_0 in E. apply ofZ_inj in E. contradiction. Qed.

(* ------------------------------------------------------------------ lists *)
Lemma lenZ_nil {A} : lenZ (@nil A) = 0.
Proof. reflexivity. Qed.
Lemma lenZ_cons {A} (x : A) l : lenZ (x :: l) = lenZ l + 1.
Proof. unfold lenZ. cbn [length]. lia. Qed.
Lemma lenZ_nonneg {A} (l : list A) : 0 <= lenZ l.
Proof. unfold lenZ. lia. Qed.
Lemma lenZ_map {A B} (f : A -> B) l : lenZ (map f l) = lenZ l.
Proof. unfold lenZ. rewrite map_length. reflexivity. Qed.
Lemma lenZ_0_nil {A} (l : list A) : lenZ l = 0 -> l = [].
Proof. destruct l; [ reflexivity | rewrite lenZ_cons; pose proof (lenZ_nonneg l); lia ]. Qed.

Lemma filter_comm {A} (f g : A -> bool) l : filter f (filter g l) = filter g (filter f l).
Proof.
  induction l as [ | x l IH]; [ reflexivity | ].
  cbn [filter]. destruct (g x) eqn:G, (f x) eqn:Fx; cbn [filter]; rewrite ?G, ?Fx, IH; reflexivity.
Qed.
Lemma filter_true {A} (l : list A) : filter (fun _ => true) l = l.
Proof. induction l as [ | x l IH]; [ reflexivity | cbn [filter]; rewrite IH; reflexivity ]. Qed.
Lemma filter_split_len {A} (f : A -> bool) l :
  lenZ (filter f l) + lenZ (filter (fun x => negb (f x)) l) = lenZ l.
Proof.
  induction l as [ | x l IH]; [ reflexivity | ].
  cbn [filter]. destruct (f x); cbn [negb]; rewrite !lenZ_cons; lia.
Qed.
Lemma filter_all {A} (f : A -> bool) l : lenZ (filter (fun x => negb (f x)) l) = 0 -> filter f l = l.
Proof.
  induction l as [ | x l IH]; [ reflexivity | ].
  cbn [filter]. destruct (f x); cbn [negb].
  - intro H. rewrite IH by exact H. reflexivity.
  - rewrite lenZ_cons. pose proof (lenZ_nonneg (filter (fun x0 => negb (f x0)) l)). lia.
Qed.
Lemma filter_all_forallb {A} (f : A -> bool) l : forallb f l = true -> filter f l = l.
Proof.
  induction l as [ | x l IH]; [ reflexivity | ].
  cbn [forallb filter]. intro H. apply andb_prop in H. destruct H as [H1 H2].
  rewrite H1, IH by exact H2. reflexivity.
Qed.
Lemma filter_In_true {A} (f : A -> bool) l x : In x (filter f l) -> f x = true.
Proof. intro H. apply filter_In in H. tauto. Qed.
Lemma forallb_filter_id {A} (f : A -> bool) l : forallb f (filter f l) = true.
Proof. apply forallb_forall. intros x H. eapply filter_In_true. exact H. Qed.

Lemma combine_map_same {A B C} (f : A -> B) (g : A -> C) l :
  combine (map f l) (map g l) = map (fun x => (f x, g x)) l.
Proof. induction l as [ | x l IH]; [ reflexivity | cbn [map combine]; rewrite IH; reflexivity ]. Qed.

Lemma nth_map_in {A B} (f : A -> B) l n d d' : (n < length l)%nat -> nth n (map f l) d = f (nth n l d').
Proof.
  revert n. induction l as [ | x l IH]; intros [ | n] H; cbn [length map nth] in *; try lia; [ reflexivity | ].
  apply IH. lia.
Qed.

(* ------------------------------------------------------------------ sums *)
Lemma fsum_some {A} (f : A -> F) (g : A -> Qc) l :
  (forall r, In r l -> f r = Some (g r)) -> fsum (map f l) = Some (sumQc (map g l)).
Proof.
  induction l as [ | x l IH]; intro H; [ reflexivity | ].
  cbn [map fsum sumQc]. rewrite IH by (intros r Hr; apply H; right; exact Hr).
  rewrite (H x) by (left; reflexivity). reflexivity.
Qed.
Lemma fsum_none {A} (f : A -> F) l r : In r l -> f r = None -> fsum (map f l) = None.
Proof.
  induction l as [ | x l IH]; intros Hin Hn; [ contradiction | ].
  cbn [map fsum]. destruct Hin as [-> | Hin].
  - rewrite Hn. reflexivity.
  - rewrite IH by assumption. destruct (f x); reflexivity.
Qed.
Lemma sumQc_ext {A} (f g : A -> Qc) l :
  (forall r, In r l -> f r = g r) -> sumQc (map f l) = sumQc (map g l).
Proof.
  induction l as [ | x l IH]; intro H; [ reflexivity | ].
  cbn [map sumQc]. rewrite IH by (intros r Hr; apply H; right; exact Hr).
  rewrite (H x) by (left; reflexivity). reflexivity.
Qed.
Lemma sumQc_ones {A} (l : list A) : sumQc (map (fun _ => 1%Qc) l) = ofZ (lenZ l).
Proof.
  induction l as [ | x l IH]; [ symmetry; apply ofZ_0 | ].
  cbn [map sumQc]. rewrite IH, lenZ_cons, ofZ_plus, ofZ_1. ring.
Qed.
Lemma sumQc_scale {A} (c : Qc) (f : A -> Qc) l : sumQc (map (fun r => c * f r)%Qc l) = (c * sumQc (map f l))%Qc.
Proof.
  induction l as [ | x l IH]; [ cbn [map sumQc]; ring | ].
  cbn [map sumQc]. rewrite IH. ring.
Qed.

(* ------------------------------------------------------------------ cells *)
Lemma cells_In (size u : Z) : In u (cells size) <-> 0 <= u < size.
Proof.
  unfold cells. rewrite in_map_iff. split.
  - intros [n [<- H]]. apply in_seq in H. lia.
  - intro H. exists (Z.to_nat u). split; [ lia | apply in_seq; lia ].
Qed.
Lemma cells_length (size : Z) : length (cells size) = Z.to_nat size.
Proof. unfold cells. rewrite map_length, seq_length. reflexivity. Qed.
Lemma nth_map_cells {B} (f : Z -> B) (size u : Z) (d : B) :
  0 <= u < size -> nth (Z.to_nat u) (map f (cells size)) d = f u.
Proof.
  intro H. unfold cells. rewrite map_map.
  rewrite (nth_indep _ d (f (Z.of_nat 0))) by (rewrite map_length, seq_length; lia).
  rewrite (map_nth (fun n => f (Z.of_nat n)) (seq 0 (Z.to_nat size)) 0%nat).
  rewrite seq_nth by lia. f_equal. lia.
Qed.
Lemma map_cells_ext {B} (f g : Z -> B) (size : Z) :
  (forall u, 0 <= u < size -> f u = g u) -> map f (cells size) = map g (cells size).
Proof. intro H. apply map_ext_in. intros u Hu. apply H. apply cells_In. exact Hu. Qed.

Lemma per_cell_nth {A R} (key : A -> Z) (K : list A -> R) size rows u d :
  0 <= u < size ->
  nth (Z.to_nat u) (per_cell key K size rows) d = K (filter (fun r => Z.eqb (key r) u) rows).
Proof. intro H. unfold per_cell. rewrite nth_map_cells by exact H. reflexivity. Qed.
Lemma per_cell_length {A R} (key : A -> Z) (K : list A -> R) size rows :
  length (per_cell key K size rows) = Z.to_nat size.
Proof. unfold per_cell. rewrite map_length. apply cells_length. Qed.

Lemma cell_s_filter (f : srow -> bool) u rows : cell_s u (filter f rows) = filter f (cell_s u rows).
Proof. unfold cell_s. apply filter_comm. Qed.
Lemma cell_m_filter (f : mrow -> bool) u rows : cell_m u (filter f rows) = filter f (cell_m u rows).
Proof. unfold cell_m. apply filter_comm. Qed.
Lemma cell_s_rc u rows r : In r (cell_s u rows) -> rc r = u.
Proof. intro H. apply filter_In_true in H. apply Z.eqb_eq in H. exact H. Qed.

(* ------------------------------------------------------------------ the missing rule as counts *)
Lemma existsb_id_map {A} (f : A -> bool) l : existsb (fun b => b) (map f l) = existsb f l.
Proof. induction l as [ | x l IH]; [ reflexivity | cbn [map existsb]; rewrite IH; reflexivity ]. Qed.
Lemma forallb_id_map {A} (f : A -> bool) l : forallb (fun b => b) (map f l) = forallb f l.
Proof. induction l as [ | x l IH]; [ reflexivity | cbn [map forallb]; rewrite IH; reflexivity ]. Qed.
Lemma existsb_filter_len {A} (f : A -> bool) l : negb (existsb f l) = (lenZ (filter f l) =? 0).
Proof.
  induction l as [ | x l IH]; [ reflexivity | ].
  cbn [existsb filter]. destruct (f x); cbn [orb negb].
  - rewrite lenZ_cons. pose proof (lenZ_nonneg (filter f l)). symmetry. apply Z.eqb_neq. lia.
  - exact IH.
Qed.
Lemma forallb_filter_len {A} (f : A -> bool) l : forallb f l = (lenZ (filter (fun x => negb (f x)) l) =? 0).
Proof.
  induction l as [ | x l IH]; [ reflexivity | ].
  cbn [forallb filter]. destruct (f x); cbn [andb negb].
  - exact IH.
  - rewrite lenZ_cons. pose proof (lenZ_nonneg (filter (fun x0 => negb (f x0)) l)). symmetry. apply Z.eqb_neq. lia.
Qed.
Lemma mr_ign {A} (f : A -> bool) seg : missing_rule true (map f seg) = (lenZ (filter f seg) =? 0).
Proof.
  destruct seg as [ | x seg]; [ reflexivity | ].
  unfold missing_rule. cbn [map]. rewrite <- (map_cons f x seg), existsb_id_map. apply existsb_filter_len.
Qed.
Lemma mr_prop {A} (f : A -> bool) seg :
  missing_rule false (map f seg) = (lenZ seg =? 0) || negb (lenZ (filter (fun x => negb (f x)) seg) =? 0).
Proof.
  destruct seg as [ | x seg]; [ reflexivity | ].
  unfold missing_rule. cbn [map]. rewrite <- (map_cons f x seg), forallb_id_map, forallb_filter_len.
  rewrite lenZ_cons. pose proof (lenZ_nonneg seg).
  replace (lenZ seg + 1 =? 0) with false by (symmetry; apply Z.eqb_neq; lia). reflexivity.
Qed.

(* ------------------------------------------------------------------ somes *)
Lemma somes_map_some {A} (f : A -> F) (g : A -> Qc) l :
  (forall r, In r l -> f r = Some (g r)) -> somes (map f l) = map g l.
Proof.
  induction l as [ | x l IH]; intro H; [ reflexivity | ].
  cbn [map somes]. rewrite (H x) by (left; reflexivity).
  rewrite IH by (intros r Hr; apply H; right; exact Hr). reflexivity.
Qed.
Lemma somes_filter {A} (f : A -> F) l : somes (map f l) = somes (map f (filter (fun r => is_some (f r)) l)).
Proof.
  induction l as [ | x l IH]; [ reflexivity | ].
  cbn [map somes filter]. destruct (f x) eqn:E; cbn [is_some map somes]; rewrite ?E, IH; reflexivity.
Qed.
Lemma In_somes (l : list F) x : In x (somes l) <-> In (Some x) l.
Proof.
  induction l as [ | y l IH]; [ tauto | ].
  cbn [somes]. destruct y as [y | ]; cbn [In]; rewrite IH; split.
  - intros [-> | H]; [ left; reflexivity | right; exact H ].
  - intros [E | H]; [ left; congruence | right; exact H ].
  - intro H; right; exact H.
  - intros [E | H]; [ discriminate | exact H ].
Qed.
