(* The index-cube aggregates as the code computes them: ffunc_count / ffunc_valid_count / ffunc_sum /
   ffunc_mean of src/catii/ffuncs.py, driven by ccube.calculate (ccubes.py:269-333) over one-axis
   dimensions.  DEFINITIONS ONLY.

     as_separate_validity (ffuncs.py:60-78)  [m_val] / [m_valid] / [norm_w]: a NaN-marked array
          becomes (values, ~isnan(values)); the NaN itself is not a number in the model: the
          stand-in [h] is a parameter of every model and the theorems quantify over it;
     __init__ of the four classes            [w0], [validity], [summable], [countable_vc],
          [countable_mean]: multiply by the weights FIRST, then zero what is not valid
          (summables[~validity] = 0), exactly in that order;
     get_initial_regions                     the corner (grand-total) value of each region, written
          the way the code obtains it: N, weights.sum(), weights * N, numpy.sum(validity),
          len(validity) - vcount, total - vcount, numpy.sum(~validity) ...;
     fill_func                               the value written for one walked coordinate from its
          row ids: sums over the rows, `len(x_rowids) - vcount`, the scalar-weight branch;
     reduce                                  every region is differenced separately
          (`_compute_common_cells_from_marginal_diffs` = Region.adiff_all), the margins are cut,
          output_is_missing = (valid == 0) | (missing != 0), resp. valid == 0 when missing values
          are ignored (then the third region does not exist); the mean divides sums by the
          *weighted* valid counts after adjust_zeros(valid_counts, new=0);
     adjust_zeros + return_missing_as        [Direct.report]; valid_count with a plain 0 takes the
          documented shortcut: one region, no missing marks ([ff_valid_count_plain0]).

   Regions are Region.aregion over Qc (sums, weighted counts) and Z (valid / missing counters).
   Several fact columns: NumPy carries the trailing axis through every sum (axis=0), i.e. one
   independent set of regions per column - the model maps the column model over the columns.
   Not modelled: the dtype of a region (int or float: the values are the same rationals), isclose
   tolerances (exact zero tests: DESIGN section 3 excludes weights whose valid sum is non-zero but
   below 1e-8), tracing, the thread pool (C16), extra axes of a dimension (C13). *)
From Coq Require Import ZArith QArith Qcanon List Bool.
From Catii Require Import Base.Cases Base.Sorted Cube.Dim Cube.Walk Cube.Diff Cube.Region Cube.Count Cube.Direct.
Import ListNotations.
Open Scope Z_scope.

(* ---- as_separate_validity and the __init__ normalisations (shared verbatim by xfuncs.py) ---- *)
Section Norm.
Variable h : Qc.        (* stand-in for the value of an element that is NaN *)

Definition m_val (a : marr) (r : Z) : Qc :=
  match a with
  | MNaN l => match znth r l None with Some x => x | None => h end
  | MPair v _ => znth r v q0
  end.

(* weights after as_separate_validity: None, 0-d (value, validity), or row-aligned arrays *)
Inductive nweights :=
| NWNone
| NWScalar (v : Qc) (b : bool)
| NWArr (v : Z -> Qc) (b : Z -> bool).

Definition norm_w (w : weights) : nweights :=
  match w with
  | WNone => NWNone
  | WScalarNaN o => NWScalar (match o with Some x => x | None => h end) (is_some o)
  | WScalarPair v b => NWScalar v b
  | WArr a => NWArr (m_val a) (m_valid a)
  end.

Definition nw_valid (w : nweights) (r : Z) : bool :=
  match w with NWNone => true | NWScalar _ b => b | NWArr _ b => b r end.
Definition nw_val (w : nweights) (r : Z) : Qc :=
  match w with NWNone => q1 | NWScalar v _ => v | NWArr v _ => v r end.

Definition b2q (b : bool) : Qc := if b then q1 else q0.

Section Column.
Variable x : marr.          (* one fact column *)
Variable w : nweights.

(* validity = (validity.T & weights_validity).T *)
Definition validity (r : Z) : bool :=
  match w with NWNone => m_valid x r | _ => m_valid x r && nw_valid w r end.
(* summables = (summables.T * weights).T ; summables[~validity] = 0 *)
Definition summable (r : Z) : Qc :=
  let s := match w with NWNone => m_val x r | _ => Qcmult (m_val x r) (nw_val w r) end in
  if validity r then s else q0.
(* ffunc_valid_count: countables = validity.copy() | (validity.T * weights).T ; countables[~validity] = 0 *)
Definition countable_vc (r : Z) : Qc :=
  let c := match w with NWNone => b2q (validity r) | _ => Qcmult (b2q (validity r)) (nw_val w r) end in
  if validity r then c else q0.
(* ffunc_mean: countables = validity.astype(int) | (validity.T * weights).T ; countables[invalid] = 0 *)
Definition countable_mean (r : Z) : Qc := countable_vc r.
End Column.
End Norm.

(* output_is_missing *)
Definition out_missing (ign : bool) (valid_is_zero : bool) (missing_count : Z) : bool :=
  if ign then valid_is_zero else valid_is_zero || negb (missing_count =? 0).

(* adjust_zeros(arr, new=0): isclose(arr, 0) -> 0 *)
Definition adjust0 (x : Qc) : Qc := if qc_eqb x q0 then q0 else x.

Section CCube.
Variable N : Z.
Variable dims : list dim.
Variable shape : list Z.          (* interacting_shape *)

(* get_initial_regions + walk/fill + marginal differencing of ONE region *)
Definition qreg (f : list Z -> Qc) (corner : Qc) : aregion Qc :=
  adiff_all Qc Qcplus Qcminus q0 shape (map dcommon dims) (length dims)
            (fill_with Qc f shape (walk dims) (init_region Qc q0 shape corner)).
Definition zreg (f : list Z -> Z) (corner : Z) : aregion Z :=
  adiff_all Z Z.add Z.sub 0 shape (map dcommon dims) (length dims)
            (fill_with Z f shape (walk dims) (init_region Z 0 shape corner)).

(* ---- ffunc_count (ffuncs.py:144-330) ---- *)
Definition ff_count_cell (w : nweights) (ign : bool) (cell : list Z) : Qc * bool :=
  match w with
  | NWNone =>
      (* one region of row counts; missings = isclose(counts, 0) *)
      let vm := count_cube N dims shape cell in (qz (fst vm), snd vm)
  | NWScalar v b =>
      let w0 := if b then v else q0 in                                       (* weights[~validity] = 0 *)
      let counts := qreg (fun rows => Qcmult w0 (qz (lenZ rows))) (Qcmult w0 (qz N)) in
      let vcount := if b then N else 0 in                                    (* vcount = N if validity else 0 *)
      let valid := zreg (fun rows => if b then lenZ rows else 0) vcount in
      let miss := zreg (fun rows => if b then 0 else lenZ rows) (N - vcount) in   (* total - vcount, total = N *)
      (counts cell, out_missing ign (valid cell =? 0) (miss cell))
  | NWArr v b =>
      let w0 := fun r => if b r then v r else q0 in
      let counts := qreg (fun rows => sumQ (map w0 rows)) (sumQ (map w0 (rowrange N))) in
      let vcount := countb b (rowrange N) in                                 (* numpy.sum(validity) *)
      let valid := zreg (countb b) vcount in
      let miss := zreg (fun rows => lenZ rows - countb b rows) (N - vcount) in    (* len(validity) - vcount *)
      (counts cell, out_missing ign (valid cell =? 0) (miss cell))
  end.

Section Col.
Variable h : Qc.
Variable x : marr.
Variable w : nweights.
Let vld := validity x w.

(* the valid / missing counters shared by valid_count and sum *)
Definition ff_valid_reg : aregion Z := zreg (countb vld) (countb vld (rowrange N)).
Definition ff_missing_reg : aregion Z :=
  zreg (fun rows => lenZ rows - countb vld rows) (N - countb vld (rowrange N)).

(* ---- ffunc_sum (ffuncs.py:491-630) ---- *)
Definition ff_sum_reg : aregion Qc :=
  qreg (fun rows => sumQ (map (summable h x w) rows)) (sumQ (map (summable h x w) (rowrange N))).
Definition ff_sum_cell (ign : bool) (cell : list Z) : Qc * bool :=
  (ff_sum_reg cell, out_missing ign (ff_valid_reg cell =? 0) (ff_missing_reg cell)).

(* ---- ffunc_valid_count (ffuncs.py:333-488) ---- *)
Definition ff_vc_reg : aregion Qc :=
  qreg (fun rows => sumQ (map (countable_vc x w) rows)) (sumQ (map (countable_vc x w) (rowrange N))).
Definition ff_valid_count_cell (ign : bool) (cell : list Z) : Qc * bool :=
  (ff_vc_reg cell, out_missing ign (ff_valid_reg cell =? 0) (ff_missing_reg cell)).
(* return_missing_as == 0: a single region, adjust_zeros(counts, 0), no missing marks *)
Definition ff_valid_count_plain0_cell (cell : list Z) : Qc := adjust0 (ff_vc_reg cell).

(* ---- ffunc_mean (ffuncs.py:633-783) ---- *)
Definition ff_wvalid_reg : aregion Qc :=      (* the *weighted* valid counts *)
  qreg (fun rows => sumQ (map (countable_mean x w) rows)) (sumQ (map (countable_mean x w) (rowrange N))).
Definition ff_mean_missing_reg : aregion Z :=
  (* fill: len(x_rowids) - numpy.sum(validity[x_rowids]) ; corner: numpy.sum(~validity) *)
  zreg (fun rows => lenZ rows - countb vld rows) (countb (fun r => negb (vld r)) (rowrange N)).
Definition ff_mean_cell (ign : bool) (cell : list Z) : Qc * bool :=
  let vc := adjust0 (ff_wvalid_reg cell) in
  (Qcdiv (ff_sum_reg cell) vc, out_missing ign (qc_eqb vc q0) (ff_mean_missing_reg cell)).
End Col.

(* the columns of the fact variable as the aggregate sees them *)
Definition fact_marrs (f : fact) : list marr :=
  match f with FNone => [] | FOne a => [a] | FCols cs => cs end.

(* ccube.count / valid_count / sum / mean: cells (row-major) x columns of (value, missing) *)
Definition ccube_agg (A : agg) (h : Qc) (f : fact) (w : weights) (ign : bool) : list (list (Qc * bool)) :=
  let nw := norm_w h w in
  map (fun cell =>
         match A with
         | ACount => [ff_count_cell nw ign cell]
         | AValidCount => map (fun x => ff_valid_count_cell x nw ign cell) (fact_marrs f)
         | ASum => map (fun x => ff_sum_cell h x nw ign cell) (fact_marrs f)
         | AMean => map (fun x => ff_mean_cell h x nw ign cell) (fact_marrs f)
         end) (all_cells shape).

(* valid_count(..., return_missing_as=0) *)
Definition ccube_valid_count_plain0 (h : Qc) (f : fact) (w : weights) : list (list Qc) :=
  let nw := norm_w h w in
  map (fun cell => map (fun x => ff_valid_count_plain0_cell x nw cell) (fact_marrs f)) (all_cells shape).

End CCube.

(* what a call returns under a report format *)
Definition is_plain0 (fm : fmt) : bool := match fm with FmtPlain v => qc_eqb v q0 | _ => false end.
Definition ccube_report (A : agg) (N : Z) (dims : list dim) (shape : list Z) (h : Qc)
           (f : fact) (w : weights) (ign : bool) (fm : fmt) : list (list rcell) :=
  match A with
  | AValidCount =>
      if is_plain0 fm then map (map RVal) (ccube_valid_count_plain0 N dims shape h f w)
      else report_all fm (ccube_agg N dims shape A h f w ign)
  | _ => report_all fm (ccube_agg N dims shape A h f w ign)
  end.
