(* C18 - minmax_spec: the per-cell reduction guarded by validity returns the largest / smallest valid
   value of the cell's rows and is missing exactly by the rule of C04. *)
From Coq Require Import ZArith QArith Qcanon List Bool Lia ZifyBool.
From Catii Require Import Cube.XStats Cube.XStatsSpec Cube.XStatsCell Cube.XStatsBase Cube.XStatsGroup.
Import ListNotations.
Open Scope Z_scope.

Lemma qcmax_spec x y : (x <= qcmax x y)%Qc /\ (y <= qcmax x y)%Qc /\ (qcmax x y = x \/ qcmax x y = y).
Proof.
  unfold qcmax. destruct (Qle_bool (this x) (this y)) eqn:E.
  - apply Qle_bool_Qcle in E. split; [ exact E | ]. split; [ apply Qcle_refl | right; reflexivity ].
  - apply Qle_bool_false_Qclt in E. split; [ apply Qcle_refl | ]. split; [ apply Qclt_le_weak; exact E | left; reflexivity ].
Qed.
Lemma qcmin_spec x y : (qcmin x y <= x)%Qc /\ (qcmin x y <= y)%Qc /\ (qcmin x y = x \/ qcmin x y = y).
Proof.
  unfold qcmin. destruct (Qle_bool (this x) (this y)) eqn:E.
  - apply Qle_bool_Qcle in E. split; [ apply Qcle_refl | ]. split; [ exact E | left; reflexivity ].
  - apply Qle_bool_false_Qclt in E. split; [ apply Qclt_le_weak; exact E | ]. split; [ apply Qcle_refl | right; reflexivity ].
Qed.

Lemma fold1_max x l : is_max (fold1 qcmax x l) (x :: l).
Proof.
  revert x. induction l as [ | y l IH]; intro x.
  - cbn [fold1]. split; [ left; reflexivity | constructor; [ apply Qcle_refl | constructor ] ].
  - cbn [fold1]. destruct (IH (qcmax x y)) as [HI HF]. destruct (qcmax_spec x y) as [Lx [Ly E]].
    inversion HF as [ | ? ? Hm HF' ]; subst. split.
    + destruct HI as [HI | HI].
      * rewrite <- HI. destruct E as [-> | ->]; [ left; reflexivity | right; left; reflexivity ].
      * right; right; exact HI.
    + constructor; [ eapply Qcle_trans; eassumption | ].
      constructor; [ eapply Qcle_trans; eassumption | exact HF' ].
Qed.
Lemma fold1_min x l : is_min (fold1 qcmin x l) (x :: l).
Proof.
  revert x. induction l as [ | y l IH]; intro x.
  - cbn [fold1]. split; [ left; reflexivity | constructor; [ apply Qcle_refl | constructor ] ].
  - cbn [fold1]. destruct (IH (qcmin x y)) as [HI HF]. destruct (qcmin_spec x y) as [Lx [Ly E]].
    inversion HF as [ | ? ? Hm HF' ]; subst. split.
    + destruct HI as [HI | HI].
      * rewrite <- HI. destruct E as [-> | ->]; [ left; reflexivity | right; left; reflexivity ].
      * right; right; exact HI.
    + constructor; [ eapply Qcle_trans; eassumption | ].
      constructor; [ eapply Qcle_trans; eassumption | exact HF' ].
Qed.

Lemma op_list_spec mx l m : op_list mx l = Some m -> if mx then is_max m l else is_min m l.
Proof.
  destruct l as [ | x l]; [ discriminate | ]. cbn [op_list]. intro H. inversion H; subst.
  destruct mx; [ apply fold1_max | apply fold1_min ].
Qed.
Lemma op_list_none mx l : op_list mx l = None <-> l = [].
Proof. destruct l; cbn [op_list]; split; intro H; try reflexivity; discriminate. Qed.

Lemma somes_length {A} (f : A -> F) l : lenZ (somes (map f l)) = lenZ (filter (fun r => is_some (f r)) l).
Proof.
  induction l as [ | x l IH]; [ reflexivity | ].
  cbn [map somes filter]. destruct (f x); cbn [is_some]; rewrite ?lenZ_cons, IH; reflexivity.
Qed.
Lemma somes_length_rx seg : lenZ (somes (map rx seg)) = lenZ (filter ovalid seg).
Proof. exact (somes_length rx seg). Qed.
Lemma somes_rx_valid seg : somes (map rx (filter ovalid seg)) = somes (map rx seg).
Proof. symmetry. apply (somes_filter rx seg). Qed.

Lemma minmax_seg_none ign mx seg :
  minmax_seg ign mx seg = None <-> missing_rule ign (map ovalid seg) = true.
Proof.
  unfold minmax_seg. destruct ign.
  - rewrite op_list_none, mr_ign, somes_rx_valid. split.
    + intro H. apply Z.eqb_eq. rewrite <- somes_length_rx, H. reflexivity.
    + intro H. apply Z.eqb_eq in H. apply lenZ_0_nil. rewrite somes_length_rx. exact H.
  - destruct seg as [ | r seg]; [ split; reflexivity | ].
    change (missing_rule false (map ovalid (r :: seg))) with (negb (forallb (fun b => b) (map ovalid (r :: seg)))).
    rewrite forallb_id_map.
    destruct (forallb ovalid (r :: seg)) eqn:E; cbn [negb].
    + split; [ | discriminate ]. rewrite op_list_none. intro H.
      apply (f_equal lenZ) in H. rewrite somes_length_rx in H.
      rewrite (filter_all_forallb ovalid _ E), lenZ_cons in H. pose proof (lenZ_nonneg seg).
      change (lenZ (@nil Qc)) with 0 in H. lia.
    + split; reflexivity.
Qed.

Lemma minmax_seg_value ign mx seg m :
  minmax_seg ign mx seg = Some m ->
  if mx then is_max m (somes (map rx seg)) else is_min m (somes (map rx seg)).
Proof.
  unfold minmax_seg. destruct ign.
  - rewrite somes_rx_valid. apply op_list_spec.
  - destruct seg as [ | r seg]; [ discriminate | ].
    destruct (forallb ovalid (r :: seg)); [ apply op_list_spec | discriminate ].
Qed.

Theorem minmax_spec ign mx size rows u d :
  0 <= u < size ->
  let seg := cell_s u rows in                     (* the rows with coordinate u *)
  let V := somes (map rx seg) in                  (* their valid values, in row order *)
  let out := nth (Z.to_nat u) (minmax ign mx size rows) d in
  (out = None <-> missing_rule ign (map ovalid seg) = true) /\
  (forall m, out = Some m -> if mx then is_max m V else is_min m V).
Proof.
  intros H seg V out.
  assert (EO : out = minmax_seg ign mx seg).
  { unfold out. rewrite minmax_group. apply per_cell_nth. exact H. }
  rewrite EO. split; [ apply minmax_seg_none | intro m; apply minmax_seg_value ].
Qed.

(* a valid cell has at least one valid row, all rows valid under propagation *)
Lemma minmax_valid_rows ign mx seg m :
  minmax_seg ign mx seg = Some m ->
  In m (somes (map rx seg)) /\ (ign = false -> forallb ovalid seg = true).
Proof.
  intro H. split.
  - pose proof (minmax_seg_value ign mx seg m H) as S. destruct mx; destruct S as [S _]; exact S.
  - intros ->. unfold minmax_seg in H. destruct seg as [ | r seg]; [ discriminate | ].
    destruct (forallb ovalid (r :: seg)); [ reflexivity | discriminate ].
Qed.
