(* C18 - the textbook statistics, stated over the rows of one cell.  Definitions only.
   A cell is a tuple of category values; its rows are the rows whose tuple it is, in row order. *)
From Coq Require Import ZArith QArith Qcanon List Bool Sorting.Permutation.
From Catii Require Import Cube.XStats.
Import ListNotations.
Open Scope Z_scope.

(* ---------------------------------------------------------------- grouping *)
Fixpoint tuple_eqb (a b : list Z) : bool :=
  match a, b with
  | [], [] => true
  | x :: a', y :: b' => Z.eqb x y && tuple_eqb a' b'
  | _, _ => false
  end.
(* every category value lies inside its dimension's extent *)
Definition within (exts cats : list Z) : Prop := Forall2 (fun v e => 0 <= v < e) cats exts.

(* input rows as the caller sees them: category tuple, fact value(s), weight *)
Record trow := mk_trow { tcats : list Z; tx : F; tw : F }.
Record tmrow := mk_tmrow { tmcats : list Z; tmxs : list F; tmw : F }.
Definition to_srow (exts : list Z) (t : trow) : srow := mk_srow (coordinate exts (tcats t)) (tx t) (tw t).
Definition to_mrow (exts : list Z) (t : tmrow) : mrow := mk_mrow (coordinate exts (tmcats t)) (tmxs t) (tmw t).
Definition rows_of_cell (c : list Z) (rows : list trow) : list trow := filter (fun t => tuple_eqb (tcats t) c) rows.
Definition mrows_of_cell (c : list Z) (rows : list tmrow) : list tmrow := filter (fun t => tuple_eqb (tmcats t) c) rows.

(* ---------------------------------------------------------------- the missing-cell rule of C04 *)
(* valids = validity of the rows of the cell: missing when there is no row, or when all (ignore) /
   any (propagate) of them are missing *)
Definition missing_rule (ign : bool) (valids : list bool) : bool :=
  match valids with
  | [] => true
  | _ => if ign then negb (existsb (fun b => b) valids) else negb (forallb (fun b => b) valids)
  end.

(* ---------------------------------------------------------------- variance *)
(* (x, w) of the valid rows *)
Definition xw_of (weighted : bool) (r : srow) : Qc * Qc :=
  (match rx r with Some x => x | None => 0%Qc end,
   if weighted then match rw r with Some w => w | None => 0%Qc end else 1%Qc).

Definition wtotal (V : list (Qc * Qc)) : Qc := sumQc (map snd V).
Definition wmean (V : list (Qc * Qc)) : Qc := (sumQc (map (fun xw => snd xw * fst xw) V) / wtotal V)%Qc.
(* reliability-weighted variance  sum w (x - mu)^2 / sum w,  times n/(n-1) *)
Definition rel_var (V : list (Qc * Qc)) : Qc :=
  let n := lenZ V in
  ((sumQc (map (fun xw => snd xw * ((fst xw - wmean V) * (fst xw - wmean V))) V) / wtotal V)
   * (ofZ n / ofZ (n - 1)))%Qc.
(* sample variance, ddof = 1 *)
Definition mean (xs : list Qc) : Qc := (sumQc xs / ofZ (lenZ xs))%Qc.
Definition sample_var (xs : list Qc) : Qc :=
  (sumQc (map (fun x => (x - mean xs) * (x - mean xs)) xs) / ofZ (lenZ xs - 1))%Qc.

(* ---------------------------------------------------------------- order statistics *)
Fixpoint sortedQ (l : list Qc) : Prop :=
  match l with
  | [] => True
  | x :: l' => match l' with [] => True | y :: _ => (x <= y)%Qc end /\ sortedQ l'
  end.
(* q is the p-quantile of xs by linear interpolation: with s the sorted sample and h = (n-1)p, q lies
   on the segment between the order statistics s_k, s_k+1 that bracket position h *)
Definition is_lin_quantile (xs : list Qc) (p q : Qc) : Prop :=
  exists s k,
    Permutation s xs /\ sortedQ s /\
    let n := lenZ xs in
    let h := (ofZ (n - 1) * p)%Qc in
    0 <= k <= n - 1 /\ (ofZ k <= h)%Qc /\ (h < ofZ k + 1)%Qc /\
    q = (nthQ s k + (nthQ s (Z.min (k + 1) (n - 1)) - nthQ s k) * (h - ofZ k))%Qc.

Definition is_max (m : Qc) (V : list Qc) : Prop := In m V /\ Forall (fun x => (x <= m)%Qc) V.
Definition is_min (m : Qc) (V : list Qc) : Prop := In m V /\ Forall (fun x => (m <= x)%Qc) V.

(* ---------------------------------------------------------------- covariance *)
(* xs, ys, ws of the rows that enter entry (i, j) *)
Definition cov_w (xyw : list (Qc * Qc * Qc)) : Qc :=
  let w (t : Qc * Qc * Qc) : Qc := snd t in
  let x (t : Qc * Qc * Qc) : Qc := fst (fst t) in
  let y (t : Qc * Qc * Qc) : Qc := snd (fst t) in
  let V1 := sumQc (map w xyw) in
  let V2 := sumQc (map (fun t => w t * w t)%Qc xyw) in
  let mx := (sumQc (map (fun t => w t * x t)%Qc xyw) / V1)%Qc in
  let my := (sumQc (map (fun t => w t * y t)%Qc xyw) / V1)%Qc in
  (sumQc (map (fun t => w t * ((x t - mx) * (y t - my))) xyw) / (V1 - V2 / V1))%Qc.
Definition cov_u (xy : list (Qc * Qc)) : Qc :=
  let n := ofZ (lenZ xy) in
  let mx := (sumQc (map fst xy) / n)%Qc in
  let my := (sumQc (map snd xy) / n)%Qc in
  (sumQc (map (fun t => (fst t - mx) * (snd t - my)) xy) / ofZ (lenZ xy - 1))%Qc.

(* rows that enter matrix entry (i, j): both columns (and the weight, when weights are given) present *)
Definition unF (v : F) : Qc := match v with Some x => x | None => 0%Qc end.
Definition rawcol (i : nat) (r : mrow) : F := nth i (mxs r) None.
Definition pair_valid (weighted : bool) (i j : nat) (r : mrow) : bool :=
  is_some (rawcol i r) && is_some (rawcol j r) && (negb weighted || is_some (mw r)).
(* (x_i, x_j, w) of such a row; w = 1 without weights *)
Definition xyw_of (weighted : bool) (i j : nat) (r : mrow) : Qc * Qc * Qc :=
  (unF (rawcol i r), unF (rawcol j r), if weighted then unF (mw r) else 1%Qc).
(* complete rows: every column and the weight present *)
Definition row_complete (weighted : bool) (r : mrow) : bool :=
  forallb is_some (mxs r) && (negb weighted || is_some (mw r)).
