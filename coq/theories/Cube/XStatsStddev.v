(* C18 - stddev_spec: the variance the array code computes for a cell (weighted mean per bin,
   squared deviations from it re-binned, n/(n-1)) is the reliability-weighted sample variance of the
   cell's valid rows; without weights it is the ddof=1 sample variance; the cell is missing by the
   rule of C04 and additionally when fewer than two rows are valid. *)
From Coq Require Import ZArith QArith Qcanon List Bool Lia ZifyBool.
From Catii Require Import Cube.XStats Cube.XStatsSpec Cube.XStatsCell Cube.XStatsBase Cube.XStatsGroup.
Import ListNotations.
Open Scope Z_scope.

(* ------------------------------------------------------------------ the mask *)
Lemma stddev_cell_mask weighted ign seg :
  snd (stddev_cell weighted ign seg)
  = missing_rule ign (map (svalid weighted) seg) || (lenZ (filter (svalid weighted) seg) <? 2).
Proof.
  unfold stddev_cell. cbn [snd]. unfold countb.
  pose proof (filter_split_len (svalid weighted) seg) as HS.
  pose proof (lenZ_nonneg (filter (svalid weighted) seg)).
  pose proof (lenZ_nonneg (filter (fun x => negb (svalid weighted x)) seg)).
  destruct ign.
  - rewrite mr_ign. lia.
  - rewrite mr_prop. lia.
Qed.

(* when the cell is not masked, the rows that enter the computation are the valid rows of the cell *)
Lemma stddev_cell_used weighted ign seg :
  snd (stddev_cell weighted ign seg) = false ->
  (if ign then filter (svalid weighted) seg else seg) = filter (svalid weighted) seg /\
  2 <= lenZ (filter (svalid weighted) seg).
Proof.
  rewrite stddev_cell_mask. intro H. apply orb_false_elim in H. destruct H as [H1 H2].
  split; [ | lia ].
  destruct ign; [ reflexivity | ].
  rewrite mr_prop in H1. symmetry. apply filter_all. lia.
Qed.

(* ------------------------------------------------------------------ the value *)
Lemma valid_summ weighted r : svalid weighted r = true -> summ weighted r = Some (fst (xw_of weighted r)).
Proof.
  intro H. unfold summ. rewrite H. unfold svalid in H. apply andb_prop in H. destruct H as [H _].
  unfold xw_of. cbn [fst]. destruct (rx r); [ reflexivity | discriminate ].
Qed.
Lemma valid_rw weighted r : weighted = true -> svalid weighted r = true -> rw r = Some (snd (xw_of weighted r)).
Proof.
  intros -> H. unfold svalid in H. apply andb_prop in H. destruct H as [_ H]. cbn [negb orb] in H.
  unfold xw_of. cbn [snd]. destruct (rw r); [ reflexivity | discriminate ].
Qed.
Lemma valid_wsumm weighted r :
  svalid weighted r = true -> wsumm weighted r = Some (snd (xw_of weighted r) * fst (xw_of weighted r))%Qc.
Proof.
  intro H. unfold wsumm. rewrite (valid_summ _ r H). destruct weighted.
  - rewrite (valid_rw _ r eq_refl H). cbn [fmul flift2]. f_equal. ring.
  - unfold xw_of. cbn [snd fst]. f_equal. ring.
Qed.
Lemma valid_countable weighted r :
  svalid weighted r = true -> countable weighted r = Some (snd (xw_of weighted r)).
Proof.
  intro H. unfold countable. rewrite H. destruct weighted.
  - apply (valid_rw _ r eq_refl H).
  - reflexivity.
Qed.

Lemma stddev_cell_value weighted ign seg :
  let V := filter (svalid weighted) seg in
  let xw := map (xw_of weighted) V in
  snd (stddev_cell weighted ign seg) = false -> wtotal xw <> 0%Qc ->
  fst (stddev_cell weighted ign seg) = Some (rel_var xw).
Proof.
  intros V xw HM HW. destruct (stddev_cell_used weighted ign seg HM) as [EU HN].
  unfold stddev_cell. cbn [fst]. rewrite EU. fold V. fold V in HN.
  assert (AV : forall r, In r V -> svalid weighted r = true) by (intros r Hr; eapply filter_In_true; exact Hr).
  (* weighted mean *)
  rewrite (fsum_some (wsumm weighted) (fun r => snd (xw_of weighted r) * fst (xw_of weighted r))%Qc V)
    by (intros r Hr; apply valid_wsumm, AV, Hr).
  rewrite (fsum_some (countable weighted) (fun r => snd (xw_of weighted r)) V)
    by (intros r Hr; apply valid_countable, AV, Hr).
  assert (EW : sumQc (map (fun r => snd (xw_of weighted r)) V) = wtotal xw).
  { unfold wtotal, xw. rewrite map_map. reflexivity. }
  assert (EM : (sumQc (map (fun r => snd (xw_of weighted r) * fst (xw_of weighted r)) V) / wtotal xw)%Qc = wmean xw).
  { unfold wmean, xw. rewrite map_map. reflexivity. }
  rewrite EW, fdiv_some by exact HW. rewrite EM.
  (* squared deviations *)
  rewrite (fsum_some _ (fun r => snd (xw_of weighted r)
                                 * ((fst (xw_of weighted r) - wmean xw) * (fst (xw_of weighted r) - wmean xw)))%Qc V).
  2:{ intros r Hr. cbv zeta. rewrite (valid_summ _ r (AV r Hr)). cbn [fsub fmul flift2].
      destruct weighted.
      - rewrite (valid_rw _ r eq_refl (AV r Hr)). cbn [fmul flift2]. f_equal. ring.
      - replace (snd (xw_of false r)) with 1%Qc by reflexivity. f_equal. ring. }
  assert (ES : sumQc (map (fun r => snd (xw_of weighted r)
                                 * ((fst (xw_of weighted r) - wmean xw) * (fst (xw_of weighted r) - wmean xw)))%Qc V)
               = sumQc (map (fun t => snd t * ((fst t - wmean xw) * (fst t - wmean xw)))%Qc xw)).
  { unfold xw. rewrite map_map. reflexivity. }
  rewrite ES.
  assert (N1 : ofZ (lenZ V - 1) <> 0%Qc) by (apply ofZ_nonzero; lia).
  unfold rel_var. replace (lenZ xw) with (lenZ V) by (unfold xw; rewrite lenZ_map; reflexivity).
  destruct weighted.
  - rewrite (fsum_some rw (fun r => snd (xw_of true r)) V)
      by (intros r Hr; apply (valid_rw _ r eq_refl (AV r Hr))).
    rewrite EW. unfold fZ. rewrite !fdiv_some by assumption. reflexivity.
  - unfold fZ. rewrite fdiv_some by exact N1. f_equal.
    assert (ET : wtotal xw = ofZ (lenZ V)).
    { unfold wtotal, xw. rewrite map_map. unfold xw_of. cbn [snd]. apply sumQc_ones. }
    rewrite ET in *. field. split; assumption.
Qed.

(* ------------------------------------------------------------------ unweighted: ddof = 1 *)
Lemma rel_var_unweighted (V : list (Qc * Qc)) :
  Forall (fun xw => snd xw = 1%Qc) V -> 2 <= lenZ V ->
  rel_var V = sample_var (map fst V).
Proof.
  intros H1 HN.
  assert (ET : wtotal V = ofZ (lenZ V)).
  { unfold wtotal. rewrite <- sumQc_ones. apply sumQc_ext. intros r Hr.
    rewrite Forall_forall in H1. apply H1. exact Hr. }
  assert (EM : wmean V = mean (map fst V)).
  { unfold wmean, mean. rewrite ET, lenZ_map.
    replace (sumQc (map (fun xw => snd xw * fst xw)%Qc V)) with (sumQc (map fst V)); [ reflexivity | ].
    apply sumQc_ext. intros r Hr. rewrite Forall_forall in H1. rewrite (H1 r Hr). ring. }
  unfold rel_var, sample_var. rewrite ET, EM, lenZ_map, map_map.
  assert (ES : sumQc (map (fun xw => snd xw * ((fst xw - mean (map fst V)) * (fst xw - mean (map fst V))))%Qc V)
             = sumQc (map (fun x => (fst x - mean (map fst V)) * (fst x - mean (map fst V)))%Qc V)).
  { apply sumQc_ext. intros r Hr. rewrite Forall_forall in H1. rewrite (H1 r Hr). ring. }
  rewrite ES.
  assert (N0 : ofZ (lenZ V) <> 0%Qc) by (apply ofZ_nonzero; lia).
  assert (N1 : ofZ (lenZ V - 1) <> 0%Qc) by (apply ofZ_nonzero; lia).
  field. split; assumption.
Qed.

(* ------------------------------------------------------------------ stddev_spec *)
Theorem stddev_spec weighted ign size rows u d :
  0 <= u < size ->
  let seg := cell_s u rows in                            (* the rows with coordinate u, in row order *)
  let V := filter (svalid weighted) seg in               (* ... of which the valid ones *)
  let xw := map (xw_of weighted) V in                    (* their (value, weight) *)
  let out := nth (Z.to_nat u) (stddev weighted ign size rows) d in
  snd out = missing_rule ign (map (svalid weighted) seg) || (lenZ V <? 2) /\
  (snd out = false -> wtotal xw <> 0%Qc -> fst out = Some (rel_var xw)) /\
  (snd out = false -> weighted = false ->
     fst out = Some (sample_var (map fst xw)) /\ wtotal xw = ofZ (lenZ V) /\ wtotal xw <> 0%Qc).
Proof.
  intros H seg V xw out.
  assert (EO : out = stddev_cell weighted ign seg).
  { unfold out. rewrite stddev_group. apply per_cell_nth. exact H. }
  rewrite EO. split; [ apply stddev_cell_mask | ]. split.
  - apply stddev_cell_value.
  - intros HM ->. destruct (stddev_cell_used false ign seg HM) as [_ HN]. fold V in HN.
    assert (ET : wtotal xw = ofZ (lenZ V)).
    { unfold wtotal, xw. rewrite map_map. unfold xw_of. cbn [snd]. apply sumQc_ones. }
    assert (N0 : wtotal xw <> 0%Qc) by (rewrite ET; apply ofZ_nonzero; lia).
    split; [ | split; assumption ].
    rewrite (stddev_cell_value false ign seg HM N0). f_equal. fold V. fold xw.
    apply rel_var_unweighted.
    + unfold xw. apply Forall_forall. intros t Ht. apply in_map_iff in Ht. destruct Ht as [r [<- _]]. reflexivity.
    + unfold xw. rewrite lenZ_map. exact HN.
Qed.

(* the value and mask of a cell depend on the valid rows only, once the policy is "ignore" *)
Lemma stddev_cell_ign_valid_only weighted seg :
  stddev_cell weighted true seg = stddev_cell weighted true (filter (svalid weighted) seg).
Proof.
  unfold stddev_cell.
  assert (E : filter (svalid weighted) (filter (svalid weighted) seg) = filter (svalid weighted) seg).
  { apply filter_all_forallb. apply forallb_filter_id. }
  rewrite E. reflexivity.
Qed.
