(* C03-C05 for the index cube: every region of ffunc_count / ffunc_valid_count / ffunc_sum /
   ffunc_mean (FFuncs.v) holds, at every cell inside the shape, the sum of its per-row measure over
   the rows of the cell (FillInv.cube_region_spec); each ff_*_cell then is literally the array
   cube's per-cell function (XCube.xf_*_cell) on those rows, which AggCell.v relates to the
   specification Direct.direct_cell.  PROOFS ONLY. *)
From Coq Require Import ZArith QArith Qcanon List Bool Lia.
From Catii Require Import Base.Cases Base.Sorted Cube.Dim Cube.Walk Cube.Diff Cube.Region Cube.Count
     Cube.Direct Cube.FFuncs Cube.XCube Cube.FillInv Cube.AggBase Cube.AggCell.
Import ListNotations.
Open Scope Z_scope.

(* ---------- cells ---------- *)
Lemma all_cells_in_shape' shape cell : In cell (all_cells shape) -> in_shape shape cell.
Proof.
  revert cell. induction shape as [|e shape IH]; intros cell H; cbn [all_cells] in H.
  - destruct H as [<-|[]]. constructor.
  - apply in_flat_map in H. destruct H as [c [Hc H]]. apply in_map_iff in H. destruct H as [cell' [<- H]].
    constructor; [now apply In_rowrange_iff|now apply IH].
Qed.

Lemma row_in_cell_dense dims : forall cell r, row_in_cell dims cell r = row_in_cell_f (map dim_dense dims) cell r.
Proof.
  induction dims as [|d dims IH]; intros [|c cell] r; cbn [map row_in_cell row_in_cell_f]; try reflexivity.
  now rewrite IH.
Qed.
Lemma cell_rows_dense N dims cell : cell_rows N dims cell = cell_rows_f N (map dim_dense dims) cell.
Proof. unfold cell_rows, cell_rows_f. apply filter_ext. intros r. apply row_in_cell_dense. Qed.

(* ---------- sums of constant / complemented measures ---------- *)
Lemma sumZ_const c (rows : list Z) : sumZ (map (fun _ : Z => c) rows) = lenZ rows * c.
Proof. induction rows as [|r rows IH]; [reflexivity|]. cbn [map sumZ]. rewrite IH, lenZ_cons. lia. Qed.
Lemma sumZ_one_minus vld rows : sumZ (map (fun r => 1 - b2z (vld r)) rows) = lenZ rows - countb vld rows.
Proof. induction rows as [|r rows IH]; [reflexivity|]. cbn [map sumZ]. rewrite IH, lenZ_cons, countb_cons. lia. Qed.
Lemma lenZ_rowrange N : 0 <= N -> lenZ (rowrange N) = N.
Proof. intros HN. unfold lenZ. rewrite rowrange_length. lia. Qed.

Section Regions.
Variable N : Z.
Variable dims : list dim.
Variable shape : list Z.
Hypothesis HN : 0 <= N.
Hypothesis W : Forall (dim_wf N) dims.
Hypothesis C : covers shape dims.

(* FillInv.cube_region_spec in the vocabulary of FFuncs.v / Direct.v *)
Lemma zreg_spec (mu : Z -> Z) f corner cell :
  (forall rows, f rows = sumZ (map mu rows)) -> corner = sumZ (map mu (rowrange N)) -> in_shape shape cell ->
  zreg dims shape f corner cell = sumZ (map mu (cell_rows N dims cell)).
Proof.
  intros Hf Hc HI. unfold zreg. rewrite <- vsum_sumZ.
  apply cube_region_spec_Z; [exact W|exact C| | |exact HI].
  - intros rows. rewrite vsum_sumZ. apply Hf.
  - rewrite vsum_sumZ. exact Hc.
Qed.
Lemma qreg_spec (mu : Z -> Qc) f corner cell :
  (forall rows, f rows = sumQ (map mu rows)) -> corner = sumQ (map mu (rowrange N)) -> in_shape shape cell ->
  qreg dims shape f corner cell = sumQ (map mu (cell_rows N dims cell)).
Proof.
  intros Hf Hc HI. unfold qreg. rewrite <- vsum_sumQ.
  apply (cube_region_spec_Qc N dims shape mu f corner); [exact W|exact C| | |exact HI].
  - intros rows. rewrite vsum_sumQ. apply Hf.
  - rewrite vsum_sumQ. exact Hc.
Qed.

(* the two counters in the forms the code writes them *)
Lemma zreg_countb vld cell : in_shape shape cell ->
  zreg dims shape (countb vld) (countb vld (rowrange N)) cell = countb vld (cell_rows N dims cell).
Proof. intros HI. apply (zreg_spec (fun r => b2z (vld r))); [reflexivity|reflexivity|exact HI]. Qed.
Lemma zreg_missing vld corner cell : corner = N - countb vld (rowrange N) -> in_shape shape cell ->
  zreg dims shape (fun rows => lenZ rows - countb vld rows) corner cell
  = lenZ (cell_rows N dims cell) - countb vld (cell_rows N dims cell).
Proof.
  intros Hc HI. rewrite <- sumZ_one_minus. apply zreg_spec; [| |exact HI].
  - intros rows. symmetry. apply sumZ_one_minus.
  - rewrite sumZ_one_minus, lenZ_rowrange by exact HN. exact Hc.
Qed.

(* ---------- the regions of one column ---------- *)
Section Col.
Variable h : Qc.
Variable x : marr.
Variable nw : nweights.
Variable cell : list Z.
Hypothesis HI : in_shape shape cell.
Let rows := cell_rows N dims cell.

Lemma ff_sum_reg_spec : ff_sum_reg N dims shape h x nw cell = sumQ (map (summable h x nw) rows).
Proof. unfold ff_sum_reg. apply qreg_spec; [reflexivity|reflexivity|exact HI]. Qed.
Lemma ff_vc_reg_spec : ff_vc_reg N dims shape x nw cell = sumQ (map (countable_vc x nw) rows).
Proof. unfold ff_vc_reg. apply qreg_spec; [reflexivity|reflexivity|exact HI]. Qed.
Lemma ff_wvalid_reg_spec : ff_wvalid_reg N dims shape x nw cell = sumQ (map (countable_mean x nw) rows).
Proof. unfold ff_wvalid_reg. apply qreg_spec; [reflexivity|reflexivity|exact HI]. Qed.
Lemma ff_valid_reg_spec : ff_valid_reg N dims shape x nw cell = countb (validity x nw) rows.
Proof. unfold ff_valid_reg. cbv zeta. apply zreg_countb. exact HI. Qed.
Lemma ff_missing_reg_spec : ff_missing_reg N dims shape x nw cell = lenZ rows - countb (validity x nw) rows.
Proof. unfold ff_missing_reg. cbv zeta. apply zreg_missing; [reflexivity|exact HI]. Qed.
Lemma ff_mean_missing_reg_spec :
  ff_mean_missing_reg N dims shape x nw cell = lenZ rows - countb (validity x nw) rows.
Proof.
  unfold ff_mean_missing_reg. cbv zeta. apply zreg_missing; [|exact HI].
  rewrite countb_negb, lenZ_rowrange by exact HN. reflexivity.
Qed.

(* each ff_*_cell is the array cube's per-cell function on the rows of the cell *)
Lemma ff_sum_cell_x p ign : ff_sum_cell N dims shape h x nw ign cell = xf_sum_cell h x nw p ign rows.
Proof.
  unfold ff_sum_cell, xf_sum_cell.
  now rewrite ff_sum_reg_spec, ff_valid_reg_spec, ff_missing_reg_spec, mcount_forms.
Qed.
Lemma ff_valid_count_cell_x p ign :
  ff_valid_count_cell N dims shape x nw ign cell = xf_valid_count_cell x nw p ign rows.
Proof.
  unfold ff_valid_count_cell, xf_valid_count_cell.
  now rewrite ff_vc_reg_spec, ff_valid_reg_spec, ff_missing_reg_spec, mcount_forms.
Qed.
Lemma ff_valid_count_plain0_cell_x :
  ff_valid_count_plain0_cell N dims shape x nw cell = xf_valid_count_plain0_cell x nw rows.
Proof. unfold ff_valid_count_plain0_cell, xf_valid_count_plain0_cell. now rewrite ff_vc_reg_spec. Qed.
Lemma ff_mean_cell_x ign : ff_mean_cell N dims shape h x nw ign cell = xf_mean_cell h x nw ign rows.
Proof.
  unfold ff_mean_cell, xf_mean_cell. cbv zeta.
  now rewrite ff_sum_reg_spec, ff_wvalid_reg_spec, ff_mean_missing_reg_spec, mcount_forms, adjust0_id.
Qed.
End Col.

(* ---------- the count ---------- *)
Lemma count_cube_rows cell : in_shape shape cell ->
  count_cube N dims shape cell = (lenZ (cell_rows N dims cell), lenZ (cell_rows N dims cell) =? 0).
Proof.
  intros HI. unfold count_cube, reduce_count. cbv zeta.
  assert (E : count_diffed N dims shape cell = lenZ (cell_rows N dims cell)).
  { change (count_diffed N dims shape) with (zreg dims shape len_rows N).
    rewrite (zreg_spec (fun _ => 1) len_rows N cell); [| | |exact HI].
    - rewrite sumZ_const. lia.
    - intros rows. rewrite sumZ_const. unfold len_rows, lenZ. lia.
    - rewrite sumZ_const, lenZ_rowrange by exact HN. lia. }
  now rewrite E.
Qed.

Lemma ff_count_cell_x nw ign cell : in_shape shape cell ->
  ff_count_cell N dims shape nw ign cell
  = xf_count_cell nw ign (lenZ (cell_rows N dims cell)) (cell_rows N dims cell).
Proof.
  intros HI. destruct nw as [|v b|v b]; cbn [ff_count_cell xf_count_cell]; cbv zeta.
  - (* unweighted: the count cube *)
    rewrite count_cube_rows by exact HI. reflexivity.
  - (* scalar weight *)
    set (w0 := if b then v else q0).
    rewrite (qreg_spec (fun _ => w0) _ _ cell); [| | |exact HI].
    2:{ intros rows. rewrite sumQ_const. ring. }
    2:{ rewrite sumQ_const, lenZ_rowrange by exact HN. ring. }
    rewrite (zreg_spec (fun _ => b2z b) _ _ cell); [| | |exact HI].
    2:{ intros rows. rewrite sumZ_const. destruct b; cbn [b2z]; lia. }
    2:{ rewrite sumZ_const, lenZ_rowrange by exact HN. destruct b; cbn [b2z]; lia. }
    rewrite (zreg_spec (fun _ => b2z (negb b)) _ _ cell); [| | |exact HI].
    2:{ intros rows. rewrite sumZ_const. destruct b; cbn [b2z negb]; lia. }
    2:{ rewrite sumZ_const, lenZ_rowrange by exact HN. destruct b; cbn [b2z negb]; lia. }
    now rewrite sumQ_const, !sumZ_const.
  - (* row weights *)
    set (w0 := fun r => if b r then v r else q0).
    rewrite (qreg_spec w0 _ _ cell); [|reflexivity|reflexivity|exact HI].
    rewrite zreg_countb by exact HI.
    rewrite zreg_missing; [|reflexivity|exact HI].
    now rewrite mcount_forms.
Qed.

(* ---------- per cell: the specification on the rows of the cell ---------- *)
Lemma ff_cell_x_cols A h f nw ign cell : in_shape shape cell ->
  (match A with
   | ACount => [ff_count_cell N dims shape nw ign cell]
   | AValidCount => map (fun x => ff_valid_count_cell N dims shape x nw ign cell) (fact_marrs f)
   | ASum => map (fun x => ff_sum_cell N dims shape h x nw ign cell) (fact_marrs f)
   | AMean => map (fun x => ff_mean_cell N dims shape h x nw ign cell) (fact_marrs f)
   end) = x_cols A h f nw PBins ign (lenZ (cell_rows N dims cell)) (cell_rows N dims cell).
Proof.
  intros HI. destruct A; cbn [x_cols].
  - f_equal. now apply ff_count_cell_x.
  - apply map_ext. intros x. now apply ff_valid_count_cell_x.
  - apply map_ext. intros x. now apply ff_sum_cell_x.
  - apply map_ext. intros x. now apply ff_mean_cell_x.
Qed.
End Regions.

Theorem ff_cell_direct A N dims shape h f w ign cell :
  0 <= N -> Forall (dim_wf N) dims -> covers shape dims -> in_shape shape cell -> agg_fact_ok A f ->
  (match A with
   | ACount => [ff_count_cell N dims shape (norm_w h w) ign cell]
   | AValidCount => map (fun x => ff_valid_count_cell N dims shape x (norm_w h w) ign cell) (fact_marrs f)
   | ASum => map (fun x => ff_sum_cell N dims shape h x (norm_w h w) ign cell) (fact_marrs f)
   | AMean => map (fun x => ff_mean_cell N dims shape h x (norm_w h w) ign cell) (fact_marrs f)
   end) = map (fun fx => direct_cell (w_get w) fx A ign (cell_rows N dims cell)) (fact_cols f).
Proof.
  intros HN W C HI HA.
  rewrite (ff_cell_x_cols N dims shape HN W C A h f (norm_w h w) ign cell HI).
  now apply x_cols_direct.
Qed.

(* ffunc_A_direct for A in count / valid_count / sum / mean, every fact and weight form, both policies *)
Theorem ccube_agg_direct A N dims shape h f w ign :
  0 <= N -> Forall (dim_wf N) dims -> covers shape dims -> agg_fact_ok A f ->
  ccube_agg N dims shape A h f w ign = direct A N (map dim_dense dims) shape f w ign.
Proof.
  intros HN W C HA. unfold ccube_agg, direct. cbv zeta. apply map_ext_in. intros cell Hin.
  rewrite <- cell_rows_dense. apply ff_cell_direct; try assumption. now apply all_cells_in_shape'.
Qed.

Theorem ccube_valid_count_plain0_direct N dims shape h f w :
  0 <= N -> Forall (dim_wf N) dims -> covers shape dims -> f <> FNone ->
  ccube_valid_count_plain0 N dims shape h f w =
  map (fun cell => map (fun fx => cell_value (w_get w) fx AValidCount (cell_rows_f N (map dim_dense dims) cell)) (fact_cols f)) (all_cells shape).
Proof.
  intros HN W C HA. unfold ccube_valid_count_plain0. cbv zeta. apply map_ext_in. intros cell Hin.
  rewrite <- cell_rows_dense, <- (x_cols_plain0_direct h f w _ HA). unfold x_cols_plain0.
  apply map_ext. intros x.
  apply (ff_valid_count_plain0_cell_x N dims shape W C). now apply all_cells_in_shape'.
Qed.

Print Assumptions ff_cell_direct.
Print Assumptions ccube_agg_direct.
Print Assumptions ccube_valid_count_plain0_direct.
