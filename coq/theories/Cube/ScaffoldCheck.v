(* Executable checkers for the C13 correspondence (no proofs). *)
From Coq Require Import ZArith List Bool.
From Catii Require Import Base.Cases Base.Sorted IIndex.Model Cube.Scaffold.
Import ListNotations.
Open Scope Z_scope.

Definition entries_subset (a b : list entry) : bool :=
  forallb (fun e => match assoc_get (fst e) b with Some rows => zlist_eqb rows (snd e) | None => false end) a.

(* same index up to the order of the dict *)
Definition idx_same (a b : iindex) : bool :=
  Z.eqb (common a) (common b) && Z.eqb (nrows a) (nrows b) && zlist_eqb (hshape a) (hshape b)
  && Nat.eqb (length (entries a)) (length (entries b))
  && entries_subset (entries a) (entries b) && entries_subset (entries b) (entries a).

Fixpoint find_combo (j : list Z) (p : list (list (list Z * iindex))) : option (list (list Z * iindex)) :=
  match p with
  | [] => None
  | c :: p' => if zlist_eqb (flat_coords c) j then Some c else find_combo j p'
  end.

Fixpoint nodup_zl (l : list (list Z)) : bool :=
  match l with [] => true | x :: l' => negb (existsb (zlist_eqb x) l') && nodup_zl l' end.

Fixpoint combos_same (a b : list (list Z * iindex)) : bool :=
  match a, b with
  | [], [] => true
  | (c1, s1) :: a', (c2, s2) :: b' => zlist_eqb c1 c2 && idx_same s1 s2 && combos_same a' b'
  | _, _ => false
  end.

(* case: the dimensions, and what the real ccube.product() yielded: per sub-cube, per dimension,
   (coords, the 1-D slice as an abstracted index) *)
Definition check_index_product (c : list iindex * list (list (list Z * iindex))) : bool :=
  let '(idxs, real) := c in
  let model := product (map slices_of_index idxs) in
  Nat.eqb (length real) (length model)
  && nodup_zl (map flat_coords real)
  && forallb (fun rc => match find_combo (flat_coords rc) model with
                        | Some mc => combos_same rc mc
                        | None => false end) real.

(* case: the extra extents per dimension and the flattened coordinates the real xcube.product yielded;
   also the real output shape prefix *)
Definition check_array_product (c : list (list Z) * list (list Z) * list Z) : bool :=
  let '(hss, real, shape_prefix) := c in
  let model := all_hcs (scaffold_shape hss) in
  Nat.eqb (length real) (length model) && nodup_zl real
  && forallb (fun j => existsb (zlist_eqb j) model) real
  && zlist_eqb shape_prefix (scaffold_shape hss).

Definition check_shape (c : list (list Z) * list Z * list Z) : bool :=
  let '(hss, rest, real_shape) := c in zlist_eqb real_shape (scaffold_shape hss ++ rest).
