(* Hand-written copy of fit_dtype (src/catii/iindexes.py:21-53).  Used (a) by every other model
   that calls fit_dtype (to_array, collapsed, INDX save) and (b) as the fallback model of C19 when
   the translator does not recognise the source.  Tied to the code by the C19 grid correspondence
   and, when the translator succeeds, by Dtype/FitProofs.v:fit_hand_eq_gen. *)
From Coq Require Import ZArith Bool.
From Catii Require Import Dtype.FitSpec.
Open Scope Z_scope.

Definition fit_dtype (maxval minval : Z) : dtype :=
  let minval := if (maxval <? 0) && (minval =? 0) then maxval else minval in
  if minval <? 0 then
    if minval <? - 2 ^ 31 then D_int64
    else if maxval >? 2 ^ 31 - 1 then D_int64
    else if minval <? - 2 ^ 15 then D_int32
    else if maxval >? 2 ^ 15 - 1 then D_int32
    else if minval <? - 2 ^ 7 then D_int16
    else if maxval >? 2 ^ 7 - 1 then D_int16
    else D_int8
  else
    if maxval >=? 2 ^ 32 then D_uint64
    else if maxval >=? 2 ^ 16 then D_uint32
    else if maxval >=? 2 ^ 8 then D_uint16
    else D_uint8.

(* IndxIO.format / IndxIO.dtype (src/catii/indxio.py:207-231), integer argument. *)
Definition indx_format (size : Z) : sfmt :=
  if size =? 8 then F_Q else if size =? 4 then F_L else if size =? 2 then F_H else F_B.
Definition indx_dtype (size : Z) : dtype :=
  if size =? 8 then D_uint64 else if size =? 4 then D_uint32 else if size =? 2 then D_uint16 else D_uint8.
