(* C19 for the hand model of fit_dtype, plus the facts about it other models use. *)
From Coq Require Import ZArith Bool Lia List.
From Catii Require Import Dtype.FitSpec Dtype.FitHand Dtype.FitTactics.
Import ListNotations.
Open Scope Z_scope.

Theorem fit_hand_C19 : C19_statement fit_dtype.
Proof. c19_ladder ltac:(unfold fit_dtype). Qed.

(* Same fact phrased with the executable specification. *)
Lemma narrowest_unique sgn mn mx d :
  signed d = sgn -> contains d mn mx ->
  (forall d', signed d' = sgn -> contains d' mn mx -> width d <= width d') ->
  narrowest sgn mn mx = Some d.
Proof.
  intros Hs Hc Hmin.
  assert (Hb : forall d', containsb d' mn mx = true <-> contains d' mn mx).
  { intros d'. unfold containsb, contains. rewrite andb_true_iff, !Z.leb_le. tauto. }
  assert (Hw : forall d', signed d' = sgn -> containsb d' mn mx = true -> width d <= width d').
  { intros d' S' C'. apply Hmin; [exact S'|apply Hb; exact C']. }
  apply Hb in Hc. clear Hmin Hb.
  unfold narrowest, all_dtypes.
  subst sgn.
  destruct d; cbn [find signed Bool.eqb andb]; rewrite ?Hc; try reflexivity;
  repeat match goal with
    | |- context [containsb ?x mn mx] =>
        let E := fresh "E" in destruct (containsb x mn mx) eqn:E;
        [ exfalso; specialize (Hw x eq_refl E); cbn in Hw; lia | ]
    end; reflexivity.
Qed.

Theorem fit_hand_spec mx mn :
  let mn' := eff_min mx mn in
  - 2 ^ 63 <= mn' -> mx < 2 ^ 64 -> (mn' < 0 -> mx < 2 ^ 63) -> mn' <= mx ->
  spec_choice mx mn = Some (fit_dtype mx mn).
Proof.
  intros mn' H1 H2 H3 H4. unfold spec_choice. fold mn'.
  destruct (fit_hand_C19 mx mn H1 H2 H3 H4) as (Hc & Hs & Hm).
  apply narrowest_unique; [exact Hs|exact Hc|].
  intros d' S' C'. apply Hm; [rewrite S', Hs; reflexivity|exact C'].
Qed.

(* unsigned use (INDX word size, collapse counter): the chosen type holds the value *)
Lemma fit_unsigned_holds mx : 0 <= mx < 2 ^ 64 ->
  signed (fit_dtype mx 0) = false /\ mx <= hi (fit_dtype mx 0).
Proof.
  intros H. assert (E : eff_min mx 0 = 0). { unfold eff_min. destruct (mx <? 0) eqn:X; [apply Z.ltb_lt in X; lia|reflexivity]. }
  destruct (fit_hand_C19 mx 0) as (Hc & Hs & _); rewrite ?E; try lia.
  rewrite E in Hs. cbn in Hs. split; [exact Hs|]. destruct Hc as [_ Hc]. exact Hc.
Qed.

Lemma indx_format_size s : In s [1; 2; 4; 8] -> sfmt_size (indx_format s) = s.
Proof. cbn. intros [<-|[<-|[<-|[<-|[]]]]]; reflexivity. Qed.

Lemma indx_dtype_size s : In s [1; 2; 4; 8] -> itemsize (indx_dtype s) = s /\ signed (indx_dtype s) = false.
Proof. cbn. intros [<-|[<-|[<-|[<-|[]]]]]; split; reflexivity. Qed.

Lemma fit_itemsize_in mx mn : In (itemsize (fit_dtype mx mn)) [1; 2; 4; 8].
Proof. unfold fit_dtype. split_ifs; cbn; tauto. Qed.
