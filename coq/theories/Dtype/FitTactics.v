From Coq Require Import ZArith Bool Lia.
From Catii Require Import Dtype.FitSpec.
Open Scope Z_scope.

Ltac split_ifs := repeat match goal with
  | |- context [if ?c then _ else _] => let E := fresh "E" in destruct c eqn:E
  end.
Ltac boolhyps := repeat match goal with
  | H : (_ && _) = true |- _ => apply andb_true_iff in H; destruct H
  | H : (_ && _) = false |- _ => apply andb_false_iff in H
  | H : (_ || _) = true |- _ => apply orb_true_iff in H
  | H : (_ || _) = false |- _ => apply orb_false_iff in H; destruct H
  | H : negb _ = true |- _ => apply negb_true_iff in H
  | H : negb _ = false |- _ => apply negb_false_iff in H
  | H : (_ <? _) = true |- _ => apply Z.ltb_lt in H
  | H : (_ <? _) = false |- _ => apply Z.ltb_ge in H
  | H : (_ =? _) = true |- _ => apply Z.eqb_eq in H
  | H : (_ =? _) = false |- _ => apply Z.eqb_neq in H
  | H : (_ >? _) = _ |- _ => rewrite Z.gtb_ltb in H
  | H : (_ >=? _) = _ |- _ => rewrite Z.geb_leb in H
  | H : (_ <=? _) = true |- _ => apply Z.leb_le in H
  | H : (_ <=? _) = false |- _ => apply Z.leb_gt in H
  end.

Lemma pows : 2^7 = 128 /\ 2^8 = 256 /\ 2^15 = 32768 /\ 2^16 = 65536 /\ 2^31 = 2147483648 /\
  2^32 = 4294967296 /\ 2^63 = 9223372036854775808 /\ 2^64 = 18446744073709551616.
Proof. repeat split; reflexivity. Qed.

(* The statement of C19 for an arbitrary chooser [f]. *)
Definition C19_statement (f : Z -> Z -> dtype) : Prop :=
  forall mx mn,
  let mn' := eff_min mx mn in
  - 2 ^ 63 <= mn' -> mx < 2 ^ 64 -> (mn' < 0 -> mx < 2 ^ 63) -> mn' <= mx ->
  let d := f mx mn in
  contains d (Z.min mn' 0) mx /\ signed d = (mn' <? 0) /\
  forall d', signed d' = signed d -> contains d' (Z.min mn' 0) mx -> width d <= width d'.

(* Closes C19_statement for a ladder of comparisons against literal thresholds. *)
Ltac c19_ladder unf :=
  intros mx mn mn' H1 H2 H3 H4 d; subst mn' d; unfold eff_min in *; unf;
  destruct pows as (P7 & P8 & P15 & P16 & P31 & P32 & P63 & P64);
  rewrite ?P7, ?P8, ?P15, ?P16, ?P31, ?P32, ?P63, ?P64 in *;
  split_ifs; cbv zeta; boolhyps;
  (split; [unfold contains, lo, hi, signed, width; cbn -[Z.min]; lia|]);
  (split; [reflexivity|]);
  intros d' Hs Hc; destruct d'; unfold signed in Hs; try discriminate Hs;
  unfold contains, lo, hi, signed, width in Hc; cbn -[Z.min] in Hc; unfold width; lia.
