(* The eight NumPy integer dtypes, their ranges, and "narrowest of a signedness" (C19 specification). *)
From Coq Require Import ZArith Bool List.
Import ListNotations.
Open Scope Z_scope.

Inductive dtype := D_int8 | D_int16 | D_int32 | D_int64 | D_uint8 | D_uint16 | D_uint32 | D_uint64.

(* struct format codes used by IndxIO.format *)
Inductive sfmt := F_B | F_H | F_L | F_Q.

Definition signed (d : dtype) : bool :=
  match d with D_int8 | D_int16 | D_int32 | D_int64 => true | _ => false end.
Definition width (d : dtype) : Z :=
  match d with D_int8 | D_uint8 => 8 | D_int16 | D_uint16 => 16 | D_int32 | D_uint32 => 32 | _ => 64 end.
Definition itemsize (d : dtype) : Z := width d / 8.
Definition lo (d : dtype) : Z := if signed d then - 2 ^ (width d - 1) else 0.
Definition hi (d : dtype) : Z := if signed d then 2 ^ (width d - 1) - 1 else 2 ^ (width d) - 1.
Definition contains (d : dtype) (mn mx : Z) : Prop := lo d <= mn /\ mx <= hi d.
Definition containsb (d : dtype) (mn mx : Z) : bool := (lo d <=? mn) && (mx <=? hi d).

Definition sfmt_size (f : sfmt) : Z := match f with F_B => 1 | F_H => 2 | F_L => 4 | F_Q => 8 end.

Definition dtype_eqb (a b : dtype) : bool :=
  match a, b with
  | D_int8, D_int8 | D_int16, D_int16 | D_int32, D_int32 | D_int64, D_int64
  | D_uint8, D_uint8 | D_uint16, D_uint16 | D_uint32, D_uint32 | D_uint64, D_uint64 => true
  | _, _ => false
  end.

Definition all_dtypes : list dtype :=
  [D_int8; D_int16; D_int32; D_int64; D_uint8; D_uint16; D_uint32; D_uint64].

(* The specification of the choice: first (= narrowest) dtype of the wanted signedness that
   contains [mn, mx]; None when no NumPy integer type does. *)
Definition narrowest (sgn : bool) (mn mx : Z) : option dtype :=
  find (fun d => Bool.eqb (signed d) sgn && containsb d mn mx) all_dtypes.

(* The one-argument convention of fit_dtype: a negative maximum with the default minimum 0
   stands for "the minimum is that value". *)
Definition eff_min (mx mn : Z) : Z := if (mx <? 0) && (mn =? 0) then mx else mn.

(* What C19 demands of a chooser, as a boolean (used by the correspondence grid) and as a Prop. *)
Definition spec_choice (mx mn : Z) : option dtype :=
  let mn' := eff_min mx mn in narrowest (mn' <? 0) (Z.min mn' 0) mx.

Definition dtype_code (d : dtype) : Z :=
  match d with D_int8 => -8 | D_int16 => -16 | D_int32 => -32 | D_int64 => -64
             | D_uint8 => 8 | D_uint16 => 16 | D_uint32 => 32 | D_uint64 => 64 end.
