(* C19 over the model GENERATED from the working tree (gen/FitGen.v).  Re-checked on every run. *)
From Coq Require Import ZArith Bool Lia List.
From Catii Require Import Dtype.FitSpec Dtype.FitHand Dtype.FitTactics Dtype.gen.FitGen.
Import ListNotations.
Open Scope Z_scope.

Theorem fit_gen_C19 : C19_statement fit_dtype_gen.
Proof. c19_ladder ltac:(unfold fit_dtype_gen). Qed.

Theorem indx_format_gen_size s : In s [1; 2; 4; 8] -> sfmt_size (indx_format_gen s) = s.
Proof. cbn. intros [<-|[<-|[<-|[<-|[]]]]]; reflexivity. Qed.

Theorem indx_dtype_gen_size s : In s [1; 2; 4; 8] ->
  itemsize (indx_dtype_gen s) = s /\ signed (indx_dtype_gen s) = false.
Proof. cbn. intros [<-|[<-|[<-|[<-|[]]]]]; split; reflexivity. Qed.
