(* Specification-level set algebra on row-id lists, shared by the kernel theorems (SetOps),
   the index operations (IIndex) and the cube walk (Cube).  Definitions only; lemmas in SortedFacts.v *)
From Coq Require Import ZArith List Bool.
Import ListNotations.
Open Scope Z_scope.

Definition memZ (r : Z) (l : list Z) : bool := existsb (Z.eqb r) l.

(* strictly increasing *)
Fixpoint sincr (l : list Z) : Prop :=
  match l with
  | [] => True
  | x :: l' => match l' with [] => True | y :: _ => x < y end /\ sincr l'
  end.

Fixpoint sincr_b (l : list Z) : bool :=
  match l with
  | [] => true
  | x :: l' => match l' with [] => true | y :: _ => x <? y end && sincr_b l'
  end.

Definition in_u32 (x : Z) : Prop := 0 <= x < 2 ^ 32.
Definition all_u32 (l : list Z) : Prop := Forall in_u32 l.
Definition all_u32_b (l : list Z) : bool := forallb (fun x => (0 <=? x) && (x <? 2 ^ 32)) l.

(* the mathematical results, as lists in the order of the left operand / merged order *)
Definition inter_spec (L R : list Z) : list Z := filter (fun x => memZ x R) L.
Definition diff_spec (L R : list Z) : list Z := filter (fun x => negb (memZ x R)) L.

(* structural merge of two strictly increasing lists (fuel = total length) *)
Fixpoint merge_fuel (fuel : nat) (L R : list Z) : list Z :=
  match fuel with
  | O => []
  | S f =>
    match L, R with
    | [], _ => R
    | _, [] => L
    | x :: L', y :: R' =>
      if x <? y then x :: merge_fuel f L' R
      else if y <? x then y :: merge_fuel f L R'
      else x :: merge_fuel f L' R'
    end
  end.
Definition union_spec (L R : list Z) : list Z := merge_fuel (length L + length R) L R.

(* k-way: fold of the binary union *)
Definition union_many_spec (Ls : list (list Z)) : list Z := fold_left union_spec Ls [].
