(* Base/SortedFacts.v — lemmas about Base/Sorted.v (shared). *)
From Coq Require Import ZArith List Bool Lia.
From Catii Require Import Base.Sorted.
Import ListNotations.
Open Scope Z_scope.

(* ---- membership test ---- *)
Lemma memZ_In x l : memZ x l = true <-> In x l.
Proof.
  unfold memZ. rewrite existsb_exists. split.
  - intros [y [Hy E]]. apply Z.eqb_eq in E. subst y. exact Hy.
  - intros H. exists x. split; [exact H | apply Z.eqb_refl].
Qed.

Lemma memZ_false x l : memZ x l = false <-> ~ In x l.
Proof.
  rewrite <- memZ_In. destruct (memZ x l); split; intro H.
  - discriminate H.
  - exfalso. apply H. reflexivity.
  - intro H'. discriminate H'.
  - reflexivity.
Qed.

(* ---- boolean checkers vs. Prop ---- *)
Lemma sincr_b_iff l : sincr_b l = true <-> sincr l.
Proof.
  induction l as [|x l IH]; cbn [sincr sincr_b].
  - split; auto.
  - rewrite andb_true_iff, IH. destruct l as [|y l'].
    + intuition auto.
    + rewrite Z.ltb_lt. reflexivity.
Qed.

Lemma all_u32_b_iff l : all_u32_b l = true <-> all_u32 l.
Proof.
  unfold all_u32_b, all_u32. rewrite forallb_forall, Forall_forall.
  split; intros H x Hx; specialize (H x Hx); unfold in_u32 in *.
  - apply andb_true_iff in H. destruct H as [H1 H2].
    apply Z.leb_le in H1. apply Z.ltb_lt in H2. split; assumption.
  - apply andb_true_iff. split; [apply Z.leb_le | apply Z.ltb_lt]; apply H.
Qed.

(* ---- sincr: cons characterisation and structural consequences ---- *)
Lemma sincr_cons_iff x l : sincr (x :: l) <-> (forall y, In y l -> x < y) /\ sincr l.
Proof.
  revert x. induction l as [|a l IH]; intro x.
  - cbn [sincr]. split.
    + intros _. split; [intros y [] | exact I].
    + intros _. split; exact I.
  - change (sincr (x :: a :: l)) with (x < a /\ sincr (a :: l)). split.
    + intros [H1 H2]. split; [|exact H2].
      intros y [<-|Hy]; [exact H1|].
      apply IH in H2. destruct H2 as [H2 _]. specialize (H2 y Hy). lia.
    + intros [H1 H2]. split; [apply H1; left; reflexivity | exact H2].
Qed.

Lemma sincr_tail x l : sincr (x :: l) -> sincr l.
Proof. intro H. apply sincr_cons_iff in H. apply H. Qed.

Lemma sincr_head_lt x l : sincr (x :: l) -> forall y, In y l -> x < y.
Proof. intro H. apply sincr_cons_iff in H. apply H. Qed.

Lemma sincr_cons x l : (forall y, In y l -> x < y) -> sincr l -> sincr (x :: l).
Proof. intros H1 H2. apply sincr_cons_iff. split; assumption. Qed.

Lemma sincr_app a b :
  sincr a -> sincr b -> (forall x y, In x a -> In y b -> x < y) -> sincr (a ++ b).
Proof.
  induction a as [|x a IH]; intros Ha Hb H; cbn [app].
  - exact Hb.
  - apply sincr_cons_iff in Ha. destruct Ha as [Hx Ha].
    apply sincr_cons_iff. split.
    + intros y Hy. apply in_app_or in Hy. destruct Hy as [Hy|Hy].
      * apply Hx. exact Hy.
      * apply H; [left; reflexivity | exact Hy].
    + apply IH; [exact Ha | exact Hb |].
      intros u v Hu Hv. apply H; [right; exact Hu | exact Hv].
Qed.

Lemma sincr_app_inv a b :
  sincr (a ++ b) -> sincr a /\ sincr b /\ (forall x y, In x a -> In y b -> x < y).
Proof.
  induction a as [|x a IH]; cbn [app]; intro H.
  - split; [exact I | split; [exact H | intros x y []]].
  - apply sincr_cons_iff in H. destruct H as [Hx H].
    apply IH in H. destruct H as (Ha & Hb & Hab).
    split; [|split].
    + apply sincr_cons_iff. split; [|exact Ha].
      intros y Hy. apply Hx. apply in_or_app. left. exact Hy.
    + exact Hb.
    + intros u v [<-|Hu] Hv.
      * apply Hx. apply in_or_app. right. exact Hv.
      * apply Hab; assumption.
Qed.

Lemma sincr_skipn n l : sincr l -> sincr (skipn n l).
Proof.
  intro H. rewrite <- (firstn_skipn n l) in H.
  apply sincr_app_inv in H. apply H.
Qed.

Lemma sincr_firstn n l : sincr l -> sincr (firstn n l).
Proof.
  intro H. rewrite <- (firstn_skipn n l) in H.
  apply sincr_app_inv in H. apply H.
Qed.

Lemma sincr_filter (f : Z -> bool) l : sincr l -> sincr (filter f l).
Proof.
  induction l as [|a l IH]; cbn [filter]; intro H.
  - exact I.
  - apply sincr_cons_iff in H. destruct H as [Hx H].
    destruct (f a).
    + apply sincr_cons_iff. split; [|apply IH; exact H].
      intros y Hy. apply filter_In in Hy. apply Hx. apply Hy.
    + apply IH. exact H.
Qed.

Lemma sincr_NoDup l : sincr l -> NoDup l.
Proof.
  induction l as [|a l IH]; intro H; constructor.
  - intro Hin. apply sincr_cons_iff in H. destruct H as [Hx _].
    specialize (Hx _ Hin). lia.
  - apply IH. apply (sincr_tail a). exact H.
Qed.

(* ---- sincr lists are canonical representatives of finite sets ---- *)
Lemma sincr_ext a b : sincr a -> sincr b -> (forall x, In x a <-> In x b) -> a = b.
Proof.
  revert b. induction a as [|x a IH]; intros [|y b] Ha Hb H.
  - reflexivity.
  - destruct (proj2 (H y) (or_introl eq_refl)).
  - destruct (proj1 (H x) (or_introl eq_refl)).
  - apply sincr_cons_iff in Ha. destruct Ha as [Hx Ha].
    apply sincr_cons_iff in Hb. destruct Hb as [Hy Hb].
    assert (E : x = y).
    { destruct (proj1 (H x) (or_introl eq_refl)) as [E|E]; [symmetry; exact E|].
      destruct (proj2 (H y) (or_introl eq_refl)) as [E'|E']; [exact E'|].
      specialize (Hx _ E'). specialize (Hy _ E). lia. }
    subst y. f_equal. apply IH; [exact Ha | exact Hb |].
    intro z. split; intro Hz.
    + destruct (proj1 (H z) (or_intror Hz)) as [E|E]; [|exact E].
      subst z. specialize (Hx _ Hz). lia.
    + destruct (proj2 (H z) (or_intror Hz)) as [E|E]; [|exact E].
      subst z. specialize (Hy _ Hz). lia.
Qed.

(* ---- sincr: reversed accumulators, last element, indexing ---- *)
Lemma sincr_rev_cons x o :
  sincr (rev o) -> (forall y, In y o -> y < x) -> sincr (rev (x :: o)).
Proof.
  intros H1 H2. cbn [rev]. apply sincr_app.
  - exact H1.
  - cbn [sincr]. split; exact I.
  - intros u v Hu [<-|[]]. apply H2. apply in_rev. exact Hu.
Qed.

Lemma sincr_last_max l d : sincr l -> forall y, In y l -> y <= last l d.
Proof.
  induction l as [|x l IH]; intros H y Hy.
  - destruct Hy.
  - apply sincr_cons_iff in H. destruct H as [Hx H].
    destruct l as [|z l'].
    + cbn [last]. destruct Hy as [<-|[]]. lia.
    + change (last (x :: z :: l') d) with (last (z :: l') d).
      destruct Hy as [<-|Hy].
      * specialize (IH H z (or_introl eq_refl)).
        specialize (Hx z (or_introl eq_refl)). lia.
      * apply IH; assumption.
Qed.

Lemma sincr_nth_lt l i j d :
  sincr l -> (i < j < length l)%nat -> nth i l d < nth j l d.
Proof.
  revert i j. induction l as [|x l IH]; intros i j H Hij.
  - cbn [length] in Hij. lia.
  - apply sincr_cons_iff in H. destruct H as [Hx H].
    cbn [length] in Hij.
    destruct j as [|j]; [lia|].
    destruct i as [|i]; cbn [nth].
    + apply Hx. apply nth_In. lia.
    + apply IH; [exact H | lia].
Qed.

(* ---- intersection and difference specs ---- *)
Lemma inter_spec_In x L R : In x (inter_spec L R) <-> In x L /\ In x R.
Proof. unfold inter_spec. rewrite filter_In, memZ_In. reflexivity. Qed.

Lemma diff_spec_In x L R : In x (diff_spec L R) <-> In x L /\ ~ In x R.
Proof.
  unfold diff_spec. rewrite filter_In, negb_true_iff, memZ_false. reflexivity.
Qed.

Lemma inter_spec_sincr L R : sincr L -> sincr (inter_spec L R).
Proof. apply sincr_filter. Qed.

Lemma diff_spec_sincr L R : sincr L -> sincr (diff_spec L R).
Proof. apply sincr_filter. Qed.

Lemma inter_spec_nil_r L : inter_spec L [] = [].
Proof.
  unfold inter_spec, memZ. induction L as [|a L IH]; cbn [filter existsb].
  - reflexivity.
  - exact IH.
Qed.

Lemma diff_spec_nil_r L : diff_spec L [] = L.
Proof.
  unfold diff_spec, memZ. induction L as [|a L IH]; cbn [filter existsb negb].
  - reflexivity.
  - f_equal. exact IH.
Qed.

Lemma inter_spec_all_u32 L R : all_u32 L -> all_u32 (inter_spec L R).
Proof.
  unfold all_u32. rewrite !Forall_forall. intros H x Hx.
  apply inter_spec_In in Hx. apply H. apply Hx.
Qed.

Lemma diff_spec_all_u32 L R : all_u32 L -> all_u32 (diff_spec L R).
Proof.
  unfold all_u32. rewrite !Forall_forall. intros H x Hx.
  apply diff_spec_In in Hx. apply H. apply Hx.
Qed.

(* ---- union: fuel independence and the three defining equations ---- *)
Lemma merge_fuel_indep f1 : forall f2 L R,
  (length L + length R <= f1)%nat -> (length L + length R <= f2)%nat ->
  merge_fuel f1 L R = merge_fuel f2 L R.
Proof.
  induction f1 as [|f1 IH]; intros f2 L R H1 H2.
  - destruct L, R; cbn [length] in H1; try lia. destruct f2; reflexivity.
  - destruct f2 as [|f2].
    + destruct L, R; cbn [length] in H2; try lia. reflexivity.
    + destruct L as [|x L], R as [|y R]; cbn [merge_fuel]; try reflexivity.
      cbn [length] in H1, H2.
      destruct (x <? y); [|destruct (y <? x)]; f_equal; apply IH; cbn [length]; lia.
Qed.

Lemma merge_fuel_enough f L R :
  (length L + length R <= f)%nat -> merge_fuel f L R = union_spec L R.
Proof. intro H. unfold union_spec. apply merge_fuel_indep; lia. Qed.

Lemma union_spec_nil_l R : union_spec [] R = R.
Proof. destruct R; reflexivity. Qed.

Lemma union_spec_nil_r L : union_spec L [] = L.
Proof. destruct L; reflexivity. Qed.

Lemma union_spec_cons x L y R :
  union_spec (x :: L) (y :: R) =
  if x <? y then x :: union_spec L (y :: R)
  else if y <? x then y :: union_spec (x :: L) R
  else x :: union_spec L R.
Proof.
  change (union_spec (x :: L) (y :: R))
    with (merge_fuel (S (length L + S (length R))) (x :: L) (y :: R)).
  cbn [merge_fuel].
  destruct (x <? y); [|destruct (y <? x)]; f_equal;
    apply merge_fuel_enough; cbn [length]; lia.
Qed.

(* From here on union_spec is used only through the three equations above. *)
Local Opaque union_spec.

(* ---- union: membership, sortedness, size, range ---- *)
Lemma union_spec_In x L R : In x (union_spec L R) <-> In x L \/ In x R.
Proof.
  revert R. induction L as [|a L IHL]; intro R.
  - rewrite union_spec_nil_l. cbn [In]. tauto.
  - induction R as [|b R IHR].
    + rewrite union_spec_nil_r. cbn [In]. tauto.
    + rewrite union_spec_cons.
      destruct (a <? b) eqn:E1; [|destruct (b <? a) eqn:E2].
      * cbn [In]. rewrite IHL. cbn [In]. tauto.
      * change (In x (b :: union_spec (a :: L) R))
          with (b = x \/ In x (union_spec (a :: L) R)).
        rewrite IHR. cbn [In]. tauto.
      * assert (a = b) by lia. subst b.
        cbn [In]. rewrite IHL. tauto.
Qed.

Lemma union_spec_sincr L R : sincr L -> sincr R -> sincr (union_spec L R).
Proof.
  revert R. induction L as [|a L IHL]; intros R HL HR.
  - rewrite union_spec_nil_l. exact HR.
  - induction R as [|b R IHR].
    + rewrite union_spec_nil_r. exact HL.
    + rewrite union_spec_cons.
      pose proof HL as HL'. apply sincr_cons_iff in HL'. destruct HL' as [Ha HL'].
      pose proof HR as HR'. apply sincr_cons_iff in HR'. destruct HR' as [Hb HR'].
      destruct (a <? b) eqn:E1; [|destruct (b <? a) eqn:E2].
      * apply sincr_cons_iff. split; [|apply IHL; assumption].
        intros y Hy. apply union_spec_In in Hy.
        destruct Hy as [Hy|[<-|Hy]].
        -- apply Ha. exact Hy.
        -- lia.
        -- specialize (Hb _ Hy). lia.
      * apply sincr_cons_iff. split; [|apply IHR; assumption].
        intros y Hy. apply union_spec_In in Hy.
        destruct Hy as [[<-|Hy]|Hy].
        -- lia.
        -- specialize (Ha _ Hy). lia.
        -- apply Hb. exact Hy.
      * assert (a = b) by lia. subst b.
        apply sincr_cons_iff. split; [|apply IHL; assumption].
        intros y Hy. apply union_spec_In in Hy.
        destruct Hy as [Hy|Hy]; [apply Ha | apply Hb]; exact Hy.
Qed.

Lemma union_spec_length L R : (length (union_spec L R) <= length L + length R)%nat.
Proof.
  revert R. induction L as [|a L IHL]; intro R.
  - rewrite union_spec_nil_l. cbn [length]. lia.
  - induction R as [|b R IHR].
    + rewrite union_spec_nil_r. lia.
    + rewrite union_spec_cons.
      destruct (a <? b); [|destruct (b <? a)].
      * specialize (IHL (b :: R)). cbn [length] in *. lia.
      * cbn [length] in *. lia.
      * specialize (IHL R). cbn [length] in *. lia.
Qed.

Lemma union_spec_all_u32 L R : all_u32 L -> all_u32 R -> all_u32 (union_spec L R).
Proof.
  unfold all_u32. rewrite !Forall_forall. intros HL HR x Hx.
  apply union_spec_In in Hx. destruct Hx as [Hx|Hx]; [apply HL | apply HR]; exact Hx.
Qed.

(* ---- union: disjoint ranges and commutativity (via canonicity) ---- *)
Lemma union_spec_below L R :
  sincr L -> sincr R -> (forall x y, In x L -> In y R -> x < y) ->
  union_spec L R = L ++ R.
Proof.
  intros HL HR H. apply sincr_ext.
  - apply union_spec_sincr; assumption.
  - apply sincr_app; assumption.
  - intro x. rewrite union_spec_In, in_app_iff. reflexivity.
Qed.

Lemma union_spec_above L R :
  sincr L -> sincr R -> (forall x y, In x L -> In y R -> y < x) ->
  union_spec L R = R ++ L.
Proof.
  intros HL HR H. apply sincr_ext.
  - apply union_spec_sincr; assumption.
  - apply sincr_app; [exact HR | exact HL |].
    intros u v Hu Hv. apply H; assumption.
  - intro x. rewrite union_spec_In, in_app_iff. tauto.
Qed.

Lemma union_spec_comm L R : sincr L -> sincr R -> union_spec L R = union_spec R L.
Proof.
  intros HL HR. apply sincr_ext.
  - apply union_spec_sincr; assumption.
  - apply union_spec_sincr; assumption.
  - intro x. rewrite !union_spec_In. tauto.
Qed.

(* ---- k-way union (fold_left with generalised accumulator) ---- *)
Lemma fold_union_In x Ls : forall acc,
  In x (fold_left union_spec Ls acc) <-> In x acc \/ exists L, In L Ls /\ In x L.
Proof.
  induction Ls as [|L Ls IH]; intro acc; cbn [fold_left].
  - split; [auto|]. intros [H|[L [[] _]]]. exact H.
  - rewrite IH, union_spec_In. split.
    + intros [[H|H]|[L' [H1 H2]]].
      * left. exact H.
      * right. exists L. split; [left; reflexivity | exact H].
      * right. exists L'. split; [right; exact H1 | exact H2].
    + intros [H|[L' [[<-|H1] H2]]].
      * left. left. exact H.
      * left. right. exact H2.
      * right. exists L'. split; assumption.
Qed.

Lemma fold_union_sincr Ls : forall acc,
  sincr acc -> Forall sincr Ls -> sincr (fold_left union_spec Ls acc).
Proof.
  induction Ls as [|L Ls IH]; intros acc Ha HF; cbn [fold_left].
  - exact Ha.
  - inversion HF as [|? ? HL HLs]; subst.
    apply IH; [apply union_spec_sincr; assumption | exact HLs].
Qed.

Lemma fold_union_all_u32 Ls : forall acc,
  all_u32 acc -> Forall all_u32 Ls -> all_u32 (fold_left union_spec Ls acc).
Proof.
  induction Ls as [|L Ls IH]; intros acc Ha HF; cbn [fold_left].
  - exact Ha.
  - inversion HF as [|? ? HL HLs]; subst.
    apply IH; [apply union_spec_all_u32; assumption | exact HLs].
Qed.

Lemma union_many_spec_In x Ls :
  In x (union_many_spec Ls) <-> exists L, In L Ls /\ In x L.
Proof.
  unfold union_many_spec. rewrite fold_union_In. cbn [In]. tauto.
Qed.

Lemma union_many_spec_sincr Ls : Forall sincr Ls -> sincr (union_many_spec Ls).
Proof. intro H. apply fold_union_sincr; [exact I | exact H]. Qed.

Lemma union_many_spec_all_u32 Ls : Forall all_u32 Ls -> all_u32 (union_many_spec Ls).
Proof. intro H. apply fold_union_all_u32; [constructor | exact H]. Qed.

Lemma union_many_spec_unique Ls r :
  Forall sincr Ls -> sincr r ->
  (forall x, In x r <-> exists L, In L Ls /\ In x L) ->
  r = union_many_spec Ls.
Proof.
  intros HF Hr H. apply sincr_ext.
  - exact Hr.
  - apply union_many_spec_sincr. exact HF.
  - intro x. rewrite H, union_many_spec_In. reflexivity.
Qed.
