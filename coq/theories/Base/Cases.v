(* Support for the correspondence check: the harness writes a list of cases,
   [failing_idx chk 0 cases] is evaluated with vm_compute and printed between two markers. *)
From Coq Require Import ZArith List Bool.
Import ListNotations.

Inductive marker := MARK_BEGIN | MARK_END.

Fixpoint failing_idx {A : Type} (chk : A -> bool) (i : nat) (cs : list A) : list nat :=
  match cs with
  | [] => []
  | c :: cs' => if chk c then failing_idx chk (S i) cs' else i :: failing_idx chk (S i) cs'
  end.

Fixpoint zlist_eqb (a b : list Z) : bool :=
  match a, b with
  | [], [] => true
  | x :: a', y :: b' => Z.eqb x y && zlist_eqb a' b'
  | _, _ => false
  end.

Fixpoint list_eqb {A : Type} (eqb : A -> A -> bool) (a b : list A) : bool :=
  match a, b with
  | [], [] => true
  | x :: a', y :: b' => eqb x y && list_eqb eqb a' b'
  | _, _ => false
  end.

Definition option_eqb {A : Type} (eqb : A -> A -> bool) (a b : option A) : bool :=
  match a, b with
  | None, None => true
  | Some x, Some y => eqb x y
  | _, _ => false
  end.

Definition pair_eqb {A B : Type} (ea : A -> A -> bool) (eb : B -> B -> bool) (a b : A * B) : bool :=
  ea (fst a) (fst b) && eb (snd a) (snd b).
