(* Conc/Pool.v - the model of multiprocessing.pool.ThreadPool.map used by calculate in pooled
   mode (definitions only).  Transcribed from CPython 3.12 multiprocessing/pool.py:

     _map_async : chunksize, extra = divmod(len(iterable), len(self._pool) * 4)
                  if extra: chunksize += 1
     _get_tasks : consecutive batches of `chunksize` items
     mapstar    : list(map(fn, batch))  - a raising item aborts the REST OF ITS BATCH
     worker     : every batch is executed whatever happens to the others
     MapResult._set : "only store first exception" - the first failed batch TO ARRIVE at the
                  result handler; the result is ready only once all batches are done; get()
                  re-raises the stored exception.

   Arrival order is a property of the schedule, so the re-raised exception is ANY one of the
   exceptions raised (when the batches finish in index order it is the one of the lowest chunk
   index).  The pool itself is modelled, not verified (trusted base); harness/sched.py replaces it
   by a deterministic pool with exactly this behaviour and harness/props/c20.py checks the real
   ThreadPool against the same model in the thorough tier. *)
From Coq Require Import List Arith.
Import ListNotations.

(* ceil (n / (4 p)) as pool.py computes it *)
Definition chunksize (n p : nat) : nat :=
  n / (4 * p) + (if n mod (4 * p) =? 0 then 0 else 1).

Fixpoint chunk_fuel {A : Type} (fuel c : nat) (l : list A) : list (list A) :=
  match fuel with
  | O => []
  | S f =>
      match l with
      | [] => []
      | _ :: _ => firstn c l :: chunk_fuel f c (skipn c l)
      end
  end.

(* consecutive batches of c items (fuel = length: every batch removes at least one item) *)
Definition chunks {A : Type} (c : nat) (l : list A) : list (list A) := chunk_fuel (length l) c l.

Definition pool_chunks {A : Type} (poolsize : nat) (l : list A) : list (list A) :=
  chunks (chunksize (length l) poolsize) l.

Fixpoint set_nth {A : Type} (j : nat) (x : A) (l : list A) : list A :=
  match l, j with
  | [], _ => []
  | _ :: l', O => x :: l'
  | y :: l', S j' => y :: set_nth j' x l'
  end.

(* the schedule that lets batch 0 run to its end, then batch 1, ... (each batch is picked as
   many times as it has items) *)
Definition in_order_schedule {A : Type} (chunking : list (list A)) : list nat :=
  flat_map (fun j => repeat j (length (nth j chunking []))) (seq 0 (length chunking)).
