(* Conc/ConcProofs.v - proofs about the shared-store / interleaving model (C16) and the
   interrupt state machine (C20). *)
From Coq Require Import ZArith List Bool Lia Arith Permutation.
From Catii Require Import Base.Cases Conc.Interleave Conc.Pool Conc.Interrupt.
Import ListNotations.

(* ------------------------------------------------------------------ *)
(* cells                                                               *)
(* ------------------------------------------------------------------ *)

Lemma zlist_eqb_eq : forall a b, zlist_eqb a b = true <-> a = b.
Proof.
  induction a as [|x a IH]; destruct b as [|y b]; cbn [zlist_eqb]; split; intro H;
    try reflexivity; try discriminate.
  - apply andb_true_iff in H. destruct H as [H1 H2]. apply Z.eqb_eq in H1. apply IH in H2. congruence.
  - inversion H; subst. apply andb_true_iff. split. apply Z.eqb_refl. apply IH. reflexivity.
Qed.

Lemma cell_eqb_eq : forall a b : cell, cell_eqb a b = true <-> a = b.
Proof.
  intros [r c] [r' c']. unfold cell_eqb. cbn [fst snd]. rewrite andb_true_iff, Z.eqb_eq, zlist_eqb_eq.
  split. intros [-> ->]. reflexivity. intro H; inversion H; auto.
Qed.

Lemma cell_eqb_neq : forall a b : cell, cell_eqb a b = false <-> a <> b.
Proof.
  intros a b. split.
  - intros H E. apply cell_eqb_eq in E. congruence.
  - intro H. destruct (cell_eqb a b) eqn:E; auto. apply cell_eqb_eq in E. contradiction.
Qed.

(* ------------------------------------------------------------------ *)
(* generic list facts                                                  *)
(* ------------------------------------------------------------------ *)

Lemma concat_all_nil : forall (A : Type) (ts : list (list A)),
  Forall (fun t => t = []) ts -> concat ts = [].
Proof. induction 1; cbn [concat]. reflexivity. subst. assumption. Qed.

Lemma app_eq_len : forall (A : Type) (a a' b b' : list A),
  length a = length a' -> a ++ b = a' ++ b' -> a = a'.
Proof.
  induction a as [|x a IH]; destruct a' as [|y a']; cbn; intros b b' L E; try discriminate; auto.
  inversion E; subst. f_equal. eapply IH; eauto.
Qed.

Lemma NoDup_app_intro : forall (A : Type) (a b : list A),
  NoDup a -> NoDup b -> (forall x, In x a -> ~ In x b) -> NoDup (a ++ b).
Proof.
  induction a as [|x a IH]; cbn; intros b Ha Hb H. assumption.
  inversion Ha; subst. constructor.
  - rewrite in_app_iff. intros [K|K]. contradiction. apply (H x); auto.
  - apply IH; auto.
Qed.

Lemma Forall2_nth_both : forall (A B : Type) (P : A -> B -> Prop) l l' d d',
  Forall2 P l l' -> forall i, i < length l -> P (nth i l d) (nth i l' d').
Proof.
  induction 1; cbn; intros i Hi. lia. destruct i. assumption. apply IHForall2. lia.
Qed.

Lemma Forall2_len : forall (A B : Type) (P : A -> B -> Prop) l l',
  Forall2 P l l' -> length l = length l'.
Proof. induction 1; cbn; congruence. Qed.

Lemma nth_split_eq : forall (A : Type) (l : list A) j d,
  j < length l -> l = firstn j l ++ nth j l d :: skipn (S j) l.
Proof.
  induction l as [|x l IH]; cbn; intros j d H. lia.
  destruct j; cbn. reflexivity. f_equal. apply IH. lia.
Qed.

(* ------------------------------------------------------------------ *)
(* interleavings                                                       *)
(* ------------------------------------------------------------------ *)

Lemma interleave_cons_nil : forall (A : Type) (ts : list (list A)) tr,
  interleave ts tr -> interleave ([] :: ts) tr.
Proof.
  induction 1.
  - apply il_done. constructor; auto.
  - apply (il_step ([] :: ts1)). exact IHinterleave.
Qed.

(* the serial order is one of the schedules *)
Lemma interleave_concat : forall (A : Type) (ts : list (list A)), interleave ts (concat ts).
Proof.
  induction ts as [|t ts IH]; cbn [concat].
  - apply il_done. constructor.
  - induction t as [|x t IHt]; cbn [app].
    + apply interleave_cons_nil. exact IH.
    + apply (il_step [] x t ts). exact IHt.
Qed.

(* every schedule given as a list of task numbers is one of the schedules *)
Lemma merge_by_interleave : forall (A : Type) sched (ts : list (list A)),
  interleave ts (merge_by sched ts).
Proof.
  induction sched as [|j sched IH]; intro ts; cbn [merge_by].
  - apply interleave_concat.
  - destruct (nth j ts []) as [|x t] eqn:E.
    + apply IH.
    + assert (Hj : j < length ts).
      { destruct (Nat.lt_ge_cases j (length ts)); auto. rewrite nth_overflow in E by lia. discriminate. }
      pose proof (nth_split_eq _ ts j [] Hj) as Sp. rewrite E in Sp.
      remember (firstn j ts) as ts1. remember (skipn (S j) ts) as ts2.
      rewrite Sp at 1. apply il_step. apply IH.
Qed.

(* dropping the non-write events of every task commutes with interleaving *)
Lemma interleave_map_filter : forall (A B : Type) (f : A -> list B) (ts : list (list A)) tr,
  interleave ts tr -> interleave (map (flat_map f) ts) (flat_map f tr).
Proof.
  induction 1.
  - cbn. apply il_done. apply Forall_forall. intros t Ht. apply in_map_iff in Ht.
    destruct Ht as [u [<- Hu]]. rewrite Forall_forall in H. rewrite (H u Hu). reflexivity.
  - rewrite map_app in *. cbn [map flat_map] in *.
    induction (f x) as [|y l IHl]; cbn [app].
    + exact IHinterleave.
    + apply il_step. exact IHl.
Qed.

Section StoreProofs.
  Variable V : Type.
  Notation write := (write V).

  (* the last value written to cell c by a trace *)
  Fixpoint lastw (c : cell) (tr : list write) : option V :=
    match tr with
    | [] => None
    | w :: tr' =>
        match lastw c tr' with
        | Some v => Some v
        | None => if cell_eqb c (w_cell w) then Some (w_val w) else None
        end
    end.

  Lemma run_cons : forall w tr (s : store V), run (w :: tr) s = run tr (apply_write s w).
  Proof. reflexivity. Qed.

  Lemma run_app : forall a b (s : store V), run (a ++ b) s = run b (run a s).
  Proof. intros. unfold run. apply fold_left_app. Qed.

  Lemma run_get : forall tr (s : store V) c,
    run tr s c = match lastw c tr with Some v => v | None => s c end.
  Proof.
    induction tr as [|w tr IH]; intros s c.
    - reflexivity.
    - rewrite run_cons, IH. cbn [lastw]. destruct (lastw c tr); auto.
      unfold apply_write, set. destruct (cell_eqb c (w_cell w)); auto.
  Qed.

  Lemma lastw_app : forall c a b,
    lastw c (a ++ b) = match lastw c b with Some v => Some v | None => lastw c a end.
  Proof.
    induction a as [|w a IH]; intro b; cbn [app lastw].
    - destruct (lastw c b); reflexivity.
    - rewrite IH. destruct (lastw c b); reflexivity.
  Qed.

  Lemma lastw_none : forall c tr, ~ In c (cells tr) -> lastw c tr = None.
  Proof.
    induction tr as [|w tr IH]; cbn [lastw cells map]; intro H. reflexivity.
    rewrite IH by (intro K; apply H; right; exact K).
    destruct (cell_eqb c (w_cell w)) eqn:E; auto. apply cell_eqb_eq in E. exfalso. apply H. left. auto.
  Qed.

  Lemma lastw_concat_none : forall c (ts : list (list write)),
    (forall t, In t ts -> ~ In c (cells t)) -> lastw c (concat ts) = None.
  Proof.
    intros c ts H. apply lastw_none. unfold cells. intro K. apply in_map_iff in K.
    destruct K as [w [Hw Hin]]. apply in_concat in Hin. destruct Hin as [t [Ht Hwt]].
    apply (H t Ht). unfold cells. apply in_map_iff. exists w. auto.
  Qed.

  Lemma nth_pop_incl : forall (ts1 ts2 : list (list write)) x t i c,
    In c (cells (nth i (ts1 ++ t :: ts2) [])) -> In c (cells (nth i (ts1 ++ (x :: t) :: ts2) [])).
  Proof.
    intros ts1 ts2 x t i c H.
    destruct (lt_eq_lt_dec i (length ts1)) as [[Hlt|Heq]|Hgt].
    - rewrite app_nth1 in * by lia. exact H.
    - subst i. rewrite nth_middle in *. cbn [cells map]. right. exact H.
    - rewrite app_nth2 in * by lia. destruct (i - length ts1) eqn:E. lia. cbn [nth] in *. exact H.
  Qed.

  Lemma pd_pop : forall (ts1 ts2 : list (list write)) x t,
    pairwise_disjoint (ts1 ++ (x :: t) :: ts2) -> pairwise_disjoint (ts1 ++ t :: ts2).
  Proof.
    intros ts1 ts2 x t H i j Hij c Hc Hc'.
    apply (H i j Hij c); apply nth_pop_incl; assumption.
  Qed.

  Lemma pd_earlier : forall (ts1 ts2 : list (list write)) u t' c,
    pairwise_disjoint (ts1 ++ u :: ts2) -> In c (cells u) -> In t' ts1 -> ~ In c (cells t').
  Proof.
    intros ts1 ts2 u t' c H Hc Ht' K.
    destruct (In_nth _ _ [] Ht') as [i [Hi Hn]].
    assert (Hij : i <> length ts1) by lia.
    apply (H i (length ts1) Hij c).
    - rewrite app_nth1 by lia. rewrite Hn. exact K.
    - rewrite nth_middle. exact Hc.
  Qed.

  Lemma interleave_lastw : forall (ts : list (list write)) tr,
    interleave ts tr -> pairwise_disjoint ts -> forall c, lastw c tr = lastw c (concat ts).
  Proof.
    induction 1 as [ts Hall | ts1 x t ts2 tr Hil IH]; intros PD c.
    - rewrite (concat_all_nil _ _ Hall). reflexivity.
    - specialize (IH (pd_pop _ _ _ _ PD) c).
      cbn [lastw]. rewrite IH.
      rewrite !concat_app. cbn [concat]. rewrite !lastw_app.
      cbn [lastw].
      destruct (lastw c (concat ts2)) as [v|]; [reflexivity|].
      destruct (lastw c t) as [v|]; [reflexivity|].
      destruct (cell_eqb c (w_cell x)) eqn:E.
      + apply cell_eqb_eq in E.
        rewrite (lastw_concat_none c ts1). reflexivity.
        intros t' Ht'. apply (pd_earlier ts1 ts2 (x :: t) t' c PD); auto.
        cbn [cells map]. left. auto.
      + destruct (lastw c (concat ts1)); reflexivity.
  Qed.

  (* C16, core: every schedule leaves the shared store exactly as the serial order does *)
  Theorem interleave_serial : forall (ts : list (list write)) tr,
    pairwise_disjoint ts -> interleave ts tr ->
    forall (s : store V) c, run tr s c = run (concat ts) s c.
  Proof.
    intros ts tr PD H s c. rewrite !run_get. rewrite (interleave_lastw ts tr H PD c). reflexivity.
  Qed.

  Lemma snapshot_ext : forall cs (s s' : store V), (forall c, s c = s' c) -> snapshot cs s = snapshot cs s'.
  Proof. intros. unfold snapshot. apply map_ext. auto. Qed.

  (* ---- footprints ---- *)

  Lemma prefix_disjoint : forall p p' (t t' : list write),
    length p = length p' -> p <> p' -> prefixed p t -> prefixed p' t' ->
    disjoint (cells t) (cells t').
  Proof.
    intros p p' t t' L N Hp Hp' c Hc Hc'.
    unfold cells in *. apply in_map_iff in Hc. apply in_map_iff in Hc'.
    destruct Hc as [w [Ew Hw]]. destruct Hc' as [w' [Ew' Hw']].
    destruct (Hp w Hw) as [i Ei]. destruct (Hp' w' Hw') as [i' Ei'].
    rewrite Ew in Ei. rewrite Ew' in Ei'. rewrite Ei in Ei'.
    apply N. eapply app_eq_len; eauto.
  Qed.

  (* tasks whose blocks are selected by distinct coordinates of one common length *)
  Theorem footprint_disjoint : forall (ps : list (list Z)) (ts : list (list write)) n,
    Forall2 (@prefixed V) ps ts -> NoDup ps -> (forall p, In p ps -> length p = n) ->
    forall j j', j <> j' -> disjoint (cells (nth j ts [])) (cells (nth j' ts [])).
  Proof.
    intros ps ts n F ND Len j j' Hjj.
    pose proof (Forall2_len _ _ _ _ _ F) as EL.
    destruct (Nat.lt_ge_cases j (length ts)) as [Hj|Hj].
    2:{ rewrite (nth_overflow ts) by lia. intros c []. }
    destruct (Nat.lt_ge_cases j' (length ts)) as [Hj'|Hj'].
    2:{ rewrite (nth_overflow ts [] Hj'). intros c _ []. }
    apply (prefix_disjoint (nth j ps []) (nth j' ps [])).
    - rewrite (Len (nth j ps [])), (Len (nth j' ps [])); auto; apply nth_In; lia.
    - intro E. apply Hjj. apply (proj1 (NoDup_nth ps []) ND); auto; lia.
    - apply (Forall2_nth_both _ _ _ ps ts [] [] F). lia.
    - apply (Forall2_nth_both _ _ _ ps ts [] [] F). lia.
  Qed.

  Corollary footprint_pairwise : forall (ps : list (list Z)) (ts : list (list write)) n,
    Forall2 (@prefixed V) ps ts -> NoDup ps -> (forall p, In p ps -> length p = n) ->
    pairwise_disjoint ts.
  Proof. intros ps ts n F ND Len i j Hij. eapply footprint_disjoint; eauto. Qed.

  (* ---- the full machine: the store component ignores the counter events ---- *)

  Lemma exec_store : forall (tr : list (event V)) st,
    m_store (exec tr st) = run (writes_of tr) (m_store st).
  Proof.
    induction tr as [|e tr IH]; intro st.
    - reflexivity.
    - change (exec (e :: tr) st) with (exec tr (step st e)). rewrite IH.
      unfold writes_of. cbn [flat_map]. fold (writes_of tr). unfold step.
      destruct (e_act e); reflexivity.
  Qed.

  Lemma interleave_writes_of : forall (ts : list (list (event V))) tr,
    interleave ts tr -> interleave (map (@writes_of V) ts) (writes_of tr).
  Proof. intros. unfold writes_of. apply interleave_map_filter. assumption. Qed.

  Lemma writes_of_concat : forall (ts : list (list (event V))),
    writes_of (concat ts) = concat (map (@writes_of V) ts).
  Proof.
    induction ts as [|t ts IH]; cbn [concat map]. reflexivity.
    unfold writes_of in *. rewrite flat_map_app. rewrite IH. reflexivity.
  Qed.

  (* C16 for the full machine: whatever reduce computes from the regions is the same for every
     schedule, although the counter events are interleaved too *)
  Theorem schedule_independent : forall (ts : list (list (event V))) tr,
    pairwise_disjoint (map (@writes_of V) ts) -> interleave ts tr ->
    forall st (R : Type) cs (f : list V -> R),
      reduce_with cs f (m_store (exec tr st)) = reduce_with cs f (m_store (exec (concat ts) st)).
  Proof.
    intros ts tr PD H st R cs f. unfold reduce_with. f_equal. apply snapshot_ext. intro c.
    rewrite !exec_store. rewrite writes_of_concat.
    apply interleave_serial; auto. apply interleave_writes_of. exact H.
  Qed.
End StoreProofs.
Arguments lastw {V} _ _.

(* ---- product coordinates ---- *)

Lemma product_coords_length : forall sh p, In p (product_coords sh) -> length p = length sh.
Proof.
  induction sh as [|e sh IH]; cbn [product_coords]; intros p H.
  - destruct H as [<-|[]]. reflexivity.
  - apply in_flat_map in H. destruct H as [i [_ H]]. apply in_map_iff in H.
    destruct H as [q [<- Hq]]. cbn. f_equal. auto.
Qed.

Lemma NoDup_flat_map_cons : forall (ps : list (list Z)) (l : list nat),
  NoDup l -> NoDup ps ->
  NoDup (flat_map (fun i => map (cons (Z.of_nat i)) ps) l).
Proof.
  intros ps l Hl Hps. induction Hl as [|a l Ha Hl IH]; cbn [flat_map]. constructor.
  apply NoDup_app_intro.
  - apply FinFun.Injective_map_NoDup; auto. intros x y E. inversion E. reflexivity.
  - exact IH.
  - intros x Hx K. apply in_map_iff in Hx. destruct Hx as [q [<- _]].
    apply in_flat_map in K. destruct K as [i [Hi K]]. apply in_map_iff in K.
    destruct K as [q' [E _]]. inversion E. apply Nat2Z.inj in H0. subst. contradiction.
Qed.

Lemma product_coords_NoDup : forall sh, NoDup (product_coords sh).
Proof.
  induction sh as [|e sh IH]; cbn [product_coords].
  - constructor. intros []. constructor.
  - apply NoDup_flat_map_cons. apply seq_NoDup. exact IH.
Qed.


(* ------------------------------------------------------------------ *)
(* the pool's batches                                                  *)
(* ------------------------------------------------------------------ *)

Lemma chunk_fuel_concat : forall (A : Type) fuel c (l : list A),
  0 < c -> length l <= fuel -> concat (chunk_fuel fuel c l) = l.
Proof.
  induction fuel as [|f IH]; intros c l Hc Hl; cbn [chunk_fuel].
  - destruct l; cbn in Hl; [reflexivity|lia].
  - destruct l as [|x l']. reflexivity.
    cbn [concat]. rewrite IH; auto. apply firstn_skipn.
    rewrite skipn_length. cbn [length] in *. lia.
Qed.

Lemma chunks_concat : forall (A : Type) c (l : list A), 0 < c -> concat (chunks c l) = l.
Proof. intros. unfold chunks. apply chunk_fuel_concat; auto. Qed.

Lemma chunksize_pos : forall n p, 0 < n -> 0 < p -> 0 < chunksize n p.
Proof.
  intros n p Hn Hp. unfold chunksize.
  destruct (n mod (4 * p) =? 0) eqn:E; [|lia].
  apply Nat.eqb_eq in E. assert (H4 : 4 * p <> 0) by lia.
  pose proof (Nat.div_mod n (4 * p) H4) as D. rewrite E in D.
  destruct (n / (4 * p)); lia.
Qed.

(* the batches of ThreadPool(p).map are a partition of the items, in order *)
Lemma pool_chunks_concat : forall (A : Type) p (l : list A), 0 < p -> concat (pool_chunks p l) = l.
Proof.
  intros A p l Hp. unfold pool_chunks. destruct l as [|x l'].
  - reflexivity.
  - apply chunks_concat. apply chunksize_pos; cbn [length]; lia.
Qed.

Lemma set_nth_concat_perm : forall (rem : list (list nat)) j u v,
  nth j rem [] = u ++ v -> j < length rem ->
  Permutation (concat rem) (u ++ concat (set_nth j v rem)).
Proof.
  induction rem as [|x r IH]; intros j u v E Hj; cbn [length] in Hj. lia.
  destruct j as [|j']; cbn [nth set_nth concat] in *.
  - subst x. rewrite <- app_assoc. apply Permutation_refl.
  - eapply Permutation_trans.
    + apply Permutation_app_head. apply (IH j' u v E). lia.
    + apply Permutation_app_swap_app.
Qed.

Lemma nth_nonempty_lt : forall (A : Type) (l : list (list A)) j x t, nth j l [] = x :: t -> j < length l.
Proof.
  intros A l j x t E. destruct (Nat.lt_ge_cases j (length l)); auto.
  rewrite nth_overflow in E by lia. discriminate.
Qed.

(* ------------------------------------------------------------------ *)
(* find_first                                                          *)
(* ------------------------------------------------------------------ *)

Lemma find_from_some : forall p n a i, find_from p a n = Some i ->
  a <= i < a + n /\ p i = true /\ forall j, a <= j < i -> p j = false.
Proof.
  induction n as [|n IH]; intros a i H; cbn [find_from] in H. discriminate.
  destruct (p a) eqn:E.
  - inversion H; subst. split; [lia|split; [assumption|intros; lia]].
  - apply IH in H. destruct H as [H1 [H2 H3]]. split; [lia|split; [assumption|]].
    intros j Hj. destruct (Nat.eq_dec j a). subst; auto. apply H3. lia.
Qed.

Lemma find_from_none : forall p n a, find_from p a n = None -> forall j, a <= j < a + n -> p j = false.
Proof.
  induction n as [|n IH]; intros a H j Hj; cbn [find_from] in H. lia.
  destruct (p a) eqn:E. discriminate.
  destruct (Nat.eq_dec j a). subst; auto. apply (IH (S a) H). lia.
Qed.

(* find_first p n is the least index below n at which p holds, if there is one *)
Lemma find_first_spec : forall p n,
  match find_first p n with
  | Some i => i < n /\ p i = true /\ forall j, j < i -> p j = false
  | None => forall j, j < n -> p j = false
  end.
Proof.
  intros p n. unfold find_first. destruct (find_from p 0 n) eqn:E.
  - apply find_from_some in E. destruct E as [H1 [H2 H3]]. split; [lia|split; [assumption|]].
    intros; apply H3; lia.
  - intros j Hj. apply (find_from_none _ _ _ E). lia.
Qed.

Lemma find_first_exists : forall p n i, i < n -> p i = true -> exists i0, find_first p n = Some i0 /\ i0 <= i.
Proof.
  intros p n i Hi Hp. pose proof (find_first_spec p n) as S. destruct (find_first p n) as [i0|].
  - exists i0. split; auto. destruct S as [_ [_ S3]].
    destruct (Nat.le_gt_cases i0 i); auto. rewrite S3 in Hp by lia. discriminate.
  - rewrite S in Hp by lia. discriminate.
Qed.

Section CalcProofs.
  Variables V R : Type.
  Variable cu : cube V R.
  Variable raises : nat -> nat -> bool.

  Notation tasks := (c_tasks cu).

  Definition advance (st : cstate V) (j : nat) : cstate V := fill cu (consult st j) j.
  Definition rs (i : nat) : bool := raises i i.

  (* ---------------- serial mode ---------------- *)

  Lemma serial_loop_spec : forall n a st, s_inv st = a ->
    serial_loop cu raises (seq a n) st =
    match find_from rs a n with
    | Some i => (consult (fold_left advance (seq a (i - a)) st) i, Some (i, i))
    | None => (fold_left advance (seq a n) st, None)
    end.
  Proof.
    induction n as [|n IH]; intros a st Ha; cbn [seq serial_loop find_from]. reflexivity.
    unfold fill_one. rewrite Ha. unfold rs at 1. destruct (raises a a) eqn:E.
    - rewrite Nat.sub_diag. reflexivity.
    - rewrite (IH (S a) (fill cu (consult st a) a)) by (cbn; lia).
      destruct (find_from rs (S a) n) as [i|] eqn:F.
      + apply find_from_some in F. destruct F as [F1 _].
        replace (i - a) with (S (i - S a)) by lia. reflexivity.
      + reflexivity.
  Qed.

  Lemma advance_fold : forall m a st, s_inv st = a ->
    let st' := fold_left advance (seq a m) st in
    s_inv st' = a + m /\
    s_log st' = s_log st ++ map (fun i => (i, i)) (seq a m) /\
    s_store st' = fold_left (fun s j => run (nth j tasks []) s) (seq a m) (s_store st) /\
    s_diag st' = fold_left (bump cu) (seq a m) (s_diag st).
  Proof.
    induction m as [|m IH]; intros a st Ha; cbn [seq fold_left map].
    - rewrite app_nil_r. repeat split; lia.
    - destruct (IH (S a) (advance st a)) as [H1 [H2 [H3 H4]]]. cbn; lia.
      cbn zeta in *. rewrite H1, H2, H3, H4. cbn [advance fill consult s_log s_store s_diag s_inv].
      rewrite Ha. rewrite <- app_assoc. repeat split; try reflexivity. lia.
  Qed.

  Lemma fold_run_all : forall (l pre : list (list (write V))) (s : store V),
    fold_left (fun s j => run (nth j (pre ++ l) []) s) (seq (length pre) (length l)) s = run (concat l) s.
  Proof.
    induction l as [|x l IH]; intros pre s; cbn [length seq fold_left concat]. reflexivity.
    rewrite nth_middle. rewrite run_app.
    replace (pre ++ x :: l) with ((pre ++ [x]) ++ l) by (rewrite <- app_assoc; reflexivity).
    replace (S (length pre)) with (length (pre ++ [x])) by (rewrite app_length; cbn; lia).
    apply IH.
  Qed.

  Lemma fold_run_tasks : forall (s : store V),
    fold_left (fun s j => run (nth j tasks []) s) (seq 0 (nsub cu)) s = run (concat tasks) s.
  Proof. intro s. apply (fold_run_all tasks [] s). Qed.

  Definition entered (d : diag) : diag := if c_resets cu then mkD (d_idp d) (d_fills d) 0 else d.

  (* C20, serial mode: for any initial regions s0 and any leftover diagnostic state d *)
  Theorem serial_outcome_from : forall s0 d,
    let rep := calculate_serial_from cu raises s0 d in
    match find_first rs (nsub cu) with
    | Some i => r_out rep = Raised i i /\ r_log rep = diag_log (S i) /\
                r_diag rep = fold_left (bump cu) (seq 0 i) (entered d)
    | None => r_out rep = Returned (reduce_with (c_cells cu) (c_reduce cu) (run (concat tasks) s0)) /\
              r_log rep = diag_log (nsub cu) /\
              r_diag rep = fold_left (bump cu) (seq 0 (nsub cu)) (entered d)
    end.
  Proof.
    intros s0 d. cbn zeta. unfold calculate_serial_from, find_first.
    rewrite (serial_loop_spec (nsub cu) 0 (enter_from cu s0 d)) by reflexivity.
    destruct (find_from rs 0 (nsub cu)) as [i|] eqn:F.
    - rewrite Nat.sub_0_r.
      destruct (advance_fold i 0 (enter_from cu s0 d) eq_refl) as [H1 [H2 [H3 H4]]]. cbn zeta in *.
      cbn [r_out r_log r_diag consult s_log s_diag]. rewrite H1, H2, H4. cbn [enter_from s_log s_diag app plus].
      repeat split. unfold diag_log. rewrite seq_S, map_app. reflexivity.
    - destruct (advance_fold (nsub cu) 0 (enter_from cu s0 d) eq_refl) as [H1 [H2 [H3 H4]]]. cbn zeta in *.
      cbn [r_out r_log r_diag]. unfold result. rewrite H2, H3, H4. cbn [enter_from s_log s_diag s_store app].
      rewrite fold_run_tasks. repeat split.
  Qed.

  (* ---------------- pooled mode ---------------- *)

  Variable relayed : nat -> nat -> bool.
  Variable chunking : list (list nat).
  Variable d0 : diag.

  Notation pstep' := (pstep cu raises relayed).

  Inductive reach : pstate V -> Prop :=
  | reach0 : reach (pstart cu chunking d0)
  | reach1 : forall st j, reach st -> reach (pstep' st j).

  Lemma reach_fold : forall sched st, reach st -> reach (fold_left pstep' sched st).
  Proof. induction sched as [|j sched IH]; intros st H; cbn [fold_left]. exact H. apply IH. apply reach1. exact H. Qed.

  Lemma reach_drain : forall f st, reach st -> reach (drain cu raises relayed f st).
  Proof.
    induction f as [|f IH]; intros st H; cbn [drain]. exact H.
    destruct (first_nonempty (p_rem st) 0). apply IH. apply reach1. exact H. exact H.
  Qed.

  Ltac pcases st j i rest En Er El :=
    unfold pstep, fill_one;
    destruct (nth j (p_rem st) []) as [|i rest] eqn:En;
    [ | destruct (raises (s_inv (p_c st)) i) eqn:Er;
        [ destruct (relayed (s_inv (p_c st)) i) eqn:El | ] ];
    cbn [p_rem p_c p_raised p_done p_skipped p_dead consult fill s_log s_store s_inv s_diag].

  (* every stored exception was really raised by a consultation that is in the log *)
  Lemma inv_sound : forall st, reach st ->
    forall e, In e (p_raised st) -> raises (fst e) (snd e) = true /\ In e (s_log (p_c st)).
  Proof.
    induction 1 as [|st j H IH]; intros e He.
    - cbn in He. contradiction.
    - revert He. pcases st j i rest En Er El; intro He.
      + auto.
      + apply in_app_iff in He. destruct He as [He|[<-|[]]].
        * destruct (IH e He). split; auto. apply in_app_iff; auto.
        * cbn [fst snd]. split; auto. apply in_app_iff. right. left. reflexivity.
      + destruct (IH e He). split; auto. apply in_app_iff; auto.
      + destruct (IH e He). split; auto. apply in_app_iff; auto.
  Qed.

  Hypothesis Hrel : forall n i, raises n i = true -> relayed n i = true.

  Lemma inv_alive : forall st, reach st -> p_dead st = false.
  Proof.
    induction 1 as [|st j H IH]. reflexivity.
    pcases st j i rest En Er El; auto. rewrite (Hrel _ _ Er) in El. discriminate.
  Qed.

  (* every consultation that raised is among the stored exceptions *)
  Lemma inv_complete : forall st, reach st ->
    forall e, In e (s_log (p_c st)) -> raises (fst e) (snd e) = true -> In e (p_raised st).
  Proof.
    induction 1 as [|st j H IH]; intros e He Hr.
    - cbn in He. contradiction.
    - revert He. pcases st j i rest En Er El; intro He.
      + auto.
      + apply in_app_iff in He. apply in_app_iff. destruct He as [He|[<-|[]]]; auto.
        right. left. reflexivity.
      + rewrite (Hrel _ _ Er) in El. discriminate.
      + apply in_app_iff in He. destruct He as [He|[<-|[]]]; auto.
        cbn [fst snd] in Hr. congruence.
  Qed.

  (* consulted, not yet started and skipped sub-cubes always partition the batches *)
  Lemma inv_partition : forall st, reach st ->
    Permutation (map snd (s_log (p_c st)) ++ concat (p_rem st) ++ p_skipped st) (concat chunking).
  Proof.
    induction 1 as [|st j H IH].
    - cbn. rewrite app_nil_r. apply Permutation_refl.
    - pcases st j i rest En Er El; auto.
      + (* raised, relayed *)
        eapply Permutation_trans; [|exact IH].
        pose proof (set_nth_concat_perm (p_rem st) j (i :: rest) [] ) as P.
        rewrite app_nil_r in P. specialize (P En (nth_nonempty_lt _ _ _ _ _ En)).
        rewrite map_app. cbn [map snd]. rewrite <- !app_assoc. apply Permutation_app_head.
        cbn [app]. symmetry. eapply Permutation_trans.
        { apply Permutation_app_tail. exact P. }
        cbn [app]. apply perm_skip. rewrite <- app_assoc.
        eapply Permutation_trans. apply Permutation_app_swap_app.
        apply Permutation_app_head. apply Permutation_app_comm.
      + (* raised, not relayed *)
        eapply Permutation_trans; [|exact IH].
        pose proof (set_nth_concat_perm (p_rem st) j (i :: rest) [] ) as P.
        rewrite app_nil_r in P. specialize (P En (nth_nonempty_lt _ _ _ _ _ En)).
        rewrite map_app. cbn [map snd]. rewrite <- !app_assoc. apply Permutation_app_head.
        cbn [app]. symmetry. eapply Permutation_trans.
        { apply Permutation_app_tail. exact P. }
        cbn [app]. apply perm_skip. rewrite <- app_assoc.
        eapply Permutation_trans. apply Permutation_app_swap_app.
        apply Permutation_app_head. apply Permutation_app_comm.
      + (* filled *)
        eapply Permutation_trans; [|exact IH].
        pose proof (set_nth_concat_perm (p_rem st) j [i] rest En (nth_nonempty_lt _ _ _ _ _ En)) as P.
        rewrite map_app. cbn [map snd]. rewrite <- !app_assoc. apply Permutation_app_head.
        cbn [app]. symmetry. eapply Permutation_trans.
        { apply Permutation_app_tail. exact P. }
        cbn [app]. apply Permutation_refl.
  Qed.

  (* as long as nothing was raised, nothing is skipped and the log is the completion order *)
  Lemma inv_clean : forall st, reach st -> p_raised st = [] ->
    p_skipped st = [] /\ map snd (s_log (p_c st)) = p_done st.
  Proof.
    induction 1 as [|st j H IH].
    - cbn. auto.
    - pcases st j i rest En Er El; auto.
      + intro K. destruct (p_raised st); discriminate.
      + rewrite (Hrel _ _ Er) in El. discriminate.
      + intro K. destruct (IH K) as [K1 K2]. split; auto. rewrite map_app, K2. reflexivity.
  Qed.

  Lemma inv_store : forall st, reach st ->
    s_store (p_c st) = run (concat (map (fun i => nth i tasks []) (p_done st))) (c_init cu).
  Proof.
    induction 1 as [|st j H IH].
    - reflexivity.
    - pcases st j i rest En Er El; auto.
      rewrite IH. rewrite map_app, concat_app, run_app. cbn [map concat]. rewrite app_nil_r. reflexivity.
  Qed.

  Lemma inv_count : forall st, reach st ->
    s_inv (p_c st) = length (s_log (p_c st)) /\
    map fst (s_log (p_c st)) = seq 0 (length (s_log (p_c st))).
  Proof.
    induction 1 as [|st j H IH].
    - cbn. auto.
    - destruct IH as [I1 I2].
      pcases st j i rest En Er El; auto;
        rewrite app_length, map_app, I2; cbn [length map fst]; rewrite Nat.add_1_r, seq_S, I1; auto.
  Qed.

  (* ---- the run ends with every batch finished ---- *)

  Lemma first_nonempty_none : forall rem a, first_nonempty rem a = None -> concat rem = [].
  Proof.
    induction rem as [|x r IH]; intros a H; cbn [first_nonempty concat] in *. reflexivity.
    destruct x. cbn. eapply IH; eauto. discriminate.
  Qed.

  Lemma first_nonempty_some : forall rem a j, first_nonempty rem a = Some j ->
    a <= j /\ exists x t, nth (j - a) rem [] = x :: t.
  Proof.
    induction rem as [|x r IH]; intros a j H; cbn [first_nonempty] in H. discriminate.
    destruct x as [|y t].
    - apply IH in H. destruct H as [H1 [x' [t' H2]]]. split. lia. exists x', t'.
      replace (j - a) with (S (j - S a)) by lia. exact H2.
    - inversion H; subst. split. lia. rewrite Nat.sub_diag. exists y, t. reflexivity.
  Qed.

  Lemma pstep_shrinks : forall st j x t, nth j (p_rem st) [] = x :: t ->
    length (concat (p_rem (pstep' st j))) < length (concat (p_rem st)).
  Proof.
    intros st j x t E. pose proof (nth_nonempty_lt _ _ _ _ _ E) as Hj.
    unfold pstep, fill_one. rewrite E.
    destruct (raises (s_inv (p_c st)) x); [destruct (relayed (s_inv (p_c st)) x)|]; cbn [p_rem].
    - pose proof (set_nth_concat_perm (p_rem st) j (x :: t) []) as P. rewrite app_nil_r in P.
      apply Permutation_length in P; auto. rewrite P, app_length. cbn [length]. lia.
    - pose proof (set_nth_concat_perm (p_rem st) j (x :: t) []) as P. rewrite app_nil_r in P.
      apply Permutation_length in P; auto. rewrite P, app_length. cbn [length]. lia.
    - pose proof (set_nth_concat_perm (p_rem st) j [x] t E Hj) as P.
      apply Permutation_length in P. rewrite P, app_length. cbn [length]. lia.
  Qed.

  Lemma drain_done : forall f st, length (concat (p_rem st)) <= f ->
    concat (p_rem (drain cu raises relayed f st)) = [].
  Proof.
    induction f as [|f IH]; intros st H; cbn [drain].
    - destruct (concat (p_rem st)); cbn in H; [reflexivity|lia].
    - destruct (first_nonempty (p_rem st) 0) as [j|] eqn:F.
      + apply first_nonempty_some in F. destruct F as [_ [x [t E]]]. rewrite Nat.sub_0_r in E.
        apply IH. pose proof (pstep_shrinks st j x t E). lia.
      + eapply first_nonempty_none; eauto.
  Qed.

  Lemma fold_pstep_rem_le : forall sched st,
    length (concat (p_rem (fold_left pstep' sched st))) <= length (concat (p_rem st)).
  Proof.
    induction sched as [|j sched IH]; intro st; cbn [fold_left]. lia.
    eapply Nat.le_trans. apply IH.
    destruct (nth j (p_rem st) []) as [|x t] eqn:E.
    - unfold pstep. rewrite E. lia.
    - pose proof (pstep_shrinks st j x t E). lia.
  Qed.

  Lemma pooled_run_reach : forall sched, chunking = chunking -> d0 = d0 ->
    reach (pooled_run cu raises relayed chunking sched d0).
  Proof. intros. unfold pooled_run. apply reach_drain. apply reach_fold. apply reach0. Qed.

  Lemma pooled_run_done : forall sched,
    concat (p_rem (pooled_run cu raises relayed chunking sched d0)) = [].
  Proof.
    intro sched. unfold pooled_run. apply drain_done.
    eapply Nat.le_trans. apply fold_pstep_rem_le. cbn. lia.
  Qed.
End CalcProofs.


(* ------------------------------------------------------------------ *)
(* the order in which whole tasks complete does not matter either      *)
(* ------------------------------------------------------------------ *)
Section Perm.
  Variable V : Type.
  Notation write := (write V).

  Definition all_disjoint (us : list (list write)) : Prop :=
    ForallOrdPairs (fun a b => disjoint (cells a) (cells b)) us.

  Lemma disjoint_sym : forall a b : list cell, disjoint a b -> disjoint b a.
  Proof. intros a b H c Hb Ha. apply (H c Ha Hb). Qed.

  Lemma lastw_some_in : forall c (t : list write) v, lastw c t = Some v -> In c (cells t).
  Proof.
    intros c t v H. destruct (in_dec (fun a b : cell =>
      match Bool.bool_dec (cell_eqb a b) true with
      | left e => left (proj1 (cell_eqb_eq a b) e)
      | right n => right (fun E => n (proj2 (cell_eqb_eq a b) E))
      end) c (cells t)) as [I|N]; auto.
    rewrite (lastw_none V c t N) in H. discriminate.
  Qed.

  Lemma all_disjoint_perm : forall us us' : list (list write),
    Permutation us us' -> all_disjoint us -> all_disjoint us'.
  Proof.
    unfold all_disjoint.
    induction 1 as [| x l l' HP IH | x y l | l l' l'' HP1 IH1 HP2 IH2]; intro AD.
    - constructor.
    - inversion AD as [|a l0 HF HO]; subst. constructor.
      + apply Forall_forall. intros u Hu. rewrite Forall_forall in HF. apply HF.
        eapply Permutation_in. apply Permutation_sym. exact HP. exact Hu.
      + apply IH. exact HO.
    - inversion AD as [|a l0 HF HO]; subst. inversion HO as [|a' l1 HF' HO']; subst.
      inversion HF as [|b l2 Hyx HFy]; subst.
      constructor. constructor. apply disjoint_sym. exact Hyx. exact HF'.
      constructor. exact HFy. exact HO'.
    - apply IH2, IH1, AD.
  Qed.

  Lemma lastw_concat_perm : forall us us' : list (list write),
    Permutation us us' -> all_disjoint us ->
    forall c, lastw c (concat us) = lastw c (concat us').
  Proof.
    induction 1 as [| x l l' HP IH | x y l | l l' l'' HP1 IH1 HP2 IH2]; intros AD c.
    - reflexivity.
    - cbn [concat]. rewrite !lastw_app. inversion AD; subst. rewrite IH; auto.
    - cbn [concat]. rewrite !lastw_app. destruct (lastw c (concat l)); auto.
      destruct (lastw c x) eqn:Ex, (lastw c y) eqn:Ey; auto.
      exfalso. inversion AD as [|a l0 HF HO]; subst. inversion HF as [|b l2 Hyx HFy]; subst.
      apply (Hyx c). eapply lastw_some_in; eauto. eapply lastw_some_in; eauto.
    - rewrite IH1; auto. apply IH2. eapply all_disjoint_perm; eauto.
  Qed.

  Lemma all_disjoint_of_pd : forall (ts : list (list write)) js,
    pairwise_disjoint ts -> NoDup js -> all_disjoint (map (fun i => nth i ts []) js).
  Proof.
    intros ts js PD. induction 1 as [|j js Hj ND IH]; cbn [map]. constructor.
    constructor; auto. apply Forall_forall. intros u Hu. apply in_map_iff in Hu.
    destruct Hu as [i [<- Hi]]. apply PD. intro E. subst. contradiction.
  Qed.

  Lemma map_nth_seq_gen : forall (A : Type) (l pre : list A) d,
    map (fun i => nth i (pre ++ l) d) (seq (length pre) (length l)) = l.
  Proof.
    induction l as [|x l IH]; intros pre d; cbn [length seq map]. reflexivity.
    rewrite nth_middle. f_equal.
    replace (pre ++ x :: l) with ((pre ++ [x]) ++ l) by (rewrite <- app_assoc; reflexivity).
    replace (S (length pre)) with (length (pre ++ [x])) by (rewrite app_length; cbn; lia).
    apply IH.
  Qed.

  Lemma map_nth_seq : forall (A : Type) (l : list A) d, map (fun i => nth i l d) (seq 0 (length l)) = l.
  Proof. intros. apply (map_nth_seq_gen A l [] d). Qed.

  (* completing whole tasks in ANY order gives the store of the serial order *)
  Theorem run_perm_serial : forall (ts : list (list write)) js,
    pairwise_disjoint ts -> Permutation js (seq 0 (length ts)) ->
    forall (s : store V) c, run (concat (map (fun i => nth i ts []) js)) s c = run (concat ts) s c.
  Proof.
    intros ts js PD P s c. rewrite !run_get.
    assert (ND : NoDup js).
    { eapply Permutation_NoDup. apply Permutation_sym. exact P. apply seq_NoDup. }
    rewrite (lastw_concat_perm (map (fun i => nth i ts []) js) ts); auto.
    - eapply Permutation_trans. apply Permutation_map. exact P. rewrite map_nth_seq. apply Permutation_refl.
    - apply all_disjoint_of_pd; auto.
  Qed.
End Perm.

(* ------------------------------------------------------------------ *)
(* C20: pooled outcome                                                 *)
(* ------------------------------------------------------------------ *)
Lemma NoDup_app_l : forall (A : Type) (a b : list A), NoDup (a ++ b) -> NoDup a.
Proof.
  induction a as [|x a IH]; cbn; intros b H. constructor.
  inversion H; subst. constructor. intro K. apply H2. apply in_app_iff. auto. eapply IH; eauto.
Qed.

Section PooledOutcome.
  Variables V R : Type.
  Variable cu : cube V R.
  Variable raises relayed : nat -> nat -> bool.
  Hypothesis Hrel : forall n i, raises n i = true -> relayed n i = true.
  Variable chunking : list (list nat).
  Variable sched : list nat.
  Variable pick : nat.
  Variable d : diag.
  Hypothesis Hch : concat chunking = seq 0 (nsub cu).
  Hypothesis PD : pairwise_disjoint (c_tasks cu).

  Let st := pooled_run cu raises relayed chunking sched d.
  Let rep := calculate_pooled cu raises relayed chunking sched pick d.
  Let serial_result : R :=
    reduce_with (c_cells cu) (c_reduce cu) (run (concat (c_tasks cu)) (c_init cu)).

  Lemma st_reach : reach V R cu raises relayed chunking d st.
  Proof. apply pooled_run_reach; reflexivity. Qed.

  Lemma st_done : concat (p_rem st) = [].
  Proof. apply pooled_run_done. Qed.

  Lemma st_alive : p_dead st = false.
  Proof. eapply inv_alive; eauto. apply st_reach. Qed.

  Lemma st_partition : Permutation (map snd (s_log (p_c st)) ++ p_skipped st) (seq 0 (nsub cu)).
  Proof.
    pose proof (inv_partition V R cu raises relayed chunking d st st_reach) as P.
    rewrite st_done, Hch in P. exact P.
  Qed.

  (* each sub-cube is consulted at most once, and only real sub-cubes are *)
  Lemma log_nodup : NoDup (map snd (r_log rep)) /\ (forall e, In e (r_log rep) -> snd e < nsub cu).
  Proof.
    cbn [rep calculate_pooled r_log]. fold st.
    pose proof st_partition as P. split.
    - assert (ND : NoDup (map snd (s_log (p_c st)) ++ p_skipped st)).
      { eapply Permutation_NoDup. apply Permutation_sym. exact P. apply seq_NoDup. }
      apply NoDup_app_l in ND. exact ND.
    - intros e He. assert (I : In (snd e) (seq 0 (nsub cu))).
      { eapply Permutation_in. exact P. apply in_app_iff. left. apply in_map. exact He. }
      apply in_seq in I. lia.
  Qed.

  Lemma raised_nonempty_outcome : p_raised st <> [] ->
    exists n i, raises n i = true /\ In (n, i) (r_log rep) /\ r_out rep = Raised n i.
  Proof.
    intro NE. cbn [rep calculate_pooled r_out r_log]. fold st. rewrite st_alive.
    destruct (p_raised st) as [|e es] eqn:E. contradiction.
    destruct (nth pick (e :: es) e) as [n i] eqn:EN.
    exists n, i.
    assert (I : In (n, i) (p_raised st)).
    { rewrite E. destruct (nth_in_or_default pick (e :: es) e) as [K|K]; rewrite EN in K.
      exact K. rewrite K. left. reflexivity. }
    destruct (inv_sound V R cu raises relayed chunking d st st_reach (n, i) I) as [S1 S2].
    cbn [fst snd] in S1. auto.
  Qed.

  Lemma raised_empty_outcome : p_raised st = [] ->
    r_out rep = Returned serial_result /\
    Permutation (map snd (r_log rep)) (seq 0 (nsub cu)) /\
    map fst (r_log rep) = seq 0 (nsub cu) /\
    (forall e, In e (r_log rep) -> raises (fst e) (snd e) = false).
  Proof.
    intro E. cbn [rep calculate_pooled r_out r_log]. fold st. rewrite st_alive, E.
    destruct (inv_clean V R cu raises relayed chunking d Hrel st st_reach E) as [C1 C2].
    pose proof st_partition as P. rewrite C1, app_nil_r in P.
    split; [|split; [|split]].
    - f_equal. unfold result, serial_result, reduce_with. f_equal. apply snapshot_ext. intro c.
      rewrite (inv_store V R cu raises relayed chunking d st st_reach).
      apply run_perm_serial; auto. rewrite <- C2. exact P.
    - exact P.
    - destruct (inv_count V R cu raises relayed chunking d st st_reach) as [_ I2]. rewrite I2.
      f_equal. apply Permutation_length in P. rewrite map_length, seq_length in P. exact P.
    - intros e He. destruct (raises (fst e) (snd e)) eqn:Er; auto.
      pose proof (inv_complete V R cu raises relayed chunking d Hrel st st_reach e He Er) as K.
      rewrite E in K. contradiction.
  Qed.

  (* C20, pooled mode, for every batch partition, schedule and arrival order *)
  Theorem pooled_outcome_general :
    r_out rep <> Hung /\
    NoDup (map snd (r_log rep)) /\ (forall e, In e (r_log rep) -> snd e < nsub cu) /\
    ((forall e, In e (r_log rep) -> raises (fst e) (snd e) = false) ->
       r_out rep = Returned serial_result /\
       Permutation (map snd (r_log rep)) (seq 0 (nsub cu)) /\ map fst (r_log rep) = seq 0 (nsub cu)) /\
    (forall n i, r_out rep = Raised n i -> raises n i = true /\ In (n, i) (r_log rep)) /\
    ((exists e, In e (r_log rep) /\ raises (fst e) (snd e) = true) ->
       exists n i, raises n i = true /\ In (n, i) (r_log rep) /\ r_out rep = Raised n i).
  Proof.
    destruct log_nodup as [L1 L2].
    destruct (p_raised st) as [|e0 es] eqn:E.
    - destruct (raised_empty_outcome E) as [O1 [O2 [O3 O4]]].
      split; [rewrite O1; discriminate|]. split; [exact L1|]. split; [exact L2|].
      split; [auto|]. split.
      + intros n i K. rewrite O1 in K. discriminate.
      + intros [e [He Hr]]. rewrite (O4 e He) in Hr. discriminate.
    - assert (NE : p_raised st <> []) by (rewrite E; discriminate).
      destruct (raised_nonempty_outcome NE) as [n [i [N1 [N2 N3]]]].
      split; [rewrite N3; discriminate|]. split; [exact L1|]. split; [exact L2|].
      split; [|split].
      + intro K. specialize (K (n, i) N2). cbn [fst snd] in K. congruence.
      + intros n' i' K. rewrite N3 in K. inversion K; subst. auto.
      + intros _. exists n, i. auto.
  Qed.

  Corollary pooled_no_raise : (forall n i, raises n i = false) ->
    r_out rep = Returned serial_result /\
    Permutation (map snd (r_log rep)) (seq 0 (nsub cu)) /\ length (r_log rep) = nsub cu.
  Proof.
    intro H. destruct pooled_outcome_general as [_ [_ [_ [G _]]]].
    destruct G as [G1 [G2 G3]]. intros; apply H.
    split; auto. split; auto. apply Permutation_length in G2. rewrite map_length, seq_length in G2. exact G2.
  Qed.

  (* the callback raises whenever it is called for sub-cube i *)
  Corollary pooled_task_raises : forall i, i < nsub cu -> (forall n, raises n i = true) ->
    exists n j, raises n j = true /\ r_out rep = Raised n j.
  Proof.
    intros i Hi H.
    destruct (p_raised st) as [|e0 es] eqn:E.
    - destruct (raised_empty_outcome E) as [_ [O2 [_ O4]]].
      assert (I : In i (map snd (r_log rep))).
      { eapply Permutation_in. apply Permutation_sym. exact O2. apply in_seq. lia. }
      apply in_map_iff in I. destruct I as [[n i'] [Ei He]]. cbn [snd] in Ei. subst i'.
      specialize (O4 (n, i) He). cbn [fst snd] in O4. rewrite H in O4. discriminate.
    - assert (NE : p_raised st <> []) by (rewrite E; discriminate).
      destruct (raised_nonempty_outcome NE) as [n [j [N1 [_ N3]]]]. exists n, j. auto.
  Qed.

  (* the callback raises at its invocation number n, whichever sub-cube that is *)
  Corollary pooled_invocation_raises : forall n, n < nsub cu -> (forall i, raises n i = true) ->
    exists n' j, raises n' j = true /\ r_out rep = Raised n' j.
  Proof.
    intros n Hn H.
    destruct (p_raised st) as [|e0 es] eqn:E.
    - destruct (raised_empty_outcome E) as [_ [_ [O3 O4]]].
      assert (I : In n (map fst (r_log rep))). { rewrite O3. apply in_seq. lia. }
      apply in_map_iff in I. destruct I as [[n' i] [En He]]. cbn [fst] in En. subst n'.
      specialize (O4 (n, i) He). cbn [fst snd] in O4. rewrite H in O4. discriminate.
    - assert (NE : p_raised st <> []) by (rewrite E; discriminate).
      destruct (raised_nonempty_outcome NE) as [n' [j [N1 [_ N3]]]]. exists n', j. auto.
  Qed.
End PooledOutcome.

(* ------------------------------------------------------------------ *)
(* C20: reuse                                                          *)
(* ------------------------------------------------------------------ *)
Section Reuse.
  Variables V R : Type.
  Variable cu : cube V R.
  Variable raises relayed : nat -> nat -> bool.

  Theorem reuse_serial : forall d d',
    r_out (calculate_serial cu raises d) = r_out (calculate_serial cu raises d') /\
    r_log (calculate_serial cu raises d) = r_log (calculate_serial cu raises d').
  Proof.
    intros d d'. unfold calculate_serial.
    pose proof (serial_outcome_from V R cu raises (c_init cu) d) as A.
    pose proof (serial_outcome_from V R cu raises (c_init cu) d') as B. cbn zeta in *.
    destruct (find_first (rs raises) (nsub cu)).
    - destruct A as [A1 [A2 _]]. destruct B as [B1 [B2 _]]. rewrite A1, A2, B1, B2. auto.
    - destruct A as [A1 [A2 _]]. destruct B as [B1 [B2 _]]. rewrite A1, A2, B1, B2. auto.
  Qed.

  Definition ceqv (a b : cstate V) : Prop :=
    s_store a = s_store b /\ s_inv a = s_inv b /\ s_log a = s_log b.
  Definition peqv (a b : pstate V) : Prop :=
    p_rem a = p_rem b /\ ceqv (p_c a) (p_c b) /\ p_raised a = p_raised b /\
    p_done a = p_done b /\ p_skipped a = p_skipped b /\ p_dead a = p_dead b.

  Lemma pstep_eqv : forall a b j, peqv a b ->
    peqv (pstep cu raises relayed a j) (pstep cu raises relayed b j).
  Proof.
    intros [ra [sa da na la] xa oa ka za] [rb [sb db nb lb] xb ob kb zb] j H.
    unfold peqv, ceqv in H. cbn in H. destruct H as [H1 [[H2 [H3 H4]] [H5 [H6 [H7 H8]]]]]. subst.
    unfold pstep, fill_one. cbn [p_rem p_c s_inv].
    destruct (nth j rb []) as [|i rest].
    - unfold peqv, ceqv. cbn. auto 10.
    - destruct (raises nb i); [destruct (relayed nb i)|]; unfold peqv, ceqv; cbn; auto 10.
  Qed.

  Lemma fold_eqv : forall sched a b, peqv a b ->
    peqv (fold_left (pstep cu raises relayed) sched a) (fold_left (pstep cu raises relayed) sched b).
  Proof. induction sched; intros; cbn [fold_left]; auto. apply IHsched. apply pstep_eqv. assumption. Qed.

  Lemma drain_eqv : forall f a b, peqv a b ->
    peqv (drain cu raises relayed f a) (drain cu raises relayed f b).
  Proof.
    induction f; intros a b H; cbn [drain]; auto.
    assert (E : p_rem a = p_rem b) by (destruct H; auto). rewrite E.
    destruct (first_nonempty (p_rem b) 0); auto. apply IHf. apply pstep_eqv. assumption.
  Qed.

  Theorem reuse_pooled : forall chunking sched pick d d',
    r_out (calculate_pooled cu raises relayed chunking sched pick d) =
    r_out (calculate_pooled cu raises relayed chunking sched pick d') /\
    r_log (calculate_pooled cu raises relayed chunking sched pick d) =
    r_log (calculate_pooled cu raises relayed chunking sched pick d').
  Proof.
    intros chunking sched pick d d'. unfold calculate_pooled. cbn [r_out r_log].
    assert (E : peqv (pooled_run cu raises relayed chunking sched d) (pooled_run cu raises relayed chunking sched d')).
    { unfold pooled_run. apply drain_eqv. apply fold_eqv. unfold peqv, ceqv, pstart, enter, enter_from. cbn. auto 10. }
    destruct E as [E1 [[E2 [E3 E4]] [E5 [E6 [E7 E8]]]]].
    unfold result. rewrite E2, E4, E5, E8. auto.
  Qed.

  (* an aborted (or completed) call, in either mode, followed by an uninterrupted call on the
     same objects: the second call returns what a fresh evaluation returns *)
  Corollary reuse_after_any_call : forall (first : report R),
    r_out (calculate_serial cu (fun _ _ => false) (r_diag first)) =
    Returned (reduce_with (c_cells cu) (c_reduce cu) (run (concat (c_tasks cu)) (c_init cu))).
  Proof.
    intro first. unfold calculate_serial.
    pose proof (serial_outcome_from V R cu (fun _ _ => false) (c_init cu) (r_diag first)) as A. cbn zeta in A.
    pose proof (find_first_spec (rs (fun _ _ => false)) (nsub cu)) as S.
    destruct (find_first (rs (fun _ _ => false)) (nsub cu)).
    - destruct S as [_ [S _]]. discriminate.
    - destruct A as [A _]. exact A.
  Qed.
End Reuse.

(* ------------------------------------------------------------------ *)
(* the statements that are FALSE, with witnesses: the model can tell    *)
(* ------------------------------------------------------------------ *)

Local Open Scope Z_scope.
Definition wZ (r : Z) (c : list Z) (v : Z) : write Z := mkW (r, c) v.

(* without disjoint footprints the result depends on the schedule *)
Example overlapping_tasks_refuted :
  exists (ts : list (list (write Z))) tr (s : store Z) c,
    interleave ts tr /\ run tr s c <> run (concat ts) s c.
Proof.
  exists [[wZ 0 [0] 1]; [wZ 0 [0] 2]], [wZ 0 [0] 2; wZ 0 [0] 1], (fun _ => 0), (0, [0]).
  split.
  - apply (il_step [[wZ 0 [0] 1]] (wZ 0 [0] 2) [] []).
    apply (il_step [] (wZ 0 [0] 1) [] [[]]).
    apply il_done. repeat constructor.
  - vm_compute. discriminate.
Qed.

(* the unsynchronised diagnostics counter (excluded by the property) CAN lose updates:
   two tasks each add 1; LOAD0 LOAD1 STORE0 STORE1 leaves 1, the serial order leaves 2 *)
Example counter_lost_update_refuted :
  exists (ts : list (list (event Z))) tr (st : mstate Z),
    interleave ts tr /\ m_ctr (exec tr st) <> m_ctr (exec (concat ts) st).
Proof.
  exists [[mkE 0%nat ALoad; mkE 0%nat (AStore 1)]; [mkE 1%nat ALoad; mkE 1%nat (AStore 1)]],
         [mkE 0%nat ALoad; mkE 1%nat ALoad; mkE 0%nat (AStore 1); mkE 1%nat (AStore 1)],
         (mkM (fun _ => 0) 0 (fun _ => 0)).
  split.
  - apply (il_step [] (mkE 0%nat ALoad) [mkE 0%nat (AStore 1)] [[mkE 1%nat ALoad; mkE 1%nat (AStore 1)]]).
    apply (il_step [[mkE 0%nat (AStore 1)]] (mkE 1%nat ALoad) [mkE 1%nat (AStore 1)] []).
    apply (il_step [] (mkE 0%nat (AStore 1)) [] [[mkE 1%nat (AStore 1)]]).
    apply (il_step [[]] (mkE 1%nat (AStore 1)) [] []).
    apply il_done. repeat constructor.
  - vm_compute. discriminate.
Qed.

Definition toy_cube : cube Z (list Z) :=
  mkCube [[wZ 0 [0; 0] 5]; [wZ 0 [1; 0] 6]] (fun _ => 0)
         [(0, [0; 0]); (0, [0; 1]); (0, [1; 0]); (0, [1; 1])]
         (fun l => l) (fun _ => 3) (fun _ => 1) false.

(* the mutant that keeps the regions on the object: a leftover store changes the next result *)
Example reuse_refuted_if_regions_cached :
  exists (leftover : store Z) d,
    r_out (calculate_serial_from toy_cube (fun _ _ => false) leftover d) <>
    r_out (calculate_serial toy_cube (fun _ _ => false) d).
Proof.
  exists (fun _ => 7), (mkD 0 0 0). vm_compute. discriminate.
Qed.

(* known finding C20 pooled:non-Exception-interrupt-hangs: an interrupt the pool does not relay *)
Example pooled_non_exception_hangs :
  exists (raises relayed : nat -> nat -> bool),
    raises 0%nat 0%nat = true /\
    r_out (calculate_threadpool toy_cube raises relayed 2%nat [] 0%nat (mkD 0 0 0)) = Hung /\
    r_out (calculate_serial toy_cube raises (mkD 0 0 0)) = Raised 0%nat 0%nat.
Proof.
  exists (fun n _ => Nat.eqb n 0%nat), (fun _ _ => false). vm_compute. auto.
Qed.


(* ------------------------------------------------------------------ *)
(* workers: the schedules of a pool are schedules of the tasks         *)
(* ------------------------------------------------------------------ *)

Lemma interleave_nil_inv : forall (A : Type) (g : list (list A)), interleave g [] -> Forall (fun t => t = []) g.
Proof. intros A g H. inversion H; subst. assumption. Qed.

Lemma Forall_all_nil_concat : forall (A : Type) (gs : list (list (list A))) ws,
  Forall2 interleave gs ws -> Forall (fun t => t = []) ws -> Forall (fun t => t = []) (concat gs).
Proof.
  induction 1 as [|g w gs ws Hgw HF IH]; intro HN; cbn [concat]. constructor.
  inversion HN; subst. apply Forall_app. split.
  - apply interleave_nil_inv. assumption.
  - apply IH. assumption.
Qed.

(* if every worker's own trace is a schedule of the tasks given to it, and tr is a schedule of the
   workers, then tr is a schedule of all the tasks *)
Lemma interleave_nested : forall (A : Type) (ws : list (list A)) tr,
  interleave ws tr -> forall gs, Forall2 interleave gs ws -> interleave (concat gs) tr.
Proof.
  induction 1 as [ws Hall | ws1 x w ws2 tr Hil IH]; intros gs HF.
  - apply il_done. eapply Forall_all_nil_concat; eauto.
  - apply Forall2_app_inv_r in HF. destruct HF as [gs1 [gs' [HF1 [HF2 ->]]]].
    inversion HF2 as [|g w' gs2 ws2' Hg HF3]; subst.
    inversion Hg as [|g1 x' t g2 tr' Hg']; subst.
    rewrite concat_app. cbn [concat]. rewrite <- app_assoc. cbn [app].
    rewrite app_assoc. apply il_step.
    specialize (IH (gs1 ++ (g1 ++ t :: g2) :: gs2)).
    rewrite concat_app in IH. cbn [concat] in IH. rewrite <- !app_assoc in IH. cbn [app] in IH.
    rewrite <- app_assoc. apply IH.
    apply Forall2_app; auto.
Qed.

Lemma Forall2_interleave_concat : forall (A : Type) (gs : list (list (list A))),
  Forall2 interleave gs (map (@concat A) gs).
Proof. induction gs; cbn [map]; constructor; auto. apply interleave_concat. Qed.

Section Workers.
  Variable V : Type.
  Notation write := (write V).

  Lemma all_disjoint_pd : forall us : list (list write), all_disjoint V us -> pairwise_disjoint us.
  Proof.
    unfold all_disjoint. induction 1 as [|a l HF HO IH]; intros i j Hij.
    - destruct i, j; intros c [].
    - rewrite Forall_forall in HF. destruct i as [|i], j as [|j]; cbn [nth].
      + contradiction.
      + destruct (Nat.lt_ge_cases j (length l)).
        * apply HF. apply nth_In. assumption.
        * rewrite nth_overflow by lia. intros c _ [].
      + destruct (Nat.lt_ge_cases i (length l)).
        * apply disjoint_sym. apply HF. apply nth_In. assumption.
        * rewrite nth_overflow by lia. intros c [].
      + apply IH. lia.
  Qed.

  Lemma pd_all_disjoint : forall us : list (list write), pairwise_disjoint us -> all_disjoint V us.
  Proof.
    intros us PD. rewrite <- (map_nth_seq _ us []).
    apply all_disjoint_of_pd. exact PD. apply seq_NoDup.
  Qed.

  (* C16 for pools: gs = for each worker, the tasks it executes, in its order (any pool size, any
     batching, any assignment of batches to workers); each worker runs its tasks one after the
     other; tr = any interleaving of the workers.  The regions end up as after the serial loop. *)
  Theorem pool_schedule_serial : forall (ts : list (list write)) (gs : list (list (list write))) tr,
    pairwise_disjoint ts -> Permutation (concat gs) ts ->
    interleave (map (@concat write) gs) tr ->
    forall (s : store V) c, run tr s c = run (concat ts) s c.
  Proof.
    intros ts gs tr PD P H s c.
    assert (AD : all_disjoint V (concat gs)).
    { eapply all_disjoint_perm. apply Permutation_sym. exact P. apply pd_all_disjoint. exact PD. }
    rewrite (interleave_serial V (concat gs) tr).
    - rewrite !run_get. rewrite (lastw_concat_perm V (concat gs) ts P AD c). reflexivity.
    - apply all_disjoint_pd. exact AD.
    - eapply interleave_nested. exact H. apply Forall2_interleave_concat.
  Qed.
End Workers.

(* ------------------------------------------------------------------ *)
(* C16 stated against calculate                                        *)
(* ------------------------------------------------------------------ *)
Local Close Scope Z_scope.

Section C16Calculate.
  Variables V R : Type.

  (* ets: the event lists of the sub-cube tasks of cube cu (writes into their own blocks plus the
     counter read-modify-writes); ps: their sub-cube coordinates.  Whatever interleaving tr the
     pool produces, reduce applied to the regions it leaves gives exactly what the serial
     calculate returns (from any leftover diagnostic state d). *)
  Theorem C16_calculate : forall (cu : cube V R) (ets : list (list (event V))) (ps : list (list Z)) n tr st d,
    map (@writes_of V) ets = c_tasks cu -> m_store st = c_init cu ->
    Forall2 (@prefixed V) ps (c_tasks cu) -> NoDup ps -> (forall p, In p ps -> length p = n) ->
    interleave ets tr ->
    Returned (reduce_with (c_cells cu) (c_reduce cu) (m_store (exec tr st))) =
    r_out (calculate_serial cu (fun _ _ => false) d).
  Proof.
    intros cu ets ps n tr st d Ew Es F ND Len H.
    pose proof (footprint_pairwise V ps (c_tasks cu) n F ND Len) as PD.
    rewrite (schedule_independent V ets tr) by (try rewrite Ew; auto).
    unfold calculate_serial.
    pose proof (serial_outcome_from V R cu (fun _ _ => false) (c_init cu) d) as A. cbn zeta in A.
    pose proof (find_first_spec (rs (fun _ _ => false)) (nsub cu)) as S.
    destruct (find_first (rs (fun _ _ => false)) (nsub cu)).
    - destruct S as [_ [S _]]. discriminate.
    - destruct A as [A _]. rewrite A. rewrite exec_store, writes_of_concat, Ew, Es. reflexivity.
  Qed.
End C16Calculate.

Lemma threadpool_chunking : forall p k, 0 < p -> concat (pool_chunks p (seq 0 k)) = seq 0 k.
Proof. intros. apply pool_chunks_concat. assumption. Qed.

(* ------------------------------------------------------------------ *)
(* small packaging lemmas and the example inputs used by Properties/    *)
(* ------------------------------------------------------------------ *)
Lemma subcube_coords_distinct : forall sh : list nat,
  NoDup (product_coords sh) /\ forall p, In p (product_coords sh) -> length p = length sh.
Proof. intro sh. split. exact (product_coords_NoDup sh). exact (product_coords_length sh). Qed.

Lemma schedules_exist : forall (A : Type) (ts : list (list A)),
  interleave ts (concat ts) /\ forall sched, interleave ts (merge_by sched ts).
Proof. intros A ts. split. apply interleave_concat. intro sched. apply merge_by_interleave. Qed.

Local Open Scope Z_scope.
Definition ex_tasks : list (list (write Z)) :=
  [ [mkW (0, [0; 1]) 11; mkW (1, [0; 0]) 12];
    [mkW (0, [1; 0]) 21; mkW (1, [1; 2]) 22];
    [mkW (0, [2; 2]) 31; mkW (1, [2; 1]) 32] ].
Definition ex_cells : list cell :=
  flat_map (fun r => flat_map (fun i => map (fun j => (r, [i; j])) [0; 1; 2]) [0; 1; 2]) [0; 1].
(* a cube with 5 sub-cubes (one extra axis of extent 5), one region, one write per task *)
Definition ex_cube5 : cube Z (list Z) :=
  mkCube (map (fun i => [mkW (0, [Z.of_nat i; 0]) (10 + Z.of_nat i)]) (seq 0 5))
         (fun _ => 0)
         (map (fun i => (0, [Z.of_nat i; 0])) (seq 0 5))
         (fun l => l) (fun j => 2 + Z.of_nat j) (fun _ => 1) false.
Local Close Scope Z_scope.
