(* Conc/Interrupt.v - `calculate` of ccube / xcube as a state machine over the list of
   sub-cubes, with the caller's interrupt callback as an oracle (definitions only).

   Deliberately stateful (DESIGN 1.1): the mutable diagnostic fields of the cube object and of
   the aggregate objects are threaded through every call as [diag] and survive an aborted call,
   so that "an aborted call leaves nothing behind that a later call reads" (theorem [reuse]) is a
   statement with content.  The result regions are NOT part of that state: they are created
   inside calculate from the immutable inputs ([c_init], get_initial_regions) - the variant in
   which they live on the object is [calculate_serial_from] with a leftover store, for which the
   reuse statement is refuted in ConcProofs.v.

   ccubes.py / xcubes.py, `calculate`:
       results = [func.get_initial_regions(self) for func in funcs]      -> enter
       def fill_one_cube(sub):                                           -> fill_one
           if self.check_interrupt is not None: self.check_interrupt()   -> consult (may raise)
           ... fill the block selected by the sub-cube's coordinates ... -> fill
       serial:  for sub in self.product(): fill_one_cube(sub)            -> serial_loop
       pooled:  pool.map(fill_one_cube, self.product())                  -> pstep / pooled_run
       output = [func.reduce(self, regions) ...]                         -> result
*)
From Coq Require Import ZArith List Bool Arith.
From Catii Require Import Conc.Interleave Conc.Pool.
Import ListNotations.

(* The mutable diagnostic fields:
     d_idp   ccube.intersection_data_points  (accumulates over calls, never reset)
     d_fills sum of the aggregates' tracing["count"] (ffunc objects; accumulates over calls)
     d_xtr   sum of xcube._tracing[f]["count"]  (the dict is re-created by every calculate) *)
Record diag : Type := mkD { d_idp : Z; d_fills : Z; d_xtr : Z }.

Inductive outcome (R : Type) : Type :=
| Returned (r : R)
| Raised (inv task : nat)         (* the exception raised by invocation number inv, made for sub-cube task *)
| Hung.                           (* calculate never returns *)
Arguments Returned {R} r.
Arguments Raised {R} inv task.
Arguments Hung {R}.

Section Calc.
  Variables V R : Type.

  (* everything calculate reads: immutable *)
  Record cube : Type := mkCube {
    c_tasks : list (list (write V));   (* sub-cube j's writes, in product order *)
    c_init : store V;                  (* freshly created regions incl. corner values *)
    c_cells : list cell;               (* all cells of the regions, as reduce reads them *)
    c_reduce : list V -> R;
    c_cost : nat -> Z;                 (* sub-cube j's contribution to intersection_data_points *)
    c_nfill : nat -> Z;                (* number of fill calls of sub-cube j (tracing counts) *)
    c_resets : bool                    (* xcube: self._tracing = {} at the start of calculate *)
  }.

  Variable cu : cube.
  (* the callback: does invocation number inv (counted within this call, from 0), made at the
     start of sub-cube task, raise?  Serial mode has inv = task. *)
  Variable raises : nat -> nat -> bool.
  (* is the object raised there an instance of Exception?  multiprocessing.pool.worker relays
     only those (`except Exception`); any other BaseException (KeyboardInterrupt, SystemExit, a
     class derived from BaseException) kills the worker thread, the batch's result never reaches
     the result handler and pool.map blocks for ever.  Serial mode propagates everything.
     Known finding C20 pooled:non-Exception-interrupt-hangs; [pooled_outcome] is stated for
     relayed exceptions, [pooled_non_exception_hangs] exhibits the gap. *)
  Variable relayed : nat -> nat -> bool.

  Definition nsub : nat := length (c_tasks cu).

  Record cstate : Type := mkC {
    s_store : store V;
    s_diag : diag;
    s_inv : nat;                       (* invocations of the callback so far *)
    s_log : list (nat * nat)           (* (invocation number, sub-cube) in consultation order *)
  }.

  Definition bump (d : diag) (j : nat) : diag :=
    mkD (d_idp d + c_cost cu j) (d_fills d + c_nfill cu j) (d_xtr d + c_nfill cu j).

  Definition enter_from (s0 : store V) (d : diag) : cstate :=
    mkC s0 (if c_resets cu then mkD (d_idp d) (d_fills d) 0 else d) 0 [].

  Definition enter (d : diag) : cstate := enter_from (c_init cu) d.

  Definition consult (st : cstate) (j : nat) : cstate :=
    mkC (s_store st) (s_diag st) (S (s_inv st)) (s_log st ++ [(s_inv st, j)]).

  Definition fill (st : cstate) (j : nat) : cstate :=
    mkC (run (nth j (c_tasks cu) []) (s_store st)) (bump (s_diag st) j) (s_inv st) (s_log st).

  (* fill_one_cube: the callback first; if it raises nothing of the sub-cube is done *)
  Definition fill_one (st : cstate) (j : nat) : cstate * bool :=
    if raises (s_inv st) j then (consult st j, true) else (fill (consult st j) j, false).

  Definition result (st : cstate) : R := reduce_with (c_cells cu) (c_reduce cu) (s_store st).

  Record report : Type := mkRep { r_out : outcome R; r_log : list (nat * nat); r_diag : diag }.

  (* ---- serial mode: the for loop stops at the first raising invocation ---- *)

  Fixpoint serial_loop (js : list nat) (st : cstate) : cstate * option (nat * nat) :=
    match js with
    | [] => (st, None)
    | j :: js' =>
        match fill_one st j with
        | (st', true) => (st', Some (s_inv st, j))
        | (st', false) => serial_loop js' st'
        end
    end.

  Definition calculate_serial_from (s0 : store V) (d : diag) : report :=
    let '(st, e) := serial_loop (seq 0 nsub) (enter_from s0 d) in
    mkRep (match e with Some (n, j) => Raised n j | None => Returned (result st) end)
          (s_log st) (s_diag st).

  Definition calculate_serial (d : diag) : report := calculate_serial_from (c_init cu) d.

  (* ---- pooled mode ---- *)

  Record pstate : Type := mkP {
    p_rem : list (list nat);           (* per batch: the sub-cubes not yet started *)
    p_c : cstate;
    p_raised : list (nat * nat);       (* exceptions, in the order in which they were raised *)
    p_done : list nat;                 (* sub-cubes filled, in completion order *)
    p_skipped : list nat;              (* sub-cubes never started: rest of an aborted batch *)
    p_dead : bool                      (* a worker died with a non-relayed exception *)
  }.

  (* batch j performs its next item (sub-cube granularity; the write-level interleaving inside
     the fills is the subject of C16 and does not change the final store) *)
  Definition pstep (st : pstate) (j : nat) : pstate :=
    match nth j (p_rem st) [] with
    | [] => st
    | i :: rest =>
        match fill_one (p_c st) i with
        | (c', true) =>
            if relayed (s_inv (p_c st)) i then
              mkP (set_nth j [] (p_rem st)) c' (p_raised st ++ [(s_inv (p_c st), i)])
                  (p_done st) (p_skipped st ++ rest) (p_dead st)
            else
              mkP (set_nth j [] (p_rem st)) c' (p_raised st)
                  (p_done st) (p_skipped st ++ rest) true
        | (c', false) => mkP (set_nth j rest (p_rem st)) c' (p_raised st)
                             (p_done st ++ [i]) (p_skipped st) (p_dead st)
        end
    end.

  Fixpoint first_nonempty (rem : list (list nat)) (j : nat) : option nat :=
    match rem with
    | [] => None
    | [] :: r => first_nonempty r (S j)
    | (_ :: _) :: _ => Some j
    end.

  (* pool.map returns only when every batch is finished: whatever the schedule left over is run
     to the end (fuel = number of sub-cubes; every such step starts or skips at least one) *)
  Fixpoint drain (fuel : nat) (st : pstate) : pstate :=
    match fuel with
    | O => st
    | S f =>
        match first_nonempty (p_rem st) 0 with
        | None => st
        | Some j => drain f (pstep st j)
        end
    end.

  Definition pstart (chunking : list (list nat)) (d : diag) : pstate :=
    mkP chunking (enter d) [] [] [] false.

  (* sched: which batch takes the next step, for as long as the list goes - any list is a
     schedule, so this ranges over every pool size and every preemption pattern *)
  Definition pooled_run (chunking : list (list nat)) (sched : list nat) (d : diag) : pstate :=
    drain (length (concat chunking)) (fold_left pstep sched (pstart chunking d)).

  (* pick: which of the stored exceptions reached the result handler first *)
  Definition calculate_pooled (chunking : list (list nat)) (sched : list nat) (pick : nat)
             (d : diag) : report :=
    let st := pooled_run chunking sched d in
    mkRep (if p_dead st then Hung else
           match p_raised st with
           | [] => Returned (result (p_c st))
           | e :: es => let '(n, j) := nth pick (e :: es) e in Raised n j
           end)
          (s_log (p_c st)) (s_diag (p_c st)).

  (* the pool the code creates: ThreadPool(poolsize).map over the product *)
  Definition calculate_threadpool (poolsize : nat) (sched : list nat) (pick : nat) (d : diag) : report :=
    calculate_pooled (pool_chunks poolsize (seq 0 nsub)) sched pick d.
End Calc.

Arguments mkCube {V R} _ _ _ _ _ _ _.
Arguments c_tasks {V R} _.
Arguments c_init {V R} _.
Arguments c_cells {V R} _.
Arguments c_reduce {V R} _.
Arguments c_cost {V R} _ _.
Arguments c_nfill {V R} _ _.
Arguments c_resets {V R} _.
Arguments nsub {V R} _.
Arguments mkC {V} _ _ _ _.
Arguments s_store {V} _.
Arguments s_diag {V} _.
Arguments s_inv {V} _.
Arguments s_log {V} _.
Arguments bump {V R} _ _ _.
Arguments enter_from {V R} _ _ _.
Arguments enter {V R} _ _.
Arguments consult {V} _ _.
Arguments fill {V R} _ _ _.
Arguments fill_one {V R} _ _ _ _.
Arguments result {V R} _ _.
Arguments mkRep {R} _ _ _.
Arguments r_out {R} _.
Arguments r_log {R} _.
Arguments r_diag {R} _.
Arguments serial_loop {V R} _ _ _ _.
Arguments calculate_serial_from {V R} _ _ _ _.
Arguments calculate_serial {V R} _ _ _.
Arguments mkP {V} _ _ _ _ _ _.
Arguments p_rem {V} _.
Arguments p_c {V} _.
Arguments p_raised {V} _.
Arguments p_done {V} _.
Arguments p_skipped {V} _.
Arguments p_dead {V} _.
Arguments pstep {V R} _ _ _ _ _.
Arguments drain {V R} _ _ _ _ _.
Arguments pstart {V R} _ _ _.
Arguments pooled_run {V R} _ _ _ _ _ _.
Arguments calculate_pooled {V R} _ _ _ _ _ _ _.
Arguments calculate_threadpool {V R} _ _ _ _ _ _ _.

(* the least i in [start, start+n) with p i *)
Fixpoint find_from (p : nat -> bool) (start n : nat) : option nat :=
  match n with
  | O => None
  | S n' => if p start then Some start else find_from p (S start) n'
  end.
Definition find_first (p : nat -> bool) (n : nat) : option nat := find_from p 0 n.

Definition diag_log (n : nat) : list (nat * nat) := map (fun i => (i, i)) (seq 0 n).
