(* Conc/Interleave.v - the shared-store model behind C16 (definitions only; proofs in ConcProofs.v).

   The model is deliberately NOT purely functional (DESIGN 1.1): there is one shared store that
   all worker tasks write into, one shared unsynchronised diagnostics counter that they
   read-modify-write, and the set of schedules is the inductively defined set of ALL merges of
   the tasks' event lists that keep each task's own order.  That set contains every pool size and
   every chunking (a worker that runs some tasks one after another is one particular merge; see
   [interleave_nested] / [pool_schedule_serial] in ConcProofs.v).

   What a task is: the list of atomic events one sub-cube performs, computed from the immutable
   inputs only - its type is a list, not a function of the store, so a task cannot read the
   regions.  That the REAL tasks have this shape (write only, only inside their own block) is
   not provable here; it is validated at run time by harness/props/c16.py (each real task run
   alone on garbage-filled regions).  One NumPy item / slice assignment is taken to be one atomic
   write (GIL assumption). *)
From Coq Require Import ZArith List Bool.
From Catii Require Import Base.Cases.
Import ListNotations.

(* A cell of the shared result regions: (region id, full coordinates in that region).  The
   region id numbers the arrays of all aggregates of one calculate call consecutively. *)
Definition cell : Type := (Z * list Z)%type.

Definition cell_eqb (a b : cell) : bool := Z.eqb (fst a) (fst b) && zlist_eqb (snd a) (snd b).

Section Store.
  Variable V : Type.                       (* cell contents; instantiated with the 64-bit pattern *)

  Record write : Type := mkW { w_cell : cell; w_val : V }.

  Definition store : Type := cell -> V.

  Definition set (s : store) (c : cell) (v : V) : store :=
    fun c' => if cell_eqb c' c then v else s c'.

  Definition apply_write (s : store) (w : write) : store := set s (w_cell w) (w_val w).

  (* fold the writes, in trace order, into the shared store *)
  Definition run (tr : list write) (s : store) : store := fold_left apply_write tr s.

  Definition cells (t : list write) : list cell := map w_cell t.

  Definition disjoint (a b : list cell) : Prop := forall c, In c a -> ~ In c b.

  Definition pairwise_disjoint (ts : list (list write)) : Prop :=
    forall i j, i <> j -> disjoint (cells (nth i ts [])) (cells (nth j ts [])).

  (* the footprint shape of the real tasks: every cell a task writes lies in the block selected
     by the task's own sub-cube coordinates [p] (region[tuple(flattened_slice)] is a view whose
     cells are exactly the cells p ++ inner of the region) *)
  Definition prefixed (p : list Z) (t : list write) : Prop :=
    forall w, In w t -> exists inner, snd (w_cell w) = p ++ inner.

  (* what `reduce` may look at: the contents of a fixed list of cells (all cells of the regions),
     read out in a fixed order, passed to an arbitrary function *)
  Definition snapshot (cs : list cell) (s : store) : list V := map s cs.
  Definition reduce_with {R : Type} (cs : list cell) (f : list V -> R) (s : store) : R :=
    f (snapshot cs s).

  (* ---- the full task machine: writes + the unsynchronised diagnostics counter ---- *)

  (* `self.intersection_data_points += n`, `tracing["count"] += 1`, `bucket["elapsed"] += dt` are
     LOAD ; ADD ; STORE sequences on a shared location with the loaded value held in a
     thread-local register (the evaluation stack) in between. *)
  Inductive action : Type :=
  | AWrite (w : write)
  | ALoad                       (* reg[tid] := counter *)
  | AStore (d : Z).             (* counter := reg[tid] + d *)

  Record event : Type := mkE { e_tid : nat; e_act : action }.

  Record mstate : Type := mkM { m_store : store; m_ctr : Z; m_regs : nat -> Z }.

  Definition step (st : mstate) (e : event) : mstate :=
    match e_act e with
    | AWrite w => mkM (apply_write (m_store st) w) (m_ctr st) (m_regs st)
    | ALoad => mkM (m_store st) (m_ctr st)
                   (fun t => if Nat.eqb t (e_tid e) then m_ctr st else m_regs st t)
    | AStore d => mkM (m_store st) (m_regs st (e_tid e) + d)%Z (m_regs st)
    end.

  Definition exec (tr : list event) (st : mstate) : mstate := fold_left step tr st.

  Definition writes_of (tr : list event) : list write :=
    flat_map (fun e => match e_act e with AWrite w => [w] | _ => [] end) tr.
End Store.

Arguments mkW {V} _ _.
Arguments w_cell {V} _.
Arguments w_val {V} _.
Arguments set {V} _ _ _ _.
Arguments apply_write {V} _ _ _.
Arguments run {V} _ _ _.
Arguments cells {V} _.
Arguments pairwise_disjoint {V} _.
Arguments prefixed {V} _ _.
Arguments snapshot {V} _ _.
Arguments reduce_with {V R} _ _ _.
Arguments AWrite {V} _.
Arguments ALoad {V}.
Arguments AStore {V} _.
Arguments mkE {V} _ _.
Arguments e_tid {V} _.
Arguments e_act {V} _.
Arguments mkM {V} _ _ _.
Arguments m_store {V} _.
Arguments m_ctr {V} _.
Arguments m_regs {V} _ _.
Arguments step {V} _ _.
Arguments exec {V} _ _.
Arguments writes_of {V} _.

(* All schedules: at every step ANY task that still has events performs its next one.  Nothing
   else constrains the order, so every pool size, chunking and preemption pattern is a member. *)
Inductive interleave {A : Type} : list (list A) -> list A -> Prop :=
| il_done : forall ts, Forall (fun t => t = []) ts -> interleave ts []
| il_step : forall ts1 x t ts2 tr,
    interleave (ts1 ++ t :: ts2) tr ->
    interleave (ts1 ++ (x :: t) :: ts2) (x :: tr).

(* ---- the sub-cube coordinates: itertools.product over the extra axes ---- *)

(* product [e1; ...; en] = all coordinate lists [c1; ...; cn] with 0 <= ci < ei, first axis
   outermost (the order of itertools.product over range(e1), ..., range(en)) *)
Fixpoint product_coords (shape : list nat) : list (list Z) :=
  match shape with
  | [] => [[]]
  | e :: sh => flat_map (fun i => map (cons (Z.of_nat i)) (product_coords sh)) (seq 0 e)
  end.

(* a schedule given as the list of task numbers in the order in which they take steps
   (used by the executable checker and by Examples): task j performs its next event *)
Fixpoint merge_by {A : Type} (sched : list nat) (ts : list (list A)) : list A :=
  match sched with
  | [] => concat ts                                   (* whatever is left runs serially *)
  | j :: sched' =>
      match nth j ts [] with
      | [] => merge_by sched' ts
      | x :: t => x :: merge_by sched' (firstn j ts ++ t :: skipn (S j) ts)
      end
  end.
