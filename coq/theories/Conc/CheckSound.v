(* Conc/CheckSound.v - soundness of the executable C16 checkers of Conc/Check.v with respect to the
   hypotheses of the C16 theorems: a correspondence case on which [c16_check] evaluates to true is a
   case whose observed tasks satisfy the footprint hypotheses, hence (by [interleave_serial]) EVERY
   interleaving of the observed tasks' writes - not only the schedules that were run - leaves the
   regions as the observed serial run left them. *)
From Coq Require Import ZArith List Bool Lia Arith.
From Catii Require Import Base.Cases Conc.Interleave Conc.Pool Conc.Interrupt Conc.ConcProofs Conc.Check.
Import ListNotations.

Lemma prefix_b_sound : forall p c, prefix_b p c = true -> exists inner, c = p ++ inner.
Proof.
  intros p c H. unfold prefix_b in H. apply zlist_eqb_eq in H.
  exists (skipn (length p) c). rewrite H at 1. symmetry. apply firstn_skipn.
Qed.

Lemma prefixed_b_sound : forall p (t : list (write Z)), prefixed_b p t = true -> prefixed p t.
Proof.
  intros p t H w Hw. unfold prefixed_b in H. rewrite forallb_forall in H.
  apply prefix_b_sound. apply H. exact Hw.
Qed.

Lemma forallb2_Forall2 : forall (A B : Type) (f : A -> B -> bool) (P : A -> B -> Prop),
  (forall a b, f a b = true -> P a b) ->
  forall l l', forallb2 f l l' = true -> Forall2 P l l'.
Proof.
  intros A B f P HfP. induction l as [|a l IH]; intros [|b l'] H; cbn [forallb2] in H; try discriminate.
  - constructor.
  - apply andb_true_iff in H. destruct H as [H1 H2]. constructor; auto.
Qed.

Lemma mem_zl_false : forall p l, mem_zl p l = false -> ~ In p l.
Proof.
  intros p l H Hin. unfold mem_zl in H.
  assert (existsb (zlist_eqb p) l = true) as E.
  { apply existsb_exists. exists p. split; [exact Hin|]. apply zlist_eqb_eq. reflexivity. }
  rewrite E in H. discriminate.
Qed.

Lemma nodup_zl_sound : forall l, nodup_zl l = true -> NoDup l.
Proof.
  induction l as [|p l IH]; intros H; cbn [nodup_zl] in H.
  - constructor.
  - apply andb_true_iff in H. destruct H as [H1 H2]. constructor.
    + apply mem_zl_false. apply negb_true_iff. exact H1.
    + auto.
Qed.

Lemma coords_ok_b_sound : forall shape coords, coords_ok_b shape coords = true ->
  NoDup coords /\ forall p, In p coords -> length p = length shape.
Proof.
  intros shape coords H. unfold coords_ok_b in H.
  apply andb_true_iff in H. destruct H as [H H3].
  apply andb_true_iff in H. destruct H as [_ H2].
  split.
  - apply nodup_zl_sound. exact H2.
  - intros p Hp. rewrite forallb_forall in H3. specialize (H3 p Hp).
    apply andb_true_iff in H3. destruct H3 as [_ H3]. apply Nat.eqb_eq in H3. exact H3.
Qed.

(* the boolean footprint checker establishes the hypotheses of Properties/C16.v *)
Lemma c16_footprints_sound : forall shape coords (tasks : list (list (write Z))),
  footprints_ok_b shape coords tasks = true ->
  Forall2 (@prefixed Z) coords tasks /\ NoDup coords /\ (forall p, In p coords -> length p = length shape).
Proof.
  intros shape coords tasks H. unfold footprints_ok_b in H.
  apply andb_true_iff in H. destruct H as [H1 H2].
  apply coords_ok_b_sound in H1. destruct H1 as [ND Len].
  split; [|split; assumption].
  apply (forallb2_Forall2 _ _ prefixed_b (@prefixed Z) prefixed_b_sound). exact H2.
Qed.

Lemma c16_footprints_disjoint : forall shape coords (tasks : list (list (write Z))),
  footprints_ok_b shape coords tasks = true -> pairwise_disjoint tasks.
Proof.
  intros shape coords tasks H. apply c16_footprints_sound in H. destruct H as [F [ND Len]].
  intros i j Hij. exact (footprint_disjoint Z coords tasks (length shape) F ND Len i j Hij).
Qed.

(* a passing correspondence case: every interleaving of the observed tasks' writes, started on the
   observed fresh regions, leaves every cell as the observed serial run left it *)
Theorem c16_check_sound : forall c : c16case, c16_check c = true ->
  forall tr, interleave (c16_tasks c) tr ->
  snapshot (c16_cells c) (run tr (c16_init c)) = c16_serial_final c.
Proof.
  intros c H tr Htr.
  destruct c as [[[[[[shape coords] tlits] init] [fin_s fin_p]] sched] flag].
  cbn [c16_tasks c16_cells c16_init c16_serial_final] in *.
  unfold c16_check in H.
  apply andb_true_iff in H; destruct H as [H _].
  apply andb_true_iff in H; destruct H as [H _].
  apply andb_true_iff in H; destruct H as [H _].
  apply andb_true_iff in H; destruct H as [H _].
  apply andb_true_iff in H; destruct H as [H Hs].
  apply zlist_eqb_eq in Hs; rewrite <- Hs.
  apply snapshot_ext. intros cl.
  apply interleave_serial; [|exact Htr].
  eapply c16_footprints_disjoint. exact H.
Qed.
