(* Conc/CheckSound.v - soundness of the executable C16 checkers of Conc/Check.v with respect to the
   hypotheses of the C16 theorems: a correspondence case on which [c16_check] evaluates to true is a
   case whose observed tasks satisfy the footprint hypotheses, hence (by [interleave_serial]) EVERY
   interleaving of the observed tasks' writes - not only the schedules that were run - leaves the
   regions as the observed serial run left them. *)
From Coq Require Import ZArith List Bool Lia Arith.
From Catii Require Import Base.Cases Conc.Interleave Conc.Pool Conc.Interrupt Conc.ConcProofs Conc.Check.
Import ListNotations.

Lemma prefix_b_sound : forall p c, prefix_b p c = true -> exists inner, c = p ++ inner.
Proof.
  intros p c H. unfold prefix_b in H. apply zlist_eqb_eq in H.
  exists (skipn (length p) c). rewrite H at 1. symmetry. apply firstn_skipn.
Qed.

Lemma prefixed_b_sound : forall p (t : list (write Z)), prefixed_b p t = true -> prefixed p t.
Proof.
  intros p t H w Hw. unfold prefixed_b in H. rewrite forallb_forall in H.
  apply prefix_b_sound. apply H. exact Hw.
Qed.

Lemma forallb2_Forall2 : forall (A B : Type) (f : A -> B -> bool) (P : A -> B -> Prop),
  (forall a b, f a b = true -> P a b) ->
  forall l l', forallb2 f l l' = true -> Forall2 P l l'.
Proof.
  intros A B f P HfP. induction l as [|a l IH]; intros [|b l'] H; cbn [forallb2] in H; try discriminate.
  - constructor.
  - apply andb_true_iff in H. destruct H as [H1 H2]. constructor; auto.
Qed.

Lemma mem_zl_false : forall p l, mem_zl p l = false -> ~ In p l.
Proof.
  intros p l H Hin. unfold mem_zl in H.
  assert (existsb (zlist_eqb p) l = true) as E.
  { apply existsb_exists. exists p. split; [exact Hin|]. apply zlist_eqb_eq. reflexivity. }
  rewrite E in H. discriminate.
Qed.

Lemma nodup_zl_sound : forall l, nodup_zl l = true -> NoDup l.
Proof.
  induction l as [|p l IH]; intros H; cbn [nodup_zl] in H.
  - constructor.
  - apply andb_true_iff in H. destruct H as [H1 H2]. constructor.
    + apply mem_zl_false. apply negb_true_iff. exact H1.
    + auto.
Qed.

Lemma coords_ok_b_sound : forall shape coords, coords_ok_b shape coords = true ->
  NoDup coords /\ forall p, In p coords -> length p = length shape.
Proof.
  intros shape coords H. unfold coords_ok_b in H.
  apply andb_true_iff in H. destruct H as [H H3].
  apply andb_true_iff in H. destruct H as [_ H2].
  split.
  - apply nodup_zl_sound. exact H2.
  - intros p Hp. rewrite forallb_forall in H3. specialize (H3 p Hp).
    apply andb_true_iff in H3. destruct H3 as [_ H3]. apply Nat.eqb_eq in H3. exact H3.
Qed.

(* the boolean footprint checker establishes the hypotheses of Properties/C16.v *)
Lemma c16_footprints_sound : forall shape coords (tasks : list (list (write Z))),
  footprints_ok_b shape coords tasks = true ->
  Forall2 (@prefixed Z) coords tasks /\ NoDup coords /\ (forall p, In p coords -> length p = length shape).
Proof.
  intros shape coords tasks H. unfold footprints_ok_b in H.
  apply andb_true_iff in H. destruct H as [H1 H2].
  apply coords_ok_b_sound in H1. destruct H1 as [ND Len].
  split; [|split; assumption].
  apply (forallb2_Forall2 _ _ prefixed_b (@prefixed Z) prefixed_b_sound). exact H2.
Qed.

Lemma c16_footprints_disjoint : forall shape coords (tasks : list (list (write Z))),
  footprints_ok_b shape coords tasks = true -> pairwise_disjoint tasks.
Proof.
  intros shape coords tasks H. apply c16_footprints_sound in H. destruct H as [F [ND Len]].
  intros i j Hij. exact (footprint_disjoint Z coords tasks (length shape) F ND Len i j Hij).
Qed.

(* a passing correspondence case: every interleaving of the observed tasks' writes, started on the
   observed fresh regions, leaves every cell as the observed serial run left it *)
Theorem c16_check_sound : forall c : c16case, c16_check c = true ->
  forall tr, interleave (c16_tasks c) tr ->
  snapshot (c16_cells c) (run tr (c16_init c)) = c16_serial_final c.
Proof.
  intros c H tr Htr.
  destruct c as [[[[[[shape coords] tlits] init] [fin_s fin_p]] sched] flag].
  cbn [c16_tasks c16_cells c16_init c16_serial_final] in *.
  unfold c16_check in H.
  apply andb_true_iff in H; destruct H as [H _].
  apply andb_true_iff in H; destruct H as [H _].
  apply andb_true_iff in H; destruct H as [H _].
  apply andb_true_iff in H; destruct H as [H _].
  apply andb_true_iff in H; destruct H as [H Hs].
  apply zlist_eqb_eq in Hs; rewrite <- Hs.
  apply snapshot_ext. intros cl.
  apply interleave_serial; [|exact Htr].
  eapply c16_footprints_disjoint. exact H.
Qed.

(* ---------------- C20: what a passing SERIAL correspondence case says ---------------- *)

Lemma zz_eqb_eq : forall a b : Z * Z, zz_eqb a b = true -> a = b.
Proof.
  intros [a1 a2] [b1 b2] H. unfold zz_eqb in H. cbn [fst snd] in H.
  apply andb_true_iff in H. destruct H as [H1 H2].
  apply Z.eqb_eq in H1. apply Z.eqb_eq in H2. subst. reflexivity.
Qed.

Lemma list_eqb_zz_eq : forall a b : list (Z * Z), list_eqb zz_eqb a b = true -> a = b.
Proof.
  induction a as [|x a IH]; intros [|y b] H; cbn [list_eqb] in H; try discriminate.
  - reflexivity.
  - apply andb_true_iff in H. destruct H as [H1 H2].
    apply zz_eqb_eq in H1. apply IH in H2. subst. reflexivity.
Qed.

Lemma nsub_dummy_cube : forall k costs nfills resets, nsub (dummy_cube k costs nfills resets) = k.
Proof. intros. unfold nsub, dummy_cube. cbn [c_tasks]. rewrite map_length, seq_length. reflexivity. Qed.

(* A serial case (p = 0) on which [c20_check] evaluates to true is an observation that satisfies the
   property text literally: with i the least invocation index at which the harness' callback raised,
   the exception object that came out of calculate is the one raised there, after exactly i+1
   consultations of sub-cubes 0..i in order; if none raised, calculate returned after consulting every
   sub-cube exactly once, in order; and both result flags (returned result = fresh evaluation,
   follow-up call on the same objects = fresh evaluation) were observed true. *)
Theorem c20_serial_case_sound : forall k T N log obs costs nfills resets d0 d1 flags,
  c20_check (0%Z, k, (T, N), log, obs, (costs, nfills, resets), (d0, d1), flags) = true ->
  flags = true /\
  match find_first (fun i => oracle T N i i) (Z.to_nat k) with
  | Some i => obs = Some (Z.of_nat i, Z.of_nat i) /\ log = map nn_to_zz (diag_log (S i))
  | None => obs = None /\ log = map nn_to_zz (diag_log (Z.to_nat k))
  end.
Proof.
  intros k T N log obs costs nfills resets d0 d1 flags H.
  unfold c20_check, c20_model in H. cbn [Z.eqb] in H.
  set (cu := dummy_cube (Z.to_nat k) costs nfills resets) in *.
  pose proof (serial_outcome_from Z (list Z) cu (oracle T N) (c_init cu) (diag_of d0)) as S.
  cbn zeta in S. fold (calculate_serial cu (oracle T N) (diag_of d0)) in S.
  unfold cu in S at 1. rewrite nsub_dummy_cube in S. fold cu in S.
  apply andb_true_iff in H. destruct H as [H Hd].
  apply andb_true_iff in H. destruct H as [H _].
  apply andb_true_iff in H. destruct H as [H Ho].
  apply andb_true_iff in H. destruct H as [Hf Hl].
  split; [exact Hf|].
  apply list_eqb_zz_eq in Hl.
  unfold ConcProofs.rs in S.
  destruct (find_first (fun i : nat => oracle T N i i) (Z.to_nat k)) as [i|].
  - destruct S as [S1 [S2 _]]. rewrite S1 in Ho. rewrite S2 in Hl. split; [|symmetry; exact Hl].
    unfold out_eqb in Ho. destruct obs as [e|]; [|discriminate].
    apply zz_eqb_eq in Ho. rewrite <- Ho. reflexivity.
  - destruct S as [S1 [S2 _]]. rewrite S1 in Ho. rewrite S2 in Hl. unfold cu in Hl. rewrite nsub_dummy_cube in Hl.
    split; [|symmetry; exact Hl].
    unfold out_eqb in Ho. destruct obs; [discriminate|reflexivity].
Qed.
