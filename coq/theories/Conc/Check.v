(* Conc/Check.v - executable checkers used by the correspondence suites of C16 and C20
   (harness/props/c16.py, c20.py).  No proofs here; the soundness of the boolean footprint
   checkers with respect to the hypotheses of the C16 theorems is in Conc/CheckSound.v
   ([c16_footprints_sound], [c16_check_sound]).  Literals written by the harness use Z everywhere. *)
From Coq Require Import ZArith List Bool Arith.
From Catii Require Import Base.Cases Conc.Interleave Conc.Pool Conc.Interrupt.
Import ListNotations.

(* ---------------- C16 ---------------- *)

Definition wlit : Type := (Z * list Z * Z)%type.          (* region id, coordinates, 64-bit pattern *)

Definition mk_write (t : wlit) : write Z := let '(r, c, v) := t in mkW (r, c) v.
Definition wlit_cell (t : wlit) : cell := (fst (fst t), snd (fst t)).

(* the store given by listing its cells (cells not listed read 0) *)
Definition store_of (l : list wlit) : store Z :=
  fun c => match find (fun t => cell_eqb (wlit_cell t) c) l with
           | Some t => snd t
           | None => 0%Z
           end.

Definition prefix_b (p c : list Z) : bool := zlist_eqb p (firstn (length p) c).
Definition prefixed_b (p : list Z) (t : list (write Z)) : bool :=
  forallb (fun w => prefix_b p (snd (w_cell w))) t.

Definition mem_zl (p : list Z) (l : list (list Z)) : bool := existsb (zlist_eqb p) l.

Fixpoint nodup_zl (l : list (list Z)) : bool :=
  match l with
  | [] => true
  | p :: l' => negb (mem_zl p l') && nodup_zl l'
  end.

(* the observed sub-cube coordinates are pairwise distinct, one per point of the extra axes *)
Definition coords_ok_b (shape : list nat) (coords : list (list Z)) : bool :=
  let prod := product_coords shape in
  Nat.eqb (length coords) (length prod) && nodup_zl coords &&
  forallb (fun p => mem_zl p prod && Nat.eqb (length p) (length shape)) coords.

Fixpoint forallb2 {A B : Type} (f : A -> B -> bool) (a : list A) (b : list B) : bool :=
  match a, b with
  | [], [] => true
  | x :: a', y :: b' => f x y && forallb2 f a' b'
  | _, _ => false
  end.

Definition footprints_ok_b (shape : list nat) (coords : list (list Z)) (tasks : list (list (write Z))) : bool :=
  coords_ok_b shape coords && forallb2 prefixed_b coords tasks.

(* one (cube, aggregates) configuration as observed on the implementation:
     shape   the extents of the extra axes
     coords  per task (product order) its flattened sub-cube coordinates, as the real product() hands
             them to the task
     tasks   per task the cells it touched when run ALONE on garbage-filled regions (item assignments
             logged + cells whose content changed), with the values it left there
     init    every cell of the freshly created regions with its content
     fin_s   contents of all those cells (same order) when the real SERIAL run reaches reduce
     fin_p   the same for a real POOLED run under the deterministic scheduler
     sched   the schedule observed in that pooled run: task numbers in the order in which they
             performed their (final) write of a cell
     flag    established on the Python side: the cells touched and the values left by every task were
             identical under two different garbage fills (the task does not read the shared regions), and
             every item assignment logged in the pooled run landed in a cell of the same task's
             alone-run footprint *)
Definition c16case : Type :=
  (list Z * list (list Z) * list (list wlit) * list wlit * (list Z * list Z) * list Z * bool)%type.

Definition c16_tasks (c : c16case) : list (list (write Z)) :=
  let '(shape, coords, tlits, init, (fin_s, fin_p), sched, flag) := c in map (map mk_write) tlits.
Definition c16_cells (c : c16case) : list cell :=
  let '(shape, coords, tlits, init, (fin_s, fin_p), sched, flag) := c in map wlit_cell init.
Definition c16_init (c : c16case) : store Z :=
  let '(shape, coords, tlits, init, (fin_s, fin_p), sched, flag) := c in store_of init.
Definition c16_serial_final (c : c16case) : list Z :=
  let '(shape, coords, tlits, init, (fin_s, fin_p), sched, flag) := c in fin_s.

Definition c16_check (c : c16case) : bool :=
  let '(shape, coords, tlits, init, (fin_s, fin_p), sched, flag) := c in
  let tasks := map (map mk_write) tlits in
  let cs := map wlit_cell init in
  let s0 := store_of init in
  footprints_ok_b (map Z.to_nat shape) coords tasks &&
  zlist_eqb (snapshot cs (run (concat tasks) s0)) fin_s &&
  zlist_eqb (snapshot cs (run (merge_by (map Z.to_nat sched) tasks) s0)) fin_s &&
  zlist_eqb (snapshot cs (run (concat (rev tasks)) s0)) fin_s &&
  zlist_eqb fin_p fin_s && flag.

Definition c16_explain (c : c16case) :=
  let '(shape, coords, tlits, init, (fin_s, fin_p), sched, flag) := c in
  let tasks := map (map mk_write) tlits in
  let cs := map wlit_cell init in
  let s0 := store_of init in
  (coords_ok_b (map Z.to_nat shape) coords, forallb2 prefixed_b coords tasks,
   zlist_eqb (snapshot cs (run (concat tasks) s0)) fin_s,
   zlist_eqb (snapshot cs (run (merge_by (map Z.to_nat sched) tasks) s0)) fin_s,
   zlist_eqb fin_p fin_s, flag).

(* ---------------- C20 ---------------- *)

Definition zz_eqb (a b : Z * Z) : bool := Z.eqb (fst a) (fst b) && Z.eqb (snd a) (snd b).
Definition nn_to_zz (e : nat * nat) : Z * Z := (Z.of_nat (fst e), Z.of_nat (snd e)).
Definition memZb (x : Z) (l : list Z) : bool := existsb (Z.eqb x) l.

(* the callback used by the harness: raise when called for a sub-cube in T, or as invocation
   number in N *)
Definition oracle (T N : list Z) (n i : nat) : bool := memZb (Z.of_nat i) T || memZb (Z.of_nat n) N.

(* a stand-in cube with k sub-cubes (one write each); what the sub-cubes compute is not the
   subject of C20 - result equality is observed bit-for-bit by the harness and passed as a flag *)
Definition dummy_cube (k : nat) (costs nfills : list Z) (resets : bool) : cube Z (list Z) :=
  mkCube (map (fun i => [mkW (0%Z, [Z.of_nat i]) (Z.of_nat i)]) (seq 0 k))
         (fun _ => 0%Z)
         (map (fun i => (0%Z, [Z.of_nat i])) (seq 0 k))
         (fun l => l)
         (fun j => nth j costs 0%Z) (fun j => nth j nfills 0%Z) resets.

Fixpoint batch_of (chunking : list (list nat)) (i : nat) (b : nat) : nat :=
  match chunking with
  | [] => b
  | c :: rest => if existsb (Nat.eqb i) c then b else batch_of rest i (S b)
  end.

Definition diag_of (t : Z * Z * Z) : diag := let '(a, b, c) := t in mkD a b c.
Definition diag_eqb (a b : diag) : bool :=
  Z.eqb (d_idp a) (d_idp b) && Z.eqb (d_fills a) (d_fills b) && Z.eqb (d_xtr a) (d_xtr b).

Definition out_eqb (o : outcome (list Z)) (obs : option (Z * Z)) : bool :=
  match o, obs with
  | Returned _, None => true
  | Raised n i, Some e => zz_eqb (nn_to_zz (n, i)) e
  | _, _ => false
  end.

(* one observed call:
     p       0 = serial mode, otherwise the pool size
     k       number of sub-cubes
     T, N    the oracle (see [oracle])
     log     observed consultations in order: (invocation number, sub-cube)
     obs     None = calculate returned; Some (n, i) = it raised the exception object that
             invocation n / sub-cube i had raised (object identity)
     costs, nfills, resets, d0, d1   diagnostic bookkeeping (d1 = observed fields afterwards;
             compared in serial mode only, where the counters are not racy)
     flags   (a returned result was bit-identical to a fresh serial evaluation) &&
             (a following uninterrupted calculate on the SAME objects was, too) *)
Definition c20case : Type :=
  (Z * Z * (list Z * list Z) * list (Z * Z) * option (Z * Z) *
   (list Z * list Z * bool) * ((Z * Z * Z) * option (Z * Z * Z)) * bool)%type.

Definition c20_model (c : c20case) :=
  let '(p, k, (T, N), log, obs, (costs, nfills, resets), (d0, d1), flags) := c in
  let cu := dummy_cube (Z.to_nat k) costs nfills resets in
  let raises := oracle T N in
  if Z.eqb p 0 then
    let rep := calculate_serial cu raises (diag_of d0) in
    (r_out rep, map nn_to_zz (r_log rep), [] : list (Z * Z), r_diag rep)
  else
    let chunking := pool_chunks (Z.to_nat p) (seq 0 (Z.to_nat k)) in
    let sched := map (fun e => batch_of chunking (Z.to_nat (snd e)) 0) log in
    let st := pooled_run cu raises (fun _ _ => true) chunking sched (diag_of d0) in
    let raised := map nn_to_zz (p_raised st) in
    let pick := (fix idx (l : list (Z * Z)) (n : nat) : nat :=
                   match l, obs with
                   | e :: l', Some o => if zz_eqb e o then n else idx l' (S n)
                   | _, _ => 0
                   end) raised 0 in
    let rep := calculate_pooled cu raises (fun _ _ => true) chunking sched pick (diag_of d0) in
    (r_out rep, map nn_to_zz (r_log rep), raised, r_diag rep).

Definition c20_check (c : c20case) : bool :=
  let '(p, k, (T, N), log, obs, (costs, nfills, resets), (d0, d1), flags) := c in
  let '(out, mlog, raised, mdiag) := c20_model c in
  flags &&
  list_eqb zz_eqb mlog log &&
  out_eqb out obs &&
  (if Z.eqb p 0 then true
   else match obs with
        | None => match raised with [] => true | _ => false end
        | Some e => existsb (zz_eqb e) raised
        end) &&
  match d1 with
  | Some t => diag_eqb mdiag (diag_of t)
  | None => true
  end.

Definition c20_explain (c : c20case) :=
  let '(out, mlog, raised, mdiag) := c20_model c in
  (match out with Returned _ => None | Raised n i => Some (Z.of_nat n, Z.of_nat i) | Hung => Some ((-1)%Z, (-1)%Z) end,
   mlog, raised, (d_idp mdiag, d_fills mdiag, d_xtr mdiag)).
