(* Indx/Torn.v - C12: every strict prefix of a file whose size field records the true payload
   length is rejected by the loader, and at which stage.  Holds for every specification file
   (any word sizes, any data), hence for every file the writer produces. *)
From Coq Require Import ZArith List Bool Lia.
From Catii Require Import Base.Cases Indx.Bytes Indx.BytesFacts Indx.Layout Indx.Save Indx.Load Indx.RoundTrip.
Import ListNotations.
Open Scope Z_scope.


Lemma skipn_firstn {A} (l : list A) j k : (j <= k)%nat -> skipn j (firstn k l) = firstn (k - j) (skipn j l).
Proof. intros H. rewrite firstn_skipn_comm. replace (j + (k - j))%nat with k by lia. reflexivity. Qed.

Lemma window_prefix {A} (l : list A) j w k : (j <= k)%nat ->
  firstn w (skipn j (firstn k l)) = firstn (Nat.min w (k - j)) (skipn j l).
Proof. intros H. rewrite skipn_firstn by exact H. apply firstn_firstn. Qed.

Lemma zl_eqb_len_neq a b : length a <> length b -> zlist_eqb a b = false.
Proof.
  intros H. destruct (zlist_eqb a b) eqn:E; [|reflexivity]. apply zl_eqb_length in E. contradiction.
Qed.

(* a file with a truthful size field *)
Theorem torn_sized (P : list Z) (k : nat) : zlen P < 2 ^ 64 ->
  let file := magic ++ le_encode 8 (zlen P) ++ P in
  (k < length file)%nat -> load (firstn k file) = LErr (torn_stage k).
Proof.
  intros HP file Hk.
  assert (Lfile : length file = (16 + length P)%nat).
  { subst file. rewrite !app_length, le_encode_length. reflexivity. }
  assert (W0 : forall w, firstn w (firstn k file) = firstn (Nat.min w k) file).
  { intros w. apply firstn_firstn. }
  assert (F4 : firstn 4 file = magic4) by reflexivity.
  assert (F8 : firstn 4 (skipn 4 file) = version4) by reflexivity.
  assert (S8 : skipn 8 file = le_encode 8 (zlen P) ++ P) by reflexivity.
  unfold load, torn_stage.
  destruct (k <? 4)%nat eqn:K4.
  { apply Nat.ltb_lt in K4. rewrite W0, zl_eqb_len_neq; [reflexivity|].
    rewrite firstn_length. change (length magic4) with 4%nat. lia. }
  apply Nat.ltb_ge in K4.
  rewrite W0. replace (Nat.min 4 k) with 4%nat by lia. rewrite F4, zl_eqb_refl. cbn [negb].
  rewrite (window_prefix file 4 4 k) by lia.
  destruct (k <? 8)%nat eqn:K8.
  { apply Nat.ltb_lt in K8. rewrite zl_eqb_len_neq; [reflexivity|].
    rewrite firstn_length, skipn_length. change (length version4) with 4%nat. lia. }
  apply Nat.ltb_ge in K8.
  replace (Nat.min 4 (k - 4)) with 4%nat by lia. rewrite F8, zl_eqb_refl. cbn [negb].
  rewrite (window_prefix file 8 8 k) by lia.
  destruct (k <? 16)%nat eqn:K16.
  { apply Nat.ltb_lt in K16.
    assert (X : length (firstn (Nat.min 8 (k - 8)) (skipn 8 file)) <> 8%nat).
    { rewrite firstn_length, skipn_length. lia. }
    apply Nat.eqb_neq in X. rewrite X. reflexivity. }
  apply Nat.ltb_ge in K16.
  replace (Nat.min 8 (k - 8)) with 8%nat by lia.
  rewrite S8, (firstn_app_exact (le_encode 8 (zlen P))) by apply le_encode_length.
  rewrite le_encode_length. cbn [Nat.eqb negb].
  pose proof (zlen_nonneg P).
  rewrite le_roundtrip by (change (256 ^ Z.of_nat 8) with (2 ^ 64); lia).
  assert (X : zlen (firstn k file) <? 16 + zlen P = true).
  { apply Z.ltb_lt. unfold zlen. rewrite firstn_length. lia. }
  rewrite X, orb_true_r. reflexivity.
Qed.

Theorem torn_layout d0 iw rw es common k : admissible iw rw es common -> 0 <= d0 <= 255 ->
  (k < length (layout_d d0 iw rw es common))%nat ->
  load (firstn k (layout_d d0 iw rw es common)) = LErr (torn_stage k).
Proof.
  intros A Hd Hk. unfold layout_d in *. apply torn_sized; [|exact Hk].
  pose proof (payload_bound d0 iw rw es common A Hd).
  assert (2 ^ 63 < 2 ^ 64) by reflexivity. lia.
Qed.

Theorem C12_torn es common : ok es common ->
  exists bytes, save es common = SOk bytes /\
  forall k, (k < length bytes)%nat -> load (firstn k bytes) = LErr (torn_stage k).
Proof.
  intros O. eexists. split; [apply save_is_layout; exact O|].
  intros k Hk. apply torn_layout; [apply ok_admissible; exact O|lia|exact Hk].
Qed.

(* the form of the property text: a torn file never loads *)
Corollary C12_torn_rejected es common bytes : ok es common -> save es common = SOk bytes ->
  forall k, (k < length bytes)%nat -> exists s, load (firstn k bytes) = LErr s.
Proof.
  intros O Hs k Hk. destruct (C12_torn es common O) as (b & Hb & H).
  rewrite Hs in Hb. inversion Hb; subst. eexists. apply H. exact Hk.
Qed.
