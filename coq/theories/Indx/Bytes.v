(* Indx/Bytes.v - little-endian unsigned words over byte lists (a byte is a Z in 0..255).
   DEFINITIONS ONLY (used by the specification Layout.v and by the code models Save.v / Load.v); the
   lemmas are in BytesFacts.v.  The word size is a [nat] (1, 2, 4 or 8 in every use). *)
From Coq Require Import ZArith List Bool.
From Catii Require Import Base.Cases.
Import ListNotations.
Open Scope Z_scope.

Definition zlen {A : Type} (l : list A) : Z := Z.of_nat (length l).

(* struct.pack("<B/H/L/Q", v) and ndarray.astype(uintN).tofile: the low w bytes, least significant
   first (for an out-of-range v this is the wrap of astype; struct.pack raises instead, which the
   models check separately). *)
Fixpoint le_encode (w : nat) (v : Z) : list Z :=
  match w with
  | O => []
  | S w' => (v mod 256) :: le_encode w' (v / 256)
  end.

(* struct.unpack / ndarray item: the first w bytes of bs as a little-endian unsigned number *)
Fixpoint le_decode (w : nat) (bs : list Z) : Z :=
  match w, bs with
  | S w', b :: bs' => b + 256 * le_decode w' bs'
  | _, _ => 0
  end.

Definition encode_words (w : nat) (vs : list Z) : list Z := flat_map (le_encode w) vs.

(* n consecutive w-byte words *)
Fixpoint decode_words (w : nat) (n : nat) (bs : list Z) : list Z :=
  match n with
  | O => []
  | S n' => le_decode w bs :: decode_words w n' (skipn w bs)
  end.

(* n consecutive rows of d words (ndarray of shape (n, d)).tolist() *)
Fixpoint chunk (d : nat) (n : nat) (ws : list Z) : list (list Z) :=
  match n with
  | O => []
  | S n' => firstn d ws :: chunk d n' (skipn d ws)
  end.

Fixpoint sumZ (l : list Z) : Z :=
  match l with [] => 0 | x :: l' => x + sumZ l' end.

Definition fits (w : nat) (v : Z) : Prop := 0 <= v < 256 ^ Z.of_nat w.
Definition fits_b (w : nat) (v : Z) : bool := (0 <=? v) && (v <? 256 ^ Z.of_nat w).
