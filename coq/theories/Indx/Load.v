(* Indx/Load.v - model of IndxIO.load (src/catii/indxio.py:32-127) AS THE CODE DOES IT.
   DEFINITIONS ONLY.  A file is the list of its bytes; offsets and sizes are Z (Python ints).

     f.read(4) != b"INDX"                       -> RuntimeError   [SMagic]   (a short read compares unequal)
     f.read(4) != b"0001"                       -> RuntimeError   [SVersion]
     struct.unpack("<Q", f.read(8))             -> struct.error when fewer than 8 bytes are left [SSizeWord]
     buffer_length = 16 + buffer_size
     mmap.mmap(fileno, buffer_length)           -> ValueError when the file is shorter than buffer_length,
                                                   OverflowError from 2^63 on          [SMmap]
                                                   (a LONGER file is accepted: only the first buffer_length
                                                   bytes are mapped and looked at)
     struct.unpack_from / numpy.ndarray(buffer=buf, offset=..) raise when offset + size exceeds the
     mapped buffer (also for a size of zero at an offset beyond its end)              [SBody]
     index word size byte w: format(w)/dtype(w) read 8/4/2 bytes for w = 8/4/2 and ONE byte for any
     other w, while the offset advances by the raw w (same for the row-id word size byte)
     all_coords = [tuple(row) for row in index.tolist()]
     rowid_lists = ndarray(shape=int((buffer_length - offset) / itemsize))   (a negative shape raises)
     ptr = 0; for length, coords in zip(lengths.tolist(), all_coords):       (Python ints since c60f278)
         rowids = rowid_lists[ptr : ptr + length]        (slicing clips at the end of the array)
         ptr += length
         entries[coords] = rowids.astype(uint32)         (dict assignment: a repeated key is replaced in place)
     return entries, common, rowid_dtype                  (the model returns rowid_dtype.itemsize)
*)
From Coq Require Import ZArith List Bool.
From Catii Require Import Base.Cases Dtype.FitSpec Dtype.FitHand Indx.Bytes Indx.Layout.
Import ListNotations.
Open Scope Z_scope.

Inductive stage := SMagic | SVersion | SSizeWord | SMmap | SBody.

Inductive lres := LOk (entries : entries_t) (common : Z) (rowid_itemsize : Z) | LErr (s : stage).

(* bytes [off, off+n) of the mapped buffer; None = the access raises *)
Definition read (buf : list Z) (off n : Z) : option (list Z) :=
  if (0 <=? off) && (0 <=? n) && (off + n <=? zlen buf)
  then Some (firstn (Z.to_nat n) (skipn (Z.to_nat off) buf)) else None.

(* IndxIO.format(w) / IndxIO.dtype(w): bytes actually read for a word-size byte w *)
Definition fsize (w : Z) : Z := sfmt_size (indx_format w).
Definition wsize (w : Z) : Z := itemsize (indx_dtype w).

(* entries[k] = v *)
Fixpoint dict_set (k : list Z) (v : list Z) (d : entries_t) : entries_t :=
  match d with
  | [] => [(k, v)]
  | (k', v') :: d' => if zlist_eqb k k' then (k, v) :: d' else (k', v') :: dict_set k v d'
  end.

(* the slicing loop; ptr is a Python int.  (Z.min ... only keeps the evaluation of absurd lengths
   cheap: a[ptr:ptr+l] clips at len(a) anyway.) *)
Fixpoint slice_rows (words : list Z) (ptr : Z) (lengths : list Z) (coords : list (list Z))
                    (acc : entries_t) : entries_t :=
  match lengths, coords with
  | l :: lengths', k :: coords' =>
    let rowids := firstn (Z.to_nat (Z.min l (zlen words))) (skipn (Z.to_nat (Z.min ptr (zlen words))) words) in
    slice_rows words (ptr + l) lengths' coords' (dict_set k (map (fun r => r mod 2 ^ 32) rowids) acc)
  | _, _ => acc
  end.

Notation "'rd' p <- e ; f" := (match e with Some p => f | None => LErr SBody end)
  (at level 200, p pattern, e at level 100, f at level 200, right associativity).

(* everything after the mmap; buf is the mapped buffer (exactly buffer_length bytes) *)
Definition load_buf (buf : list Z) : lres :=
  let buffer_length := zlen buf in
  rd b0 <- read buf 16 1;
  let dims := le_decode 1 b0 in
  rd b1 <- read buf 17 4;
  let n := le_decode 4 b1 in
  rd b2 <- read buf 21 1;
  let iws := le_decode 1 b2 in
  rd b3 <- read buf 22 (fsize iws);
  let common := le_decode (Z.to_nat (fsize iws)) b3 in
  let off := 22 + iws in
  let isz := wsize iws in
  let nbytes := n * dims * isz in
  rd ib <- read buf off nbytes;
  let all_coords := chunk (Z.to_nat dims) (Z.to_nat n)
                          (decode_words (Z.to_nat isz) (Z.to_nat (n * dims)) ib) in
  let off := off + nbytes in
  rd b4 <- read buf off 1;
  let rws := le_decode 1 b4 in
  let rsz := wsize rws in
  let off := off + 1 in
  rd lb <- read buf off (zlen all_coords * rsz);
  let lengths := decode_words (Z.to_nat rsz) (length all_coords) lb in
  let off := off + zlen lengths * rws in
  if buffer_length <? off then LErr SBody else
  let nw := (buffer_length - off) / rsz in
  rd rb <- read buf off (nw * rsz);
  let words := decode_words (Z.to_nat rsz) (Z.to_nat nw) rb in
  LOk (slice_rows words 0 lengths all_coords []) common rsz.

Definition load (file : list Z) : lres :=
  if negb (zlist_eqb (firstn 4 file) magic4) then LErr SMagic else
  if negb (zlist_eqb (firstn 4 (skipn 4 file)) version4) then LErr SVersion else
  let szb := firstn 8 (skipn 8 file) in
  if negb (Nat.eqb (length szb) 8) then LErr SSizeWord else
  let buffer_length := 16 + le_decode 8 szb in
  if (2 ^ 63 <=? buffer_length) || (zlen file <? buffer_length) then LErr SMmap else
  load_buf (firstn (Z.to_nat buffer_length) file).

(* which step of the loader refuses a file cut after k bytes *)
Definition torn_stage (k : nat) : stage :=
  if (k <? 4)%nat then SMagic else if (k <? 8)%nat then SVersion
  else if (k <? 16)%nat then SSizeWord else SMmap.
