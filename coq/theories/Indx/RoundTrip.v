(* Indx/RoundTrip.v - proofs for C10 and C11:
     load_any_width  : the code's loader reads every file laid out per the specification, for every
                       pair of documented word sizes that is wide enough for the data;
     save_is_layout  : the code's writer produces exactly the specification's bytes with the narrowest
                       index word size and 4-byte row-id words;
     size_field      : whenever save returns, bytes 8..16 are the true payload length (no bound on totals);
     C10_roundtrip   : load (save entries common) = (entries, common, uint32);
     decode_layout   : the independent decoder inverts the independent encoder. *)
From Coq Require Import ZArith List Bool Lia.
From Catii Require Import Base.Cases Dtype.FitSpec Dtype.FitHand Dtype.FitTactics Dtype.FitProofs.
From Catii Require Import Indx.Bytes Indx.BytesFacts Indx.Layout Indx.Save Indx.Load.
Import ListNotations.
Open Scope Z_scope.


(* ------------------------------------------------------------------ reading fields *)

Lemma to_nat_zlen {A} (l : list A) : Z.to_nat (zlen l) = length l.
Proof. unfold zlen. apply Nat2Z.id. Qed.

Lemma read_mid pre x post off n :
  off = zlen pre -> n = zlen x -> read (pre ++ x ++ post) off n = Some x.
Proof.
  intros -> ->. unfold read. rewrite !zlen_app.
  pose proof (zlen_nonneg pre). pose proof (zlen_nonneg x). pose proof (zlen_nonneg post).
  destruct ((0 <=? zlen pre) && (0 <=? zlen x) && (zlen pre + zlen x <=? zlen pre + (zlen x + zlen post))) eqn:E.
  - rewrite !to_nat_zlen, skipn_app_exact, firstn_app_exact; reflexivity.
  - exfalso. repeat (apply andb_false_iff in E; destruct E as [E|E]);
      [apply Z.leb_gt in E|apply Z.leb_gt in E|apply Z.leb_gt in E]; lia.
Qed.

Lemma concat_split (fs : list (list Z)) : forall k, (k < length fs)%nat ->
  concat fs = concat (firstn k fs) ++ nth k fs [] ++ concat (skipn (S k) fs).
Proof.
  induction fs as [|f fs IH]; intros k Hk; cbn [length] in Hk; [lia|].
  destruct k as [|k].
  - reflexivity.
  - cbn [firstn nth skipn concat]. rewrite <- app_assoc. f_equal. apply IH. lia.
Qed.

Lemma read_field (fs : list (list Z)) (k : nat) off n :
  (k < length fs)%nat -> off = zlen (concat (firstn k fs)) -> n = zlen (nth k fs []) ->
  read (concat fs) off n = Some (nth k fs []).
Proof. intros Hk Ho Hn. rewrite (concat_split fs k Hk). apply read_mid; assumption. Qed.

Lemma ws_cases (w : nat) : In w [1; 2; 4; 8]%nat -> w = 1%nat \/ w = 2%nat \/ w = 4%nat \/ w = 8%nat.
Proof. cbn [In]. intros [H|[H|[H|[H|[]]]]]; subst; tauto. Qed.

Lemma fsize_ws (w : nat) : In w [1; 2; 4; 8]%nat -> fsize (Z.of_nat w) = Z.of_nat w.
Proof. intros H. destruct (ws_cases w H) as [->|[->|[->| ->]]]; reflexivity. Qed.

Lemma wsize_ws (w : nat) : In w [1; 2; 4; 8]%nat -> wsize (Z.of_nat w) = Z.of_nat w.
Proof. intros H. destruct (ws_cases w H) as [->|[->|[->| ->]]]; reflexivity. Qed.

Lemma ws_pos (w : nat) : In w [1; 2; 4; 8]%nat -> 1 <= Z.of_nat w <= 8.
Proof. intros H. destruct (ws_cases w H) as [->|[->|[->| ->]]]; cbn; lia. Qed.

(* The loader on a buffer cut into fields of the right sizes. *)
Lemma load_buf_fields pre f0 f1 f2 f3 f4 f5 f6 f7 dims n iw rw k :
  zlen pre = 16 -> zlen f0 = 1 -> zlen f1 = 4 -> zlen f2 = 1 ->
  le_decode 1 f0 = dims -> le_decode 4 f1 = n -> le_decode 1 f2 = Z.of_nat iw ->
  In iw [1; 2; 4; 8]%nat -> In rw [1; 2; 4; 8]%nat ->
  0 <= n -> 0 <= dims -> 0 <= k ->
  zlen f3 = Z.of_nat iw ->
  zlen f4 = n * dims * Z.of_nat iw ->
  zlen f5 = 1 -> le_decode 1 f5 = Z.of_nat rw ->
  zlen f6 = n * Z.of_nat rw -> zlen f7 = k * Z.of_nat rw ->
  load_buf (concat [pre; f0; f1; f2; f3; f4; f5; f6; f7]) =
  LOk (slice_rows (decode_words rw (Z.to_nat k) f7) 0 (decode_words rw (Z.to_nat n) f6)
         (chunk (Z.to_nat dims) (Z.to_nat n) (decode_words iw (Z.to_nat (n * dims)) f4)) [])
      (le_decode iw f3) (Z.of_nat rw).
Proof.
  intros Lp L0 L1 L2 D0 D1 D2 Hiw Hrw Hn Hd Hk L3 L4 L5 D5 L6 L7.
  pose proof (ws_pos iw Hiw) as Piw. pose proof (ws_pos rw Hrw) as Prw.
  set (fs := [pre; f0; f1; f2; f3; f4; f5; f6; f7]).
  assert (Lbuf : zlen (concat fs) = 16 + 1 + 4 + 1 + Z.of_nat iw + n * dims * Z.of_nat iw + 1
                                   + n * Z.of_nat rw + k * Z.of_nat rw).
  { subst fs. cbn [concat]. rewrite !zlen_app, zlen_nil. lia. }
  unfold load_buf.
  rewrite (read_field fs 1);
    [|subst fs; cbn [length]; lia|subst fs; cbn [firstn concat]; rewrite !zlen_app, zlen_nil; lia
     |subst fs; cbn [nth]; lia].
  change (nth 1 fs []) with f0. cbv zeta. rewrite D0.
  rewrite (read_field fs 2);
    [|subst fs; cbn [length]; lia|subst fs; cbn [firstn concat]; rewrite !zlen_app, zlen_nil; lia
     |subst fs; cbn [nth]; lia].
  change (nth 2 fs []) with f1. rewrite D1.
  rewrite (read_field fs 3);
    [|subst fs; cbn [length]; lia|subst fs; cbn [firstn concat]; rewrite !zlen_app, zlen_nil; lia
     |subst fs; cbn [nth]; lia].
  change (nth 3 fs []) with f2. rewrite D2.
  rewrite (fsize_ws iw Hiw), (wsize_ws iw Hiw).
  rewrite (read_field fs 4);
    [|subst fs; cbn [length]; lia|subst fs; cbn [firstn concat]; rewrite !zlen_app, zlen_nil; lia
     |subst fs; cbn [nth]; lia].
  change (nth 4 fs []) with f3.
  rewrite (read_field fs 5);
    [|subst fs; cbn [length]; lia|subst fs; cbn [firstn concat]; rewrite !zlen_app, zlen_nil; lia
     |subst fs; cbn [nth]; lia].
  change (nth 5 fs []) with f4.
  rewrite (read_field fs 6);
    [|subst fs; cbn [length]; lia|subst fs; cbn [firstn concat]; rewrite !zlen_app, zlen_nil; lia
     |subst fs; cbn [nth]; lia].
  change (nth 6 fs []) with f5. rewrite D5. rewrite (wsize_ws rw Hrw).
  assert (Lc : forall ws, zlen (chunk (Z.to_nat dims) (Z.to_nat n) ws) = n).
  { intros ws. unfold zlen. rewrite chunk_length. lia. }
  rewrite Lc.
  rewrite (read_field fs 7);
    [|subst fs; cbn [length]; lia|subst fs; cbn [firstn concat]; rewrite !zlen_app, zlen_nil; lia
     |subst fs; cbn [nth]; lia].
  change (nth 7 fs []) with f6.
  rewrite chunk_length.
  assert (Ll : forall bs, zlen (decode_words (Z.to_nat (Z.of_nat rw)) (Z.to_nat n) bs) = n).
  { intros bs. unfold zlen. rewrite decode_words_length. lia. }
  rewrite Ll, Lbuf.
  match goal with |- context [if ?c then _ else _] => destruct c eqn:E end.
  { apply Z.ltb_lt in E. exfalso. nia. }
  clear E.
  match goal with |- context [(?a - ?b) / Z.of_nat rw] =>
    replace ((a - b) / Z.of_nat rw) with k
      by (replace (a - b) with (k * Z.of_nat rw) by lia; symmetry; apply Z.div_mul; lia) end.
  rewrite (read_field fs 8);
    [|subst fs; cbn [length]; lia|subst fs; cbn [firstn concat]; rewrite !zlen_app, zlen_nil; lia
     |subst fs; cbn [nth]; lia].
  change (nth 8 fs []) with f7.
  rewrite !Nat2Z.id. reflexivity.
Qed.

(* ------------------------------------------------------------------ the slicing loop *)

Lemma dict_set_fresh k v acc : ~ In k (map fst acc) -> dict_set k v acc = acc ++ [(k, v)].
Proof.
  induction acc as [|[k' v'] acc IH]; intros H; [reflexivity|].
  cbn [dict_set map fst In app] in *.
  destruct (zlist_eqb k k') eqn:E.
  - apply zl_eqb_true_iff in E. subst. exfalso. apply H. left. reflexivity.
  - rewrite IH; [reflexivity|]. intros X. apply H. right. exact X.
Qed.

Lemma map_mod_u32 (r : list Z) : Forall (fun x => 0 <= x < 2 ^ 32) r -> map (fun x => x mod 2 ^ 32) r = r.
Proof.
  induction 1 as [|x r Hx Hr IH]; [reflexivity|]. cbn [map]. rewrite IH, Z.mod_small by exact Hx. reflexivity.
Qed.

Lemma slice_rows_entries (es : entries_t) : forall pre acc,
  NoDup (map fst es) -> (forall k, In k (map fst es) -> ~ In k (map fst acc)) ->
  Forall (fun e => Forall (fun r => 0 <= r < 2 ^ 32) (snd e)) es ->
  slice_rows (pre ++ concat (map snd es)) (zlen pre) (lens es) (map fst es) acc = acc ++ es.
Proof.
  induction es as [|[k r] es IH]; intros pre acc Hnd Hfresh Hr.
  - cbn [lens map slice_rows]. rewrite app_nil_r. reflexivity.
  - cbn [lens map slice_rows fst snd concat].
    inversion Hnd as [|? ? Hk Hnd']; subst. inversion Hr as [|? ? Hr0 Hr']; subst. cbn [snd] in Hr0.
    pose proof (zlen_nonneg pre). pose proof (zlen_nonneg r). pose proof (zlen_nonneg (concat (map snd es))).
    rewrite !zlen_app.
    rewrite (Z.min_l (zlen pre)) by lia. rewrite (Z.min_l (zlen r)) by lia.
    rewrite !to_nat_zlen, skipn_app_exact, firstn_app_exact by reflexivity.
    rewrite map_mod_u32 by exact Hr0.
    rewrite dict_set_fresh by (apply Hfresh; left; reflexivity).
    rewrite <- zlen_app, app_assoc.
    fold (lens es). rewrite IH.
    + rewrite <- app_assoc. reflexivity.
    + exact Hnd'.
    + intros k' Hk' X. rewrite map_app, in_app_iff in X. destruct X as [X|X].
      * apply (Hfresh k'); [right; exact Hk'|exact X].
      * cbn [map fst In] in X. destruct X as [X|[]]. subst. contradiction.
    + exact Hr'.
Qed.

(* ------------------------------------------------------------------ load of a specification file *)

Lemma lens_length es : length (lens es) = length es.
Proof. unfold lens. apply map_length. Qed.

Lemma rows_zlen es : zlen (concat (map snd es)) = sumZ (lens es).
Proof. rewrite concat_zlen, map_map. reflexivity. Qed.

Lemma uniform_dims d0 es : uniform_arity es ->
  1 <= dims_of d0 es <= 255 \/ es = [].
Proof.
  intros (d & Hd & Hall). destruct es as [|e es]; [right; reflexivity|left].
  inversion Hall; subst. cbn [dims_of]. lia.
Qed.

Lemma uniform_dims_all d0 es : uniform_arity es ->
  Forall (fun e => zlen (fst e) = dims_of d0 es) es.
Proof.
  intros (d & Hd & Hall). destruct es as [|e es]; [constructor|].
  cbn [dims_of]. inversion Hall as [|? ? He Hes]; subst. exact Hall.
Qed.

Lemma keys_flat_len d0 es : uniform_arity es ->
  zlen (concat (map fst es)) = zlen es * dims_of d0 es.
Proof.
  intros H. pose proof (uniform_dims_all d0 es H) as Hall.
  assert (Hl : Forall (fun r => length r = Z.to_nat (dims_of d0 es)) (map fst es)).
  { apply Forall_map. eapply Forall_impl; [|exact Hall]. cbn beta. intros e He. rewrite <- He. symmetry. apply to_nat_zlen. }
  unfold zlen at 1. rewrite (concat_length_uniform _ _ Hl), map_length.
  destruct es as [|e es]; [reflexivity|].
  cbn [dims_of]. unfold zlen. rewrite Nat2Z.id. lia.
Qed.

Lemma keys_chunk d0 es : uniform_arity es ->
  chunk (Z.to_nat (dims_of d0 es)) (length es) (concat (map fst es)) = map fst es.
Proof.
  intros H. pose proof (uniform_dims_all d0 es H) as Hall.
  rewrite <- (map_length fst es). apply chunk_concat.
  apply Forall_map. eapply Forall_impl; [|exact Hall]. cbn beta. intros e He. rewrite <- He. symmetry. apply to_nat_zlen.
Qed.

Lemma Forall_concat {A} (P : A -> Prop) (ls : list (list A)) :
  Forall (fun l => Forall P l) ls -> Forall P (concat ls).
Proof. induction 1; cbn [concat]; [constructor|apply Forall_app; split; assumption]. Qed.

Lemma payload_zlen d0 iw rw es common :
  zlen (payload_d d0 iw rw es common) =
  1 + 4 + 1 + Z.of_nat iw + Z.of_nat iw * zlen (concat (map fst es)) + 1
  + Z.of_nat rw * zlen es + Z.of_nat rw * sumZ (lens es).
Proof.
  unfold payload_d. rewrite !zlen_app, !le_encode_zlen, !encode_words_zlen, rows_zlen.
  unfold zlen at 2. rewrite lens_length. fold (zlen es). cbn [Z.of_nat Pos.of_succ_nat Pos.succ]. lia.
Qed.

Lemma payload_bound d0 iw rw es common : admissible iw rw es common -> 0 <= d0 <= 255 ->
  zlen (payload_d d0 iw rw es common) < 2 ^ 63 - 16.
Proof.
  intros A Hd0. rewrite payload_zlen, (keys_flat_len d0) by apply A.
  pose proof (ws_pos iw (ad_iw _ _ _ _ A)). pose proof (ws_pos rw (ad_rw _ _ _ _ A)).
  pose proof (ad_count _ _ _ _ A). pose proof (ad_total _ _ _ _ A). pose proof (zlen_nonneg es).
  assert (0 <= dims_of d0 es <= 255).
  { destruct (uniform_dims d0 es (ad_arity _ _ _ _ A)) as [X|X]; [lia|subst es; cbn [dims_of]; lia]. }
  destruct pows as (_ & _ & _ & _ & _ & P32 & P63 & _).
  change (2 ^ 62) with 4611686018427387904 in *. rewrite P32, P63 in *.
  assert (zlen es * dims_of d0 es <= 4294967296 * 255) by nia.
  nia.
Qed.

Theorem load_layout_d d0 iw rw es common : admissible iw rw es common -> 0 <= d0 <= 255 ->
  load (layout_d d0 iw rw es common) = LOk es common (Z.of_nat rw).
Proof.
  intros A Hd0.
  pose proof (payload_bound d0 iw rw es common A Hd0) as PB.
  pose proof (zlen_nonneg (payload_d d0 iw rw es common)) as PN.
  set (P := payload_d d0 iw rw es common) in *.
  unfold layout_d, magic. fold P. rewrite <- app_assoc.
  unfold load.
  rewrite (firstn_app_exact magic4) by reflexivity.
  rewrite zl_eqb_refl. cbn [negb].
  rewrite (skipn_app_exact magic4) by reflexivity.
  rewrite (firstn_app_exact version4) by reflexivity.
  rewrite zl_eqb_refl. cbn [negb].
  rewrite (app_assoc magic4 version4).
  rewrite (skipn_app_exact (magic4 ++ version4)) by reflexivity.
  rewrite (firstn_app_exact (le_encode 8 (zlen P))) by apply le_encode_length.
  rewrite le_encode_length. cbn [Nat.eqb negb].
  assert (P64 : 2 ^ 63 < 256 ^ Z.of_nat 8) by reflexivity.
  rewrite le_roundtrip by lia.
  assert (Lfile : zlen ((magic4 ++ version4) ++ le_encode 8 (zlen P) ++ P) = 16 + zlen P).
  { rewrite !zlen_app, le_encode_zlen. change (zlen magic4) with 4. change (zlen version4) with 4. lia. }
  rewrite Lfile.
  destruct ((2 ^ 63 <=? 16 + zlen P) || (16 + zlen P <? 16 + zlen P)) eqn:E.
  { exfalso. apply orb_true_iff in E. destruct E as [E|E]; [apply Z.leb_le in E|apply Z.ltb_lt in E]; lia. }
  clear E. rewrite <- Lfile, to_nat_zlen, firstn_all.
  (* the mapped buffer, cut into its fields *)
  pose proof (ad_arity _ _ _ _ A) as UA.
  pose proof (ws_pos iw (ad_iw _ _ _ _ A)) as Piw. pose proof (ws_pos rw (ad_rw _ _ _ _ A)) as Prw.
  assert (Hdims : 0 <= dims_of d0 es <= 255).
  { destruct (uniform_dims d0 es UA) as [X|X]; [lia|subst es; cbn [dims_of]; lia]. }
  subst P. unfold payload_d.
  match goal with |- load_buf ?b = _ =>
    replace b with (concat [(magic4 ++ version4) ++ le_encode 8 (zlen (payload_d d0 iw rw es common));
                            le_encode 1 (dims_of d0 es); le_encode 4 (zlen es); le_encode 1 (Z.of_nat iw);
                            le_encode iw common; encode_words iw (concat (map fst es));
                            le_encode 1 (Z.of_nat rw); encode_words rw (lens es);
                            encode_words rw (concat (map snd es))])
      by (cbn [concat]; rewrite app_nil_r, <- !app_assoc; reflexivity) end.
  rewrite (load_buf_fields _ _ _ _ _ _ _ _ _ (dims_of d0 es) (zlen es) iw rw (sumZ (lens es))).
  - (* the decoded fields are the data *)
    pose proof (keys_flat_len d0 es UA) as KL.
    rewrite le_roundtrip by apply A.
    replace (Z.to_nat (zlen es * dims_of d0 es)) with (length (concat (map fst es)))
      by (rewrite <- KL; symmetry; apply to_nat_zlen).
    rewrite <- (app_nil_r (encode_words iw (concat (map fst es)))).
    rewrite decode_encode_words
      by (apply Forall_concat, Forall_map; eapply Forall_impl; [|exact (ad_coords _ _ _ _ A)]; cbn beta; tauto).
    rewrite to_nat_zlen, (keys_chunk d0 es UA).
    rewrite <- (lens_length es) at 1.
    rewrite <- (app_nil_r (encode_words rw (lens es))).
    rewrite decode_encode_words
      by (unfold lens; apply Forall_map; exact (ad_lens _ _ _ _ A)).
    rewrite <- rows_zlen, to_nat_zlen.
    rewrite <- (app_nil_r (encode_words rw (concat (map snd es)))).
    rewrite decode_encode_words
      by (apply Forall_concat, Forall_map; exact (ad_rowfit _ _ _ _ A)).
    pose proof (slice_rows_entries es [] [] (ad_nodup _ _ _ _ A)) as S.
    cbn [app zlen length Z.of_nat] in S. rewrite S; [reflexivity| |exact (ad_rowids _ _ _ _ A)].
    intros k _ [].
  - rewrite zlen_app, le_encode_zlen. reflexivity.
  - apply le_encode_zlen.
  - apply le_encode_zlen.
  - apply le_encode_zlen.
  - apply le_roundtrip. change (256 ^ Z.of_nat 1) with 256. lia.
  - apply le_roundtrip. change (256 ^ Z.of_nat 4) with (2 ^ 32). pose proof (zlen_nonneg es). pose proof (ad_count _ _ _ _ A). lia.
  - apply le_roundtrip. change (256 ^ Z.of_nat 1) with 256. lia.
  - apply A.
  - apply A.
  - apply zlen_nonneg.
  - lia.
  - rewrite <- rows_zlen. apply zlen_nonneg.
  - apply le_encode_zlen.
  - rewrite encode_words_zlen, (keys_flat_len d0 es UA). lia.
  - apply le_encode_zlen.
  - apply le_roundtrip. change (256 ^ Z.of_nat 1) with 256. lia.
  - rewrite encode_words_zlen. unfold zlen at 1. rewrite lens_length. fold (zlen es). lia.
  - rewrite encode_words_zlen, rows_zlen. lia.
Qed.

Theorem load_any_width iw rw es common : admissible iw rw es common ->
  load (layout iw rw es common) = LOk es common (Z.of_nat rw).
Proof. intros A. apply load_layout_d; [exact A|lia]. Qed.

(* ------------------------------------------------------------------ the writer *)

Lemma fold_max_swap l : forall a b, fold_left Z.max l (Z.max a b) = Z.max (fold_left Z.max l a) b.
Proof.
  induction l as [|y l IH]; intros a b; cbn [fold_left]; [reflexivity|].
  replace (Z.max (Z.max a b) y) with (Z.max (Z.max a y) b) by lia. apply IH.
Qed.

Lemma fold_max_ge l : forall a, a <= fold_left Z.max l a /\ Forall (fun x => x <= fold_left Z.max l a) l.
Proof.
  induction l as [|y l IH]; intros a; cbn [fold_left]; [split; [lia|constructor]|].
  destruct (IH (Z.max a y)) as [H1 H2]. split; [lia|]. constructor; [lia|exact H2].
Qed.

Lemma fold_max_lt l B : forall a, a < B -> Forall (fun x => x < B) l -> fold_left Z.max l a < B.
Proof.
  induction l as [|y l IH]; intros a Ha Hl; cbn [fold_left]; [exact Ha|].
  inversion Hl; subst. apply IH; [lia|assumption].
Qed.

(* the code's max(numpy.max(index), common) is the specification's largest word *)
Lemma index_word_size_spec es common :
  index_word_size (concat (map fst es)) common = itemsize (fit_dtype (max_word es common) 0).
Proof.
  unfold index_word_size, max_word. destruct (concat (map fst es)) as [|x xs]; [reflexivity|].
  cbn [fold_left]. rewrite (Z.max_comm common x), fold_max_swap. reflexivity.
Qed.

(* fit_dtype picks the narrowest documented word size (this is C19 at minimum 0) *)
Lemma fit_is_narrowest m : 0 <= m -> itemsize (fit_dtype m 0) = Z.of_nat (narrowest_ws m).
Proof.
  intros Hm. unfold fit_dtype, narrowest_ws.
  assert (X : (m <? 0) && (0 =? 0) = false) by (apply andb_false_iff; left; apply Z.ltb_ge; lia).
  rewrite X. cbv zeta. change (0 <? 0) with false. cbv iota.
  destruct pows as (P7 & P8 & P15 & P16 & P31 & P32 & P63 & P64).
  rewrite ?P7, ?P8, ?P15, ?P16, ?P31, ?P32 in *.
  split_ifs; boolhyps; try reflexivity; exfalso; lia.
Qed.

Lemma narrowest_in m : In (narrowest_ws m) [1; 2; 4; 8]%nat.
Proof. unfold narrowest_ws. split_ifs; cbn [In]; tauto. Qed.

Lemma narrowest_fits m v : 0 <= v <= m -> m < 2 ^ 64 -> fits (narrowest_ws m) v.
Proof.
  intros Hv Hm. unfold fits, narrowest_ws. destruct pow256 as (Q1 & Q2 & Q4 & Q8).
  split_ifs; boolhyps; rewrite ?Q1, ?Q2, ?Q4, ?Q8; lia.
Qed.

(* ...and no documented word size below it holds the largest word *)
Lemma narrowest_least m w : 0 <= m -> In w [1; 2; 4; 8]%nat -> fits w m -> (narrowest_ws m <= w)%nat.
Proof.
  intros Hm Hw Hf. unfold fits in Hf. destruct pow256 as (Q1 & Q2 & Q4 & Q8).
  unfold narrowest_ws.
  destruct (ws_cases w Hw) as [->|[->|[->| ->]]]; rewrite ?Q1, ?Q2, ?Q4, ?Q8 in Hf;
    split_ifs; boolhyps; lia.
Qed.

Lemma max_word_bounds es common B : 0 <= common < B ->
  Forall (fun e => Forall (fun c => 0 <= c < B) (fst e)) es ->
  0 <= common <= max_word es common /\ max_word es common < B /\
  Forall (fun e => Forall (fun c => 0 <= c <= max_word es common) (fst e)) es.
Proof.
  intros Hc Hco. unfold max_word.
  assert (Hflat : Forall (fun c => 0 <= c < B) (concat (map fst es))).
  { apply Forall_concat, Forall_map. exact Hco. }
  destruct (fold_max_ge (concat (map fst es)) common) as [G1 G2].
  split; [lia|]. split.
  - apply fold_max_lt; [lia|]. eapply Forall_impl; [|exact Hflat]. cbn beta. lia.
  - rewrite Forall_forall in G2, Hflat |- *. intros e He. rewrite Forall_forall. intros c Hc'.
    assert (In c (concat (map fst es))).
    { apply in_concat. exists (fst e). split; [apply in_map; exact He|exact Hc']. }
    specialize (G2 c H). specialize (Hflat c H). lia.
Qed.


Lemma ok_save_ok es common : ok es common -> save_ok 4 es common.
Proof.
  intros O. constructor.
  - cbn [In]. tauto.
  - exact (ok_arity _ _ O).
  - exact (ok_coords _ _ O).
  - exact (ok_common _ _ O).
  - exact (ok_count _ _ O).
  - exact (ok_lens _ _ O).
  - pose proof (ok_total _ _ O). change (Z.of_nat 4) with 4. change (2 ^ 60) with 1152921504606846976 in *.
    change (2 ^ 62) with 4611686018427387904. lia.
Qed.

Lemma sumZ_lens_nonneg es : 0 <= sumZ (lens es).
Proof. rewrite <- rows_zlen. apply zlen_nonneg. Qed.

Theorem save_w_is_layout rw es common : save_ok rw es common ->
  save_w rw es common = SOk (layout (narrowest_ws (max_word es common)) rw es common).
Proof.
  intros O.
  pose proof (so_arity _ _ _ O) as UA. pose proof (so_count _ _ _ O) as Hcount.
  pose proof (ws_pos rw (so_rw _ _ _ O)) as Prw.
  pose proof (zlen_nonneg es) as Hn.
  destruct (max_word_bounds es common (2 ^ 63) (so_common _ _ _ O) (so_coords _ _ _ O)) as (M1 & M2 & M3).
  set (m := max_word es common) in *.
  assert (Hm64 : m < 2 ^ 64) by (destruct pows as (_ & _ & _ & _ & _ & _ & P63 & P64); rewrite P63 in M2; rewrite P64; lia).
  assert (Hiw : index_word_size (concat (map fst es)) common = Z.of_nat (narrowest_ws m)).
  { rewrite index_word_size_spec. apply fit_is_narrowest. fold m. lia. }
  pose proof (ws_pos _ (narrowest_in m)) as Piw.
  pose proof (keys_flat_len 0 es UA) as KL.
  assert (Hdims : 0 <= dims_of 0 es <= 255).
  { destruct (uniform_dims 0 es UA) as [X|X]; [lia|subst es; cbn [dims_of]; lia]. }
  assert (Hbs : buffer_size_of (Z.of_nat (narrowest_ws m)) (zlen (concat (map fst es))) (Z.of_nat rw) (lens es)
                = zlen (payload (narrowest_ws m) rw es common)).
  { unfold payload. rewrite payload_zlen. unfold buffer_size_of.
    unfold zlen at 2. rewrite lens_length. fold (zlen es). lia. }
  assert (Hout : save_head rw es common (lens es) ++ concat (map (fun e => encode_words rw (snd e)) es)
                 = layout (narrowest_ws m) rw es common).
  { unfold save_head. rewrite Hiw, Hbs, Nat2Z.id.
    unfold layout, layout_d, payload, payload_d, magic, dims_of.
    rewrite <- (map_map snd (encode_words rw)), encode_words_concat.
    rewrite <- !app_assoc. reflexivity. }
  unfold save_w.
  (* too many entries *)
  destruct (2 ^ 32 <? zlen es) eqn:E1; [apply Z.ltb_lt in E1; lia|clear E1].
  (* ragged key list *)
  assert (E2 : forallb (fun k => zlen k =? match es with [] => 0 | e :: _ => zlen (fst e) end) (map fst es) = true).
  { apply forallb_forall. intros k Hk. apply in_map_iff in Hk. destruct Hk as (e & <- & He).
    pose proof (uniform_dims_all 0 es UA) as Hall. rewrite Forall_forall in Hall.
    apply Z.eqb_eq. apply (Hall e He). }
  rewrite E2. cbn [negb].
  (* lengths fit the dtype *)
  assert (E3 : forallb (fun l => l <? 256 ^ Z.of_nat rw) (lens es) = true).
  { apply forallb_forall. intros l Hl. unfold lens in Hl. apply in_map_iff in Hl. destruct Hl as (e & <- & He).
    pose proof (so_lens _ _ _ O) as Hall. rewrite Forall_forall in Hall. apply Z.ltb_lt. apply (Hall e He). }
  rewrite E3. cbn [negb].
  (* numpy.max of an empty matrix *)
  assert (E4 : zero_arity es = false).
  { unfold zero_arity. destruct es as [|e es']; [reflexivity|].
    destruct (concat (map fst (e :: es'))) eqn:X; [|reflexivity].
    exfalso. try rewrite X in KL. cbn [dims_of] in *. rewrite zlen_nil in KL.
    rewrite zlen_cons in KL. pose proof (zlen_nonneg es').
    destruct (uniform_dims 0 (e :: es') UA) as [Y|Y]; [cbn [dims_of] in Y; nia|discriminate]. }
  rewrite E4. cbv zeta.
  rewrite Hout, Hiw, Hbs.
  (* struct.pack ranges *)
  pose proof (payload_zlen 0 (narrowest_ws m) rw es common) as PZ. fold (payload (narrowest_ws m) rw es common) in PZ.
  rewrite KL in PZ.
  pose proof (sumZ_lens_nonneg es) as SN. pose proof (so_total _ _ _ O) as ST.
  assert (PB : zlen (payload (narrowest_ws m) rw es common) < 2 ^ 63).
  { rewrite PZ. destruct pows as (_ & _ & _ & _ & _ & P32 & P63 & _).
    change (2 ^ 62) with 4611686018427387904 in *. rewrite P32, P63 in *.
    assert (zlen es * dims_of 0 es <= 4294967296 * 255) by nia. nia. }
  assert (Fc : fits (narrowest_ws m) common) by (apply narrowest_fits; lia).
  unfold fits in Fc.
  match goal with |- context [if ?c then SErr EStruct else _] => destruct c eqn:E5 end.
  { exfalso. repeat (apply orb_true_iff in E5; destruct E5 as [E5|E5]).
    - apply Z.leb_le in E5. destruct pows as (_ & _ & _ & _ & _ & _ & P63 & P64). rewrite P63 in PB. rewrite P64 in E5. lia.
    - apply Z.ltb_lt in E5. change (match es with [] => 0 | e :: _ => zlen (fst e) end) with (dims_of 0 es) in E5. lia.
    - apply Z.leb_le in E5. lia.
    - apply negb_true_iff, andb_false_iff in E5. destruct E5 as [E5|E5]; [apply Z.leb_gt in E5|apply Z.ltb_ge in E5]; lia. }
  clear E5.
  (* f.tell() *)
  assert (E6 : zlen (layout (narrowest_ws m) rw es common) =? 16 + zlen (payload (narrowest_ws m) rw es common) = true).
  { apply Z.eqb_eq. unfold layout, layout_d. fold (payload (narrowest_ws m) rw es common).
    rewrite !zlen_app, le_encode_zlen. change (zlen magic) with 8. lia. }
  rewrite E6. reflexivity.
Qed.

Theorem save_is_layout es common : ok es common ->
  save es common = SOk (layout (narrowest_ws (max_word es common)) 4 es common).
Proof. intros O. apply save_w_is_layout, ok_save_ok, O. Qed.

(* Whenever the writer returns at all, for ANY dict, common value and row-id dtype size (so for any
   total number of row ids): bytes 8..16 are the little-endian 8-byte number of bytes that follow
   them, that number is below 2^64, and the first 8 bytes are the magic and version. *)
Theorem size_field rw es common bytes : save_w rw es common = SOk bytes ->
  firstn 8 bytes = magic /\
  firstn 8 (skipn 8 bytes) = le_encode 8 (zlen bytes - 16) /\ 0 <= zlen bytes - 16 < 2 ^ 64.
Proof.
  unfold save_w. intros H.
  cbv zeta in H.
  match type of H with (if ?c then _ else _) = _ => destruct c eqn:E1; try discriminate H end.
  match type of H with (if ?c then _ else _) = _ => destruct c eqn:E2; try discriminate H end.
  match type of H with (if ?c then _ else _) = _ => destruct c eqn:E3; try discriminate H end.
  match type of H with (if ?c then _ else _) = _ => destruct c eqn:E4; try discriminate H end.
  match type of H with (if ?c then _ else _) = _ => destruct c eqn:E5; try discriminate H end.
  match type of H with (if ?c then _ else _) = _ => destruct c eqn:E6; try discriminate H end.
  apply Z.eqb_eq in E6.
  match type of H with SOk ?o = _ => assert (Hb : o = bytes) by congruence end.
  clear H. rewrite Hb in E6.
  apply orb_false_iff in E5. destruct E5 as [E5 _]. apply orb_false_iff in E5. destruct E5 as [E5 _].
  apply orb_false_iff in E5. destruct E5 as [E5 _]. apply Z.leb_gt in E5.
  replace (zlen bytes - 16) with
    (buffer_size_of (index_word_size (concat (map fst es)) common) (zlen (concat (map fst es))) (Z.of_nat rw) (lens es)) by lia.
  rewrite <- Hb. unfold save_head.
  split; [reflexivity|]. split.
  - rewrite <- ?app_assoc.
    rewrite (app_assoc magic4 version4), (skipn_app_exact (magic4 ++ version4)) by reflexivity.
    rewrite <- ?app_assoc. apply firstn_app_exact. apply le_encode_length.
  - split; [|exact E5].
    unfold buffer_size_of. pose proof (zlen_nonneg (concat (map fst es))). pose proof (zlen_nonneg (lens es)).
    pose proof (sumZ_lens_nonneg es).
    assert (1 <= index_word_size (concat (map fst es)) common).
    { unfold index_word_size. match goal with |- context [fit_dtype ?a ?b] => pose proof (fit_itemsize_in a b) as X end.
      cbn [In] in X. lia. }
    nia.
Qed.

(* ------------------------------------------------------------------ C10 *)

Lemma ok_admissible es common : ok es common ->
  admissible (narrowest_ws (max_word es common)) 4 es common.
Proof.
  intros O.
  destruct (max_word_bounds es common (2 ^ 63) (ok_common _ _ O) (ok_coords _ _ O)) as (M1 & M2 & M3).
  assert (Hm64 : max_word es common < 2 ^ 64)
    by (destruct pows as (_ & _ & _ & _ & _ & _ & P63 & P64); rewrite P63 in M2; rewrite P64; lia).
  destruct pow256 as (_ & _ & Q4 & _).
  constructor.
  - apply narrowest_in.
  - cbn [In]. tauto.
  - apply O.
  - eapply Forall_impl; [|exact M3]. cbn beta. intros e He. eapply Forall_impl; [|exact He]. cbn beta.
    intros c Hc. apply narrowest_fits; lia.
  - apply narrowest_fits; lia.
  - apply O.
  - eapply Forall_impl; [|exact (ok_rowids _ _ O)]. cbn beta. intros e He. eapply Forall_impl; [|exact He].
    cbn beta. intros r Hr. unfold fits. rewrite Q4. exact Hr.
  - eapply Forall_impl; [|exact (ok_lens _ _ O)]. cbn beta. intros e He. unfold fits. rewrite Q4.
    pose proof (zlen_nonneg (snd e)). lia.
  - apply O.
  - apply O.
  - pose proof (ok_total _ _ O). change (Z.of_nat 4) with 4. change (2 ^ 60) with 1152921504606846976 in *.
    change (2 ^ 62) with 4611686018427387904. lia.
Qed.

Theorem C10_roundtrip es common : ok es common ->
  exists bytes, save es common = SOk bytes /\ load bytes = LOk es common 4.
Proof.
  intros O. eexists. split; [apply save_is_layout; exact O|].
  apply (load_any_width _ 4), ok_admissible, O.
Qed.

(* ------------------------------------------------------------------ the hypothesis, executable *)


Lemma nodup_b_spec ks : nodup_b ks = true -> NoDup ks.
Proof.
  induction ks as [|k ks IH]; intros H; [constructor|].
  cbn [nodup_b] in H. apply andb_true_iff in H. destruct H as [H1 H2]. constructor; [|apply IH; exact H2].
  intros X. apply negb_true_iff in H1. assert (existsb (zlist_eqb k) ks = true); [|congruence].
  apply existsb_exists. exists k. split; [exact X|apply zl_eqb_refl].
Qed.

Lemma in_range_b_spec lo hi x : in_range_b lo hi x = true -> lo <= x < hi.
Proof. unfold in_range_b. rewrite andb_true_iff, Z.leb_le, Z.ltb_lt. tauto. Qed.

Lemma forallb_Forall {A} (f : A -> bool) (P : A -> Prop) l :
  (forall x, f x = true -> P x) -> forallb f l = true -> Forall P l.
Proof.
  intros H Hf. rewrite forallb_forall in Hf. apply Forall_forall. intros x Hx. apply H, Hf, Hx.
Qed.

Lemma ok_b_ok es common : ok_b es common = true -> ok es common.
Proof.
  unfold ok_b. intros H.
  repeat (apply andb_true_iff in H; let H' := fresh "C" in destruct H as [H H']).
  apply Z.leb_le in H. apply Z.leb_le in C7. apply Z.ltb_lt in C2. apply Z.ltb_lt in C.
  constructor.
  - exists (dims_of 1 es). split; [lia|].
    eapply forallb_Forall; [|exact C6]. cbn beta. intros e He. apply Z.eqb_eq. exact He.
  - eapply forallb_Forall; [|exact C5]. cbn beta. intros e He.
    eapply forallb_Forall; [|exact He]. apply in_range_b_spec.
  - apply in_range_b_spec. exact C4.
  - eapply forallb_Forall; [|exact C3]. cbn beta. intros e He.
    eapply forallb_Forall; [|exact He]. apply in_range_b_spec.
  - exact C2.
  - eapply forallb_Forall; [|exact C1]. cbn beta. intros e He. apply Z.ltb_lt. exact He.
  - apply nodup_b_spec. exact C0.
  - exact C.
Qed.


Lemma ws_b_spec w : ws_b w = true -> In w [1; 2; 4; 8]%nat.
Proof.
  unfold ws_b. intros H. repeat (apply orb_true_iff in H; destruct H as [H|H]);
    apply Nat.eqb_eq in H; subst; cbn [In]; tauto.
Qed.

Lemma admissible_b_ok iw rw es common : admissible_b iw rw es common = true -> admissible iw rw es common.
Proof.
  unfold admissible_b. intros H.
  repeat (apply andb_true_iff in H; let H' := fresh "C" in destruct H as [H H']).
  apply Z.ltb_lt in C. apply Z.ltb_lt in C1.
  apply andb_true_iff in C7. destruct C7 as [C7 C7c]. apply andb_true_iff in C7. destruct C7 as [C7a C7b].
  apply Z.leb_le in C7a. apply Z.leb_le in C7b.
  constructor.
  - apply ws_b_spec. exact H.
  - apply ws_b_spec. exact C8.
  - exists (dims_of 1 es). split; [lia|].
    eapply forallb_Forall; [|exact C7c]. cbn beta. intros e He. apply Z.eqb_eq. exact He.
  - eapply forallb_Forall; [|exact C6]. cbn beta. intros e He.
    eapply forallb_Forall; [|exact He]. apply fits_b_spec.
  - apply fits_b_spec. exact C5.
  - eapply forallb_Forall; [|exact C4]. cbn beta. intros e He.
    eapply forallb_Forall; [|exact He]. apply in_range_b_spec.
  - eapply forallb_Forall; [|exact C3]. cbn beta. intros e He.
    eapply forallb_Forall; [|exact He]. apply fits_b_spec.
  - eapply forallb_Forall; [|exact C2]. cbn beta. intros e He. apply fits_b_spec. exact He.
  - exact C1.
  - apply nodup_b_spec. exact C0.
  - exact C.
Qed.

(* C11 "narrowest": the chosen word size holds every index word, no documented size below it does, and it
   is what fit_dtype picks *)
Theorem narrowest_spec m : 0 <= m < 2 ^ 64 ->
  In (narrowest_ws m) [1; 2; 4; 8]%nat /\ fits (narrowest_ws m) m /\
  (forall w, In w [1; 2; 4; 8]%nat -> fits w m -> (narrowest_ws m <= w)%nat) /\
  itemsize (fit_dtype m 0) = Z.of_nat (narrowest_ws m).
Proof.
  intros H. split; [apply narrowest_in|]. split; [apply (narrowest_fits m m); lia|].
  split; [intros w Hw Hf; apply narrowest_least; [lia|exact Hw|exact Hf]|apply fit_is_narrowest; lia].
Qed.
