(* Indx/BytesFacts.v - lemmas about Indx/Bytes.v: lengths, the little-endian round trip, word lists. *)
From Coq Require Import ZArith List Lia Bool.
From Catii Require Import Base.Cases Indx.Bytes.
Import ListNotations.
Open Scope Z_scope.


Lemma zlen_app {A} (a b : list A) : zlen (a ++ b) = zlen a + zlen b.
Proof. unfold zlen. rewrite app_length. lia. Qed.

Lemma zlen_nonneg {A} (a : list A) : 0 <= zlen a.
Proof. unfold zlen. lia. Qed.

Lemma zlen_cons {A} (x : A) (a : list A) : zlen (x :: a) = 1 + zlen a.
Proof. unfold zlen. cbn [length]. lia. Qed.

Lemma zlen_nil {A} : zlen (@nil A) = 0.
Proof. reflexivity. Qed.

Lemma le_encode_length w : forall v, length (le_encode w v) = w.
Proof. induction w as [|w IH]; intros v; cbn [le_encode length]; [reflexivity|rewrite IH; reflexivity]. Qed.

Lemma le_encode_zlen w v : zlen (le_encode w v) = Z.of_nat w.
Proof. unfold zlen. rewrite le_encode_length. reflexivity. Qed.

Lemma le_encode_bytes w : forall v, Forall (fun b => 0 <= b < 256) (le_encode w v).
Proof.
  induction w as [|w IH]; intros v; cbn [le_encode]; constructor; [|apply IH].
  apply Z.mod_pos_bound. lia.
Qed.

Lemma le_decode_encode_app w : forall v rest,
  le_decode w (le_encode w v ++ rest) = v mod 256 ^ Z.of_nat w.
Proof.
  induction w as [|w IH]; intros v rest.
  - cbn [le_encode le_decode app]. change (256 ^ Z.of_nat 0) with 1. rewrite Z.mod_1_r. destruct rest; reflexivity.
  - cbn [le_encode le_decode app]. rewrite IH.
    rewrite Nat2Z.inj_succ, Z.pow_succ_r by lia.
    rewrite Z.rem_mul_r; [reflexivity|lia|]. apply Z.pow_pos_nonneg; lia.
Qed.

Theorem le_roundtrip w v : 0 <= v < 256 ^ Z.of_nat w -> le_decode w (le_encode w v) = v.
Proof.
  intros H. rewrite <- (app_nil_r (le_encode w v)), le_decode_encode_app. apply Z.mod_small. exact H.
Qed.

Lemma le_roundtrip_app w v rest : fits w v -> le_decode w (le_encode w v ++ rest) = v.
Proof. intros H. rewrite le_decode_encode_app. apply Z.mod_small. exact H. Qed.

Lemma firstn_app_exact {A} (a b : list A) n : length a = n -> firstn n (a ++ b) = a.
Proof. intros <-. rewrite firstn_app, Nat.sub_diag, firstn_all. cbn [firstn]. apply app_nil_r. Qed.

Lemma skipn_app_exact {A} (a b : list A) n : length a = n -> skipn n (a ++ b) = b.
Proof. intros <-. rewrite skipn_app, Nat.sub_diag, skipn_all. reflexivity. Qed.

Lemma encode_words_app w a b : encode_words w (a ++ b) = encode_words w a ++ encode_words w b.
Proof. unfold encode_words. apply flat_map_app. Qed.

Lemma encode_words_length w vs : length (encode_words w vs) = (w * length vs)%nat.
Proof.
  induction vs as [|v vs IH]; cbn [encode_words flat_map length]; [lia|].
  rewrite app_length, le_encode_length. fold (encode_words w vs). rewrite IH. lia.
Qed.

Lemma encode_words_zlen w vs : zlen (encode_words w vs) = Z.of_nat w * zlen vs.
Proof. unfold zlen. rewrite encode_words_length. lia. Qed.

Lemma encode_words_concat w (rows : list (list Z)) :
  concat (map (encode_words w) rows) = encode_words w (concat rows).
Proof.
  induction rows as [|r rows IH]; cbn [map concat]; [reflexivity|].
  rewrite encode_words_app, IH. reflexivity.
Qed.

Lemma decode_encode_words w vs : forall rest, Forall (fits w) vs ->
  decode_words w (length vs) (encode_words w vs ++ rest) = vs.
Proof.
  induction vs as [|v vs IH]; intros rest H; [reflexivity|].
  inversion H as [|? ? Hv Hvs]; subst.
  cbn [length decode_words encode_words flat_map]. fold (encode_words w vs).
  rewrite <- app_assoc, le_roundtrip_app by exact Hv.
  rewrite skipn_app_exact by apply le_encode_length.
  rewrite IH by exact Hvs. reflexivity.
Qed.

Lemma decode_words_length w n : forall bs, length (decode_words w n bs) = n.
Proof. induction n as [|n IH]; intros bs; cbn [decode_words length]; [reflexivity|rewrite IH; reflexivity]. Qed.

Lemma chunk_length d n : forall ws, length (chunk d n ws) = n.
Proof. induction n as [|n IH]; intros ws; cbn [chunk length]; [reflexivity|rewrite IH; reflexivity]. Qed.

Lemma chunk_concat d (rows : list (list Z)) : Forall (fun r => length r = d) rows ->
  chunk d (length rows) (concat rows) = rows.
Proof.
  induction rows as [|r rows IH]; intros H; [reflexivity|].
  inversion H as [|? ? Hr Hrs]; subst.
  cbn [length chunk concat]. rewrite firstn_app_exact, skipn_app_exact by reflexivity.
  rewrite IH by exact Hrs. reflexivity.
Qed.

Lemma concat_length_uniform d (rows : list (list Z)) : Forall (fun r => length r = d) rows ->
  length (concat rows) = (length rows * d)%nat.
Proof.
  induction rows as [|r rows IH]; intros H; [reflexivity|].
  inversion H as [|? ? Hr Hrs]; subst. cbn [concat length]. rewrite app_length, IH by exact Hrs. lia.
Qed.

Lemma sumZ_app a b : sumZ (a ++ b) = sumZ a + sumZ b.
Proof. induction a as [|x a IH]; cbn [app sumZ]; lia. Qed.

Lemma concat_zlen (rows : list (list Z)) : zlen (concat rows) = sumZ (map (fun r => zlen r) rows).
Proof.
  induction rows as [|r rows IH]; [reflexivity|].
  cbn [concat map sumZ]. rewrite zlen_app, IH. reflexivity.
Qed.

Lemma zl_eqb_true_iff a : forall b, zlist_eqb a b = true <-> a = b.
Proof.
  induction a as [|x a IH]; intros [|y b]; cbn [zlist_eqb]; split; intros H;
    try reflexivity; try discriminate.
  - apply andb_true_iff in H. destruct H as [H1 H2]. apply Z.eqb_eq in H1. apply IH in H2. subst. reflexivity.
  - inversion H; subst. rewrite Z.eqb_refl. cbn [andb]. apply IH. reflexivity.
Qed.

Lemma zl_eqb_refl a : zlist_eqb a a = true.
Proof. apply zl_eqb_true_iff. reflexivity. Qed.

Lemma zl_eqb_length a b : zlist_eqb a b = true -> length a = length b.
Proof. intros H. apply zl_eqb_true_iff in H. subst. reflexivity. Qed.

Lemma fits_b_spec w v : fits_b w v = true <-> fits w v.
Proof. unfold fits_b, fits. rewrite andb_true_iff, Z.leb_le, Z.ltb_lt. tauto. Qed.

Lemma pow256 : 256 ^ Z.of_nat 1 = 2 ^ 8 /\ 256 ^ Z.of_nat 2 = 2 ^ 16 /\ 256 ^ Z.of_nat 4 = 2 ^ 32 /\ 256 ^ Z.of_nat 8 = 2 ^ 64.
Proof. repeat split; reflexivity. Qed.
