(* Indx/Check.v - executable checkers for the correspondence suites of C10, C11, C12 (no proofs).
   The harness writes, per case, the generated input and what the real IndxIO did with it; the
   functions below compare that with the models Save.v / Load.v and with the specification Layout.v. *)
From Coq Require Import ZArith List Bool.
From Catii Require Import Base.Cases IIndex.Model Indx.Bytes Indx.Layout Indx.Save Indx.Load Indx.Rebuild.
Import ListNotations.
Open Scope Z_scope.

(* what the real loader did: returned (entries, common, rowid dtype itemsize), or raised at a stage class
   1 magic  2 version  3 size word (struct.unpack on a short read)  4 mmap  5 inside the mapped buffer *)
Inductive obs := Loaded (es : entries_t) (common : Z) (rw : Z) | Raised (code : Z).

Definition stage_code (s : stage) : Z :=
  match s with SMagic => 1 | SVersion => 2 | SSizeWord => 3 | SMmap => 4 | SBody => 5 end.

Definition entry_eqb (a b : list Z * list Z) : bool := zlist_eqb (fst a) (fst b) && zlist_eqb (snd a) (snd b).

(* same association, any order (keys are unique on both sides) *)
Definition entries_same (a b : entries_t) : bool :=
  Nat.eqb (length a) (length b) && forallb (fun e => existsb (entry_eqb e) b) a
  && forallb (fun e => existsb (entry_eqb e) a) b.

Definition lres_obs (r : lres) (o : obs) : bool :=
  match r, o with
  | LOk es c rw, Loaded es' c' rw' => entries_same es es' && (c =? c') && (rw =? rw')
  | LErr s, Raised code => stage_code s =? code
  | _, _ => false
  end.

Definition sres_is (r : sres) (b : list Z) : bool :=
  match r with SOk b' => zlist_eqb b' b | SErr _ => false end.

(* position-weighted checksum: the file fed to the real loader (written by the harness's struct-based
   encoder) is the file [layout_d] describes *)
Fixpoint cksum (i : Z) (acc : Z) (bs : list Z) : Z :=
  match bs with [] => acc | b :: bs' => cksum (i + 1) ((acc + i * (b + 1)) mod 2305843009213693951) bs' end.
Definition checksum (bs : list Z) : Z := cksum 1 (zlen bs) bs.

(* ---- C10: (entries, common, bytes written by the real save, what the real load of them returned) *)
Definition chk_c10 (c : entries_t * Z * list Z * obs) : bool :=
  let '(es, common, bytes, o) := c in
  ok_b es common     (* the generated case meets the hypothesis of C10_roundtrip *)
  && sres_is (save es common) bytes && lres_obs (load bytes) o && lres_obs (LOk es common 4) o.

Definition explain_c10 (c : entries_t * Z * list Z * obs) :=
  let '(es, common, bytes, o) := c in (save es common, load bytes).

(* ---- C10, indexes reached by operation histories (C06 generator): (the real index abstracted before
   saving, bytes written by the real save, what the real load returned).  The real state meets the
   hypotheses of load_wf (wf_b, storable_b), the model writes the same bytes, loads what the code loaded,
   and iindex(entries, common, shape) of that is the index that was saved. *)
Definition idx_entry_eqb (a b : entry) : bool :=
  key_eqb (fst a) (fst b) && zlist_eqb (snd a) (snd b).
Definition idx_eqb (a b : iindex) : bool :=
  list_eqb idx_entry_eqb (entries a) (entries b) && (Model.common a =? Model.common b)
  && (nrows a =? nrows b) && zlist_eqb (hshape a) (hshape b).

Definition chk_c10_idx (c : iindex * list Z * obs) : bool :=
  let '(idx, bytes, o) := c in
  let es := to_indx (entries idx) in
  wf_b idx && storable_b idx
  && sres_is (save es (Model.common idx)) bytes && lres_obs (load bytes) o && lres_obs (LOk es (Model.common idx) 4) o
  && match rebuild (load bytes) (nrows idx) (hshape idx) with Some i => idx_eqb i idx && wf_b i | None => false end.

Definition explain_c10_idx (c : iindex * list Z * obs) :=
  let '(idx, bytes, o) := c in
  (wf_b idx, storable_b idx, save (to_indx (entries idx)) (Model.common idx), load bytes).

(* ---- C11a: real bytes = specification bytes = model bytes; the independent decoder recovers the data *)
Definition chk_c11_bytes (c : entries_t * Z * list Z) : bool :=
  let '(es, common, bytes) := c in
  let iw := narrowest_ws (max_word es common) in
  ok_b es common && zlist_eqb (layout iw 4 es common) bytes
  && sres_is (save es common) bytes
  && match decode bytes with
     | Some (es', c', iw', rw', d') =>
       entries_same es es' && (c' =? common) && (iw' =? Z.of_nat iw) && (rw' =? 4) && (d' =? dims_of 0 es)
     | None => false
     end.

Definition explain_c11_bytes (c : entries_t * Z * list Z) :=
  let '(es, common, bytes) := c in
  (layout (narrowest_ws (max_word es common)) 4 es common, save es common).

(* ---- C11b: the real loader on independently encoded files of every admissible width pair.
   (entries, common, [(recorded dims for an empty index, iw, rw, checksum of the file loaded, observed)]) *)
Definition chk_c11_width1 (es : entries_t) (common : Z) (w : Z * Z * Z * Z * obs) : bool :=
  let '(d0, iw, rw, ck, o) := w in
  let file := layout_d d0 (Z.to_nat iw) (Z.to_nat rw) es common in
  admissible_b (Z.to_nat iw) (Z.to_nat rw) es common && (0 <=? d0) && (d0 <=? 255)   (* hypotheses of load_any_width_dims *)
  && (checksum file =? ck) && lres_obs (load file) o && lres_obs (LOk es common rw) o
  && match decode file with
     | Some (es', c', iw', rw', d') => entries_same es es' && (c' =? common) && (iw' =? iw) && (rw' =? rw)
     | None => false
     end.

Definition chk_c11_widths (c : entries_t * Z * list (Z * Z * Z * Z * obs)) : bool :=
  let '(es, common, ws) := c in forallb (chk_c11_width1 es common) ws.

Definition explain_c11_widths (c : entries_t * Z * list (Z * Z * Z * Z * obs)) :=
  let '(es, common, ws) := c in
  map (fun w => let '(d0, iw, rw, ck, o) := w in
                let file := layout_d d0 (Z.to_nat iw) (Z.to_nat rw) es common in
                (iw, rw, checksum file, load file)) ws.

(* ---- C11b, large row-id counts (totals beyond the range of a 1- or 2-byte row-id word): row ids are
   given as runs (start, count) and expanded here, so that the case literal stays small *)
Definition run_t := (list Z * Z * Z)%type.    (* coords, first row id, number of consecutive row ids *)
(* start, start+1, ... (n of them), counting in Z: [Z.of_nat i] for every i would make the expansion quadratic *)
Fixpoint zcount (start : Z) (n : nat) : list Z :=
  match n with O => [] | S n' => start :: zcount (start + 1) n' end.
Definition expand_run (r : run_t) : list Z * list Z :=
  let '(k, start, count) := r in (k, zcount start (Z.to_nat count)).
Inductive obs_runs := LoadedRuns (rs : list run_t) (common : Z) (rw : Z) | RaisedRuns (code : Z) | LoadedOther.
Definition obs_of_runs (o : obs_runs) : option obs :=
  match o with
  | LoadedRuns rs c rw => Some (Loaded (map expand_run rs) c rw)
  | RaisedRuns code => Some (Raised code)
  | LoadedOther => None
  end.
Definition chk_c11_runs (c : list run_t * Z * Z * Z * Z * obs_runs) : bool :=
  let '(rs, common, iw, rw, ck, o) := c in
  let es := map expand_run rs in
  let file := layout (Z.to_nat iw) (Z.to_nat rw) es common in
  match obs_of_runs o with
  | Some o' => admissible_b (Z.to_nat iw) (Z.to_nat rw) es common && (checksum file =? ck) && lres_obs (load file) o' && lres_obs (LOk es common rw) o'
  | None => false
  end.
Definition explain_c11_runs (c : list run_t * Z * Z * Z * Z * obs_runs) :=
  let '(rs, common, iw, rw, ck, o) := c in
  let file := layout (Z.to_nat iw) (Z.to_nat rw) (map expand_run rs) common in
  (checksum file, match load file with LOk es c r => (map (fun e => (fst e, firstn 3 (snd e), zlen (snd e))) es, c, r, 0)
                                      | LErr s => ([], 0, 0, stage_code s) end).

(* ---- C11c: the 16 header bytes written for row-id arrays that are never materialised.
   (keys, common, lengths of the row-id arrays, the first 16 bytes of the real file, save returned normally) *)
Definition chk_c11_header (c : list (list Z) * Z * list Z * list Z * bool) : bool :=
  let '(keys, common, lengths, head, returned) := c in
  returned && zlist_eqb (save_header16 4 keys common lengths) head.

Definition explain_c11_header (c : list (list Z) * Z * list Z * list Z * bool) :=
  let '(keys, common, lengths, head, returned) := c in save_header16 4 keys common lengths.

(* ---- C12: (entries, common, real bytes, for every k < len the stage class at which the real loader
   refused the first k bytes; 0 = it did not refuse) *)
Fixpoint chk_prefixes (bytes : list Z) (k : nat) (codes : list Z) : bool :=
  match codes with
  | [] => true
  | code :: codes' =>
    lres_obs (load (firstn k bytes)) (Raised code) && (stage_code (torn_stage k) =? code)
    && chk_prefixes bytes (S k) codes'
  end.

Definition chk_c12 (c : entries_t * Z * list Z * list Z) : bool :=
  let '(es, common, bytes, codes) := c in
  ok_b es common && sres_is (save es common) bytes && Nat.eqb (length codes) (length bytes)
  && chk_prefixes bytes 0 codes.

Definition explain_c12 (c : entries_t * Z * list Z * list Z) :=
  let '(es, common, bytes, codes) := c in
  (sres_is (save es common) bytes,
   map (fun k => match load (firstn k bytes) with LErr s => stage_code s | LOk _ _ _ => 0 end) (seq 0 (length bytes))).

(* ---- C12, files of an independent writer: (entries, common, recorded dims for an empty index, iw, rw,
   checksum of the real file, per-k stage classes).  The real file is identified with the specification's
   [layout_d d0 iw rw] by the checksum; hypotheses of C12_torn_any_writer are checked. *)
Definition chk_c12_layout (c : entries_t * Z * Z * Z * Z * Z * list Z) : bool :=
  let '(es, common, d0, iw, rw, ck, codes) := c in
  let file := layout_d d0 (Z.to_nat iw) (Z.to_nat rw) es common in
  admissible_b (Z.to_nat iw) (Z.to_nat rw) es common && (0 <=? d0) && (d0 <=? 255)
  && (checksum file =? ck) && Nat.eqb (length codes) (length file)
  && chk_prefixes file 0 codes.

Definition explain_c12_layout (c : entries_t * Z * Z * Z * Z * Z * list Z) :=
  let '(es, common, d0, iw, rw, ck, codes) := c in
  let file := layout_d d0 (Z.to_nat iw) (Z.to_nat rw) es common in
  (checksum file, length file,
   map (fun k => match load (firstn k file) with LErr s => stage_code s | LOk _ _ _ => 0 end) (seq 0 (length file))).

(* ---- C12, larger files cut at a SAMPLE of cut points: (entries, common, real bytes, [(k, stage class observed)]) *)
Definition chk_cut (bytes : list Z) (kc : Z * Z) : bool :=
  let '(k, code) := kc in
  (0 <=? k) && (k <? zlen bytes)
  && lres_obs (load (firstn (Z.to_nat k) bytes)) (Raised code) && (stage_code (torn_stage (Z.to_nat k)) =? code).

Definition chk_c12_sample (c : entries_t * Z * list Z * list (Z * Z)) : bool :=
  let '(es, common, bytes, cuts) := c in
  ok_b es common && sres_is (save es common) bytes && forallb (chk_cut bytes) cuts.

Definition explain_c12_sample (c : entries_t * Z * list Z * list (Z * Z)) :=
  let '(es, common, bytes, cuts) := c in
  (ok_b es common, sres_is (save es common) bytes,
   map (fun kc => (fst kc, match load (firstn (Z.to_nat (fst kc)) bytes) with LErr s => stage_code s | LOk _ _ _ => 0 end)) cuts).
