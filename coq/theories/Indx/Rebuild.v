(* Indx/Rebuild.v - from an index (IIndex/Model.v) to the entries dict IndxIO.save receives, and from what
   IndxIO.load returns back to an index.  DEFINITIONS ONLY.

   iindex is a dict subclass: IndxIO.save(f, idx, idx.common, idx.rowid_dtype) iterates its keys, the
   coordinate tuples (value, higher coordinates...), in dict order; the loaded (entries, common) are given
   to iindex(entries, common, shape) with the shape kept by the caller (the INDX file does not record it). *)
From Coq Require Import ZArith List Bool.
From Catii Require Import Base.Sorted IIndex.Model Indx.Bytes Indx.Layout Indx.Save Indx.Load.
Import ListNotations.
Open Scope Z_scope.

Definition key_to_coords (k : key) : list Z := fst k :: snd k.

Definition to_indx (es : list entry) : entries_t := map (fun e => (key_to_coords (fst e), snd e)) es.

Definition coords_to_key (c : list Z) : option key :=
  match c with [] => None | v :: hc => Some (v, hc) end.

Fixpoint of_indx (es : entries_t) : option (list entry) :=
  match es with
  | [] => Some []
  | (c, rows) :: es' =>
    match coords_to_key c, of_indx es' with
    | Some k, Some t => Some ((k, rows) :: t)
    | _, _ => None
    end
  end.

(* iindex(entries, common, shape) on the loader's result; None when the loader raised (or returned an
   empty coordinate tuple, which is not an index key) *)
Definition rebuild (r : lres) (nrows : Z) (hshape : list Z) : option iindex :=
  match r with
  | LOk es c _ =>
    match of_indx es with
    | Some ents => Some {| entries := ents; common := c; nrows := nrows; hshape := hshape |}
    | None => None
    end
  | LErr _ => None
  end.

(* What the INDX format can hold of a well-formed index (the representation limits of C10's quantifier):
   unsigned values and common below 2^63, extents up to 2^63, at most 255 axes (one byte), fewer than
   2^32 rows (row-id lengths are 4-byte words), fewer than 2^32 entries, fewer than 2^60 row ids in total
   (the file stays below 2^63 bytes). *)
Record storable (idx : iindex) : Prop := {
  st_common : 0 <= common idx < 2 ^ 63;
  st_values : Forall (fun e : entry => 0 <= fst (fst e) < 2 ^ 63) (entries idx);
  st_extents : Forall (fun e => e <= 2 ^ 63) (hshape idx);
  st_axes : (length (hshape idx) < 255)%nat;
  st_nrows : nrows idx < 2 ^ 32;
  st_count : zlen (entries idx) < 2 ^ 32;
  st_total : sumZ (map (fun e : entry => zlen (snd e)) (entries idx)) < 2 ^ 60
}.

Definition storable_b (idx : iindex) : bool :=
  (0 <=? common idx) && (common idx <? 2 ^ 63)
  && forallb (fun e : entry => (0 <=? fst (fst e)) && (fst (fst e) <? 2 ^ 63)) (entries idx)
  && forallb (fun e => e <=? 2 ^ 63) (hshape idx)
  && (length (hshape idx) <? 255)%nat
  && (nrows idx <? 2 ^ 32)
  && (zlen (entries idx) <? 2 ^ 32)
  && (sumZ (map (fun e : entry => zlen (snd e)) (entries idx)) <? 2 ^ 60).
