(* Indx/Save.v - model of IndxIO.save (src/catii/indxio.py:129-205) AS THE CODE DOES IT.
   DEFINITIONS ONLY.

   save(f, entries, common, dtype):
     len(entries) > 2**32                      -> ValueError                       [ETooMany]
     list_index = list(entries.keys()); index = numpy.array(list_index)
                                                   (a ragged key list is rejected)  [ERagged]
     lengths = numpy.array([len(entries[k]) ...], dtype=dtype)
                                                   (NumPy 2: a length that does not fit raises) [ELenOverflow]
     index_dtype = fit_dtype(max(numpy.max(index), common) if len(index) != 0 else common)
                                                   (numpy.max of a (n,0) matrix raises) [EZeroArity]
     buffer_size = 1 + 4 + 1 + word + index.nbytes + 1 + len(lengths)*itemsize + sum(lengths.tolist())*itemsize
                                                   (Python ints since commit 8a99efc: no wrap)
     writes: magic, version, "<Q" buffer_size, "<B" dims (0 when index.ndim == 1, i.e. no entries),
             "<L" len(index), "<B" word, common in the index word format, index.astype(index_dtype),
             "<B" itemsize, lengths, every row-id array in key order
                                                   (struct.pack range errors)       [EStruct]
     f.tell() != 16 + buffer_size              -> RuntimeError                     [EWrongLength]

   The key matrix is an int64 array (coordinates in [-2^63, 2^63)): astype(unsigned) wraps, which is
   what [le_encode] does.  Outside that range NumPy would pick uint64/float64/object for the matrix;
   the model makes no claim there (every theorem assumes coordinates in [0, 2^63)).
   Row-id arrays are arrays of [dtype], so their items are in range by construction and the
   dtype-mismatch RuntimeError cannot arise; [rw] is dtype.itemsize (4 in every use by the library). *)
From Coq Require Import ZArith List Bool.
From Catii Require Import Base.Cases Dtype.FitSpec Dtype.FitHand Indx.Bytes Indx.Layout.
Import ListNotations.
Open Scope Z_scope.

Inductive save_err := ETooMany | ERagged | ELenOverflow | EZeroArity | EStruct | EWrongLength.

Inductive sres := SOk (bytes : list Z) | SErr (e : save_err).

(* buffer_size as the code computes it, from the shapes alone (shared with the stub-driven check of
   totals crossing 2^30 and 2^32, which never materialises the row ids) *)
Definition buffer_size_of (iw : Z) (index_words : Z) (rw : Z) (lengths : list Z) : Z :=
  1 + 4 + 1 + iw + index_words * iw + 1 + zlen lengths * rw + sumZ lengths * rw.

Definition index_word_size (flat : list Z) (common : Z) : Z :=
  let mx := match flat with [] => common | x :: xs => Z.max (fold_left Z.max xs x) common end in
  itemsize (fit_dtype mx 0).

(* everything up to and including the rowid-lengths field: what is written before the row-id arrays *)
Definition save_head (rw : nat) (es : entries_t) (common : Z) (lengths : list Z) : list Z :=
  let flat := concat (map fst es) in
  let iw := index_word_size flat common in
  let buffer_size := buffer_size_of iw (zlen flat) (Z.of_nat rw) lengths in
  magic4 ++ version4 ++ le_encode 8 buffer_size
  ++ le_encode 1 (match es with [] => 0 | e :: _ => zlen (fst e) end)
  ++ le_encode 4 (zlen es)
  ++ le_encode 1 iw
  ++ le_encode (Z.to_nat iw) common
  ++ encode_words (Z.to_nat iw) flat
  ++ le_encode 1 (Z.of_nat rw)
  ++ encode_words rw lengths.

(* entries but a key matrix of shape (n, 0): numpy.max raises *)
Definition zero_arity (es : entries_t) : bool :=
  match es, concat (map fst es) with _ :: _, [] => true | _, _ => false end.

Definition save_w (rw : nat) (es : entries_t) (common : Z) : sres :=
  if 2 ^ 32 <? zlen es then SErr ETooMany else
  let list_index := map fst es in
  let arity := match es with [] => 0 | e :: _ => zlen (fst e) end in
  if negb (forallb (fun k => zlen k =? arity) list_index) then SErr ERagged else
  let lengths := lens es in
  if negb (forallb (fun l => l <? 256 ^ Z.of_nat rw) lengths) then SErr ELenOverflow else
  let flat := concat list_index in
  if zero_arity es then SErr EZeroArity else
    let iw := index_word_size flat common in
    let buffer_size := buffer_size_of iw (zlen flat) (Z.of_nat rw) lengths in
    if (2 ^ 64 <=? buffer_size)                       (* "<Q" *)
       || (255 <? arity)                               (* "<B" dims *)
       || (2 ^ 32 <=? zlen es)                         (* "<L" len(index) *)
       || negb ((0 <=? common) && (common <? 256 ^ iw)) (* common in the index word format *)
    then SErr EStruct else
    let out := save_head rw es common lengths
               ++ concat (map (fun e => encode_words rw (snd e)) es) in
    if zlen out =? 16 + buffer_size then SOk out else SErr EWrongLength.

(* the library always passes dtype = uint32 *)
Definition save := save_w 4.

(* The 16 header bytes the code writes for a key list and a list of row-id array LENGTHS (used with
   duck-typed arrays whose data is never materialised). *)
Definition save_header16 (rw : nat) (keys : list (list Z)) (common : Z) (lengths : list Z) : list Z :=
  let flat := concat keys in
  let iw := index_word_size flat common in
  magic4 ++ version4 ++ le_encode 8 (buffer_size_of iw (zlen flat) (Z.of_nat rw) lengths).
