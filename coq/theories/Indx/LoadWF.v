(* Indx/LoadWF.v - C10, second sentence: a well-formed index that the format can hold is saved and
   loaded back to parts that rebuild the SAME index (same entries in the same order, same common), which
   is therefore equal to the one saved and well-formed. *)
From Coq Require Import ZArith List Bool Lia FinFun.
From Catii Require Import Base.Sorted IIndex.Model Indx.Bytes Indx.BytesFacts Indx.Layout Indx.Save Indx.Load Indx.RoundTrip Indx.Rebuild.
Import ListNotations.
Open Scope Z_scope.

Lemma of_to_indx (es : list entry) : of_indx (to_indx es) = Some es.
Proof.
  induction es as [|[[v hc] rows] es IH]; [reflexivity|].
  change (to_indx (((v, hc), rows) :: es)) with ((v :: hc, rows) :: to_indx es).
  cbn [of_indx coords_to_key]. rewrite IH. reflexivity.
Qed.

Lemma key_to_coords_inj : Injective key_to_coords.
Proof. intros [a b] [c d] H. unfold key_to_coords in H. cbn [fst snd] in H. inversion H; subst. reflexivity. Qed.

Lemma sincr_inv (l : list Z) : forall x, sincr (x :: l) -> (forall y, In y l -> x < y) /\ sincr l.
Proof.
  induction l as [|y l IH]; intros x H.
  - split; [intros ? []|exact I].
  - change (x < y /\ sincr (y :: l)) in H. destruct H as [Hxy Hs]. split; [|exact Hs].
    destruct (IH y Hs) as [Hy _]. intros z [<-|Hz]; [exact Hxy|]. specialize (Hy z Hz). lia.
Qed.

(* a strictly increasing list inside [lo, hi) has at most hi - lo elements *)
Lemma sincr_zlen (l : list Z) : forall lo hi, sincr l -> (forall x, In x l -> lo <= x < hi) -> lo <= hi -> zlen l <= hi - lo.
Proof.
  induction l as [|x l IH]; intros lo hi Hs Hr Hle.
  - rewrite zlen_nil. lia.
  - apply sincr_inv in Hs. destruct Hs as [Hx Hs].
    assert (Hxr : lo <= x < hi) by (apply Hr; left; reflexivity).
    rewrite zlen_cons.
    assert (zlen l <= hi - (x + 1)).
    { apply IH; [exact Hs| |lia]. intros y Hy. specialize (Hx y Hy). specialize (Hr y (or_intror Hy)). lia. }
    lia.
Qed.

Lemma in_hshape_bound hc : forall hs, in_hshape hc hs -> Forall (fun e => e <= 2 ^ 63) hs ->
  Forall (fun c => 0 <= c < 2 ^ 63) hc.
Proof.
  unfold in_hshape. induction hc as [|c hc IH]; intros hs H F; [constructor|].
  inversion H as [|? e ? hs' Hc Hrest]; subst. inversion F as [|? ? He Hes]; subst.
  constructor; [lia|]. apply (IH hs'); assumption.
Qed.

Lemma in_hshape_length hc hs : in_hshape hc hs -> length hc = length hs.
Proof. unfold in_hshape. induction 1; cbn [length]; [reflexivity|congruence]. Qed.

Lemma lens_to_indx es : lens (to_indx es) = map (fun e : entry => zlen (snd e)) es.
Proof. unfold lens, to_indx. rewrite map_map. reflexivity. Qed.

Lemma storable_ok idx : WF idx -> storable idx -> ok (to_indx (entries idx)) (common idx).
Proof.
  intros W S.
  destruct W as [wf_nrows wf_hshape wf_keys wf_hc wf_sorted wf_rows wf_nonempty wf_nocommon wf_excl].
  destruct S as [st_common0 st_values0 st_extents0 st_axes0 st_nrows0 st_count0 st_total0].
  assert (InE : forall c rows, In (c, rows) (to_indx (entries idx)) ->
                exists k, c = key_to_coords k /\ In (k, rows) (entries idx)).
  { intros c rows H. unfold to_indx in H. apply in_map_iff in H. destruct H as ([k r] & E & H).
    cbn [fst snd] in E. inversion E; subst. exists k. split; [reflexivity|exact H]. }
  constructor.
  - exists (1 + zlen (hshape idx)). split; [unfold zlen; lia|].
    apply Forall_forall. intros [c rows] H. apply InE in H. destruct H as (k & -> & H).
    cbn [fst]. unfold key_to_coords. rewrite zlen_cons. unfold zlen.
    rewrite (in_hshape_length _ _ (wf_hc k rows H)). reflexivity.
  - apply Forall_forall. intros [c rows] H. apply InE in H. destruct H as (k & -> & H).
    cbn [fst]. unfold key_to_coords. constructor.
    + rewrite Forall_forall in st_values0. apply (st_values0 (k, rows) H).
    + apply (in_hshape_bound _ _ (wf_hc k rows H) st_extents0).
  - exact st_common0.
  - apply Forall_forall. intros [c rows] H. apply InE in H. destruct H as (k & -> & H).
    cbn [snd]. apply Forall_forall. intros r Hr. specialize (wf_rows k rows r H Hr). lia.
  - unfold to_indx, zlen. rewrite map_length. exact st_count0.
  - apply Forall_forall. intros [c rows] H. apply InE in H. destruct H as (k & -> & H).
    cbn [snd].
    assert (zlen rows <= nrows idx - 0).
    { apply sincr_zlen; [exact (wf_sorted k rows H)| |lia]. intros x Hx. exact (wf_rows k rows x H Hx). }
    lia.
  - unfold to_indx. rewrite map_map. cbn [fst].
    rewrite <- (map_map fst key_to_coords). apply Injective_map_NoDup; [exact key_to_coords_inj|exact wf_keys].
  - rewrite lens_to_indx. exact st_total0.
Qed.

Theorem load_wf idx : WF idx -> storable idx ->
  exists bytes idx', save (to_indx (entries idx)) (common idx) = SOk bytes /\
    rebuild (load bytes) (nrows idx) (hshape idx) = Some idx' /\ idx' = idx /\ WF idx'.
Proof.
  intros W S. destruct (C10_roundtrip _ _ (storable_ok idx W S)) as (bytes & Hs & Hl).
  exists bytes, idx. split; [exact Hs|]. split; [|split; [reflexivity|exact W]].
  rewrite Hl. unfold rebuild. rewrite of_to_indx. destruct idx; reflexivity.
Qed.

Lemma storable_b_ok idx : storable_b idx = true -> storable idx.
Proof.
  unfold storable_b. intros H. repeat (apply andb_true_iff in H; destruct H as [H ?]).
  constructor.
  - apply Z.leb_le in H. apply Z.ltb_lt in H6. lia.
  - apply Forall_forall. intros e He. rewrite forallb_forall in H5. specialize (H5 e He).
    apply andb_true_iff in H5. destruct H5 as [A B]. apply Z.leb_le in A. apply Z.ltb_lt in B. lia.
  - apply Forall_forall. intros e He. rewrite forallb_forall in H4. apply Z.leb_le. exact (H4 e He).
  - apply Nat.ltb_lt. exact H3.
  - apply Z.ltb_lt. exact H2.
  - apply Z.ltb_lt. exact H1.
  - apply Z.ltb_lt. exact H0.
Qed.
