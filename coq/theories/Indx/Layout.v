(* Indx/Layout.v - the INDX format SPECIFICATION, written from the class docstring of IndxIO
   (src/catii/indxio.py:9-27) alone.  DEFINITIONS ONLY.

       All integers are unsigned, little-endian.
       8-byte magic+version "INDX0001"
       buffer size           8 bytes         = number of bytes that follow
       index dimensions      1 byte
       index length          4 bytes
       index word size       1 byte  01/02/04/08   governs the next two fields
       index common value    1 word
       index                 length x dimensions words, row by row
       rowid word size       1 byte  01/02/04/08   governs the next two fields
       rowid lengths         one word per entry
       rowids                the row ids of every entry, in entry order

   [layout iw rw entries common] is the independent ENCODER of properties C10-C12, parameterised by
   the two word sizes; [decode] is the independent DECODER (a strict left-to-right parser; it shares
   nothing with the offset arithmetic of Load.v).  An entries dict is an association list
   coords -> row ids in dict order. *)
From Coq Require Import ZArith List Bool.
From Catii Require Import Base.Cases Indx.Bytes.
Import ListNotations.
Open Scope Z_scope.

Definition entries_t := list (list Z * list Z).

Definition magic4 : list Z := [73; 78; 68; 88].      (* b"INDX" *)
Definition version4 : list Z := [48; 48; 48; 49].    (* b"0001" *)
Definition magic : list Z := magic4 ++ version4.

Definition lens (es : entries_t) : list Z := map (fun e => zlen (snd e)) es.

(* The "index dimensions" byte: the arity of the coordinate tuples.  The docstring does not say
   what it is for an index without entries; [d0] is what the writer records then (IndxIO.save
   records 0; an independent writer may record the arity of the variable). *)
Definition dims_of (d0 : Z) (es : entries_t) : Z :=
  match es with [] => d0 | e :: _ => zlen (fst e) end.

Definition payload_d (d0 : Z) (iw rw : nat) (es : entries_t) (common : Z) : list Z :=
  le_encode 1 (dims_of d0 es)
  ++ le_encode 4 (zlen es)
  ++ le_encode 1 (Z.of_nat iw)
  ++ le_encode iw common
  ++ encode_words iw (concat (map fst es))
  ++ le_encode 1 (Z.of_nat rw)
  ++ encode_words rw (lens es)
  ++ encode_words rw (concat (map snd es)).

Definition layout_d (d0 : Z) (iw rw : nat) (es : entries_t) (common : Z) : list Z :=
  magic ++ le_encode 8 (zlen (payload_d d0 iw rw es common)) ++ payload_d d0 iw rw es common.

Definition payload := payload_d 0.
Definition layout := layout_d 0.

(* "01/02/04/08": the narrowest documented word size that holds m *)
Definition narrowest_ws (m : Z) : nat :=
  if m <? 2 ^ 8 then 1%nat else if m <? 2 ^ 16 then 2%nat else if m <? 2 ^ 32 then 4%nat else 8%nat.

(* the largest number the index words have to hold *)
Definition max_word (es : entries_t) (common : Z) : Z :=
  fold_left Z.max (concat (map fst es)) common.

(* ---- the independent decoder ---- *)

Definition take (n : Z) (bs : list Z) : option (list Z * list Z) :=
  if (0 <=? n) && (n <=? zlen bs)
  then Some (firstn (Z.to_nat n) bs, skipn (Z.to_nat n) bs) else None.

(* cut ws into consecutive slices of the given lengths; strict: nothing may be missing or left *)
Fixpoint split_by (ls : list Z) (ws : list Z) : option (list (list Z)) :=
  match ls with
  | [] => match ws with [] => Some [] | _ => None end
  | l :: ls' =>
    match take l ws with
    | None => None
    | Some (a, r) => match split_by ls' r with None => None | Some t => Some (a :: t) end
    end
  end.

Definition valid_ws (w : Z) : bool := (w =? 1) || (w =? 2) || (w =? 4) || (w =? 8).

Notation "'do' p <- e ; f" := (match e with Some p => f | None => None end)
  (at level 200, p pattern, e at level 100, f at level 200, right associativity).

(* Some (entries, common, index word size, rowid word size, recorded dimensions) *)
Definition decode (file : list Z) : option (entries_t * Z * Z * Z * Z) :=
  do (m, r) <- take 8 file;
  if negb (zlist_eqb m magic) then None else
  do (szb, p) <- take 8 r;
  if negb (le_decode 8 szb =? zlen p) then None else
  do (db, p) <- take 1 p;
  let d := le_decode 1 db in
  do (nb, p) <- take 4 p;
  let n := le_decode 4 nb in
  do (iwb, p) <- take 1 p;
  let iw := le_decode 1 iwb in
  if negb (valid_ws iw) then None else
  do (cb, p) <- take iw p;
  let common := le_decode (Z.to_nat iw) cb in
  do (ib, p) <- take (n * d * iw) p;
  let coords := chunk (Z.to_nat d) (Z.to_nat n) (decode_words (Z.to_nat iw) (Z.to_nat (n * d)) ib) in
  do (rwb, p) <- take 1 p;
  let rw := le_decode 1 rwb in
  if negb (valid_ws rw) then None else
  do (lb, p) <- take (n * rw) p;
  let ls := decode_words (Z.to_nat rw) (Z.to_nat n) lb in
  if negb (zlen p =? sumZ ls * rw) then None else
  do rows <- split_by ls (decode_words (Z.to_nat rw) (Z.to_nat (sumZ ls)) p);
  Some (combine coords rows, common, iw, rw, d).

(* ------------------------------------------------------------------ hypotheses *)

(* all coordinate tuples have the same arity d, 1 <= d <= 255 (the dimensions field is one byte) *)
Definition uniform_arity (es : entries_t) : Prop :=
  exists d, 1 <= d <= 255 /\ Forall (fun e => zlen (fst e) = d) es.

(* What IndxIO.save/IndxIO.load need of an entries dict and a common value (C10's quantifier):
   a dict has no duplicate keys; the last clause says the file is smaller than 2^63 bytes
   (mmap takes a ssize_t) and is implied by "fewer than 2^60 row ids in total". *)
Record ok (es : entries_t) (common : Z) : Prop := {
  ok_arity : uniform_arity es;
  ok_coords : Forall (fun e => Forall (fun c => 0 <= c < 2 ^ 63) (fst e)) es;
  ok_common : 0 <= common < 2 ^ 63;
  ok_rowids : Forall (fun e => Forall (fun r => 0 <= r < 2 ^ 32) (snd e)) es;
  ok_count : zlen es < 2 ^ 32;
  ok_lens : Forall (fun e => zlen (snd e) < 2 ^ 32) es;
  ok_nodup : NoDup (map fst es);
  ok_total : sumZ (lens es) < 2 ^ 60
}.

(* A specification-conforming file with word sizes (iw, rw) that are wide enough for its data. *)
Record admissible (iw rw : nat) (es : entries_t) (common : Z) : Prop := {
  ad_iw : In iw [1; 2; 4; 8]%nat;
  ad_rw : In rw [1; 2; 4; 8]%nat;
  ad_arity : uniform_arity es;
  ad_coords : Forall (fun e => Forall (fits iw) (fst e)) es;
  ad_common : fits iw common;
  ad_rowids : Forall (fun e => Forall (fun r => 0 <= r < 2 ^ 32) (snd e)) es;
  ad_rowfit : Forall (fun e => Forall (fits rw) (snd e)) es;
  ad_lens : Forall (fun e => fits rw (zlen (snd e))) es;
  ad_count : zlen es < 2 ^ 32;
  ad_nodup : NoDup (map fst es);
  ad_total : Z.of_nat rw * sumZ (lens es) < 2 ^ 62
}.

(* what save needs, for an arbitrary row-id dtype of rw bytes *)
Record save_ok (rw : nat) (es : entries_t) (common : Z) : Prop := {
  so_rw : In rw [1; 2; 4; 8]%nat;
  so_arity : uniform_arity es;
  so_coords : Forall (fun e => Forall (fun c => 0 <= c < 2 ^ 63) (fst e)) es;
  so_common : 0 <= common < 2 ^ 63;
  so_count : zlen es < 2 ^ 32;
  so_lens : Forall (fun e => zlen (snd e) < 256 ^ Z.of_nat rw) es;
  so_total : Z.of_nat rw * sumZ (lens es) < 2 ^ 62
}.

(* ---- the hypotheses as boolean tests (reflected in RoundTrip.v: ok_b_ok, admissible_b_ok) ---- *)

Fixpoint nodup_b (ks : list (list Z)) : bool :=
  match ks with
  | [] => true
  | k :: ks' => negb (existsb (zlist_eqb k) ks') && nodup_b ks'
  end.

Definition in_range_b (lo hi : Z) (x : Z) : bool := (lo <=? x) && (x <? hi).

Definition ok_b (es : entries_t) (common : Z) : bool :=
  let d := dims_of 1 es in
  (1 <=? d) && (d <=? 255) && forallb (fun e => zlen (fst e) =? d) es
  && forallb (fun e => forallb (in_range_b 0 (2 ^ 63)) (fst e)) es
  && in_range_b 0 (2 ^ 63) common
  && forallb (fun e => forallb (in_range_b 0 (2 ^ 32)) (snd e)) es
  && (zlen es <? 2 ^ 32)
  && forallb (fun e => zlen (snd e) <? 2 ^ 32) es
  && nodup_b (map fst es)
  && (sumZ (lens es) <? 2 ^ 60).

Definition ws_b (w : nat) : bool := Nat.eqb w 1 || Nat.eqb w 2 || Nat.eqb w 4 || Nat.eqb w 8.

Definition admissible_b (iw rw : nat) (es : entries_t) (common : Z) : bool :=
  let d := dims_of 1 es in
  ws_b iw && ws_b rw
  && ((1 <=? d) && (d <=? 255) && forallb (fun e => zlen (fst e) =? d) es)
  && forallb (fun e => forallb (fits_b iw) (fst e)) es
  && fits_b iw common
  && forallb (fun e => forallb (in_range_b 0 (2 ^ 32)) (snd e)) es
  && forallb (fun e => forallb (fits_b rw) (snd e)) es
  && forallb (fun e => fits_b rw (zlen (snd e))) es
  && (zlen es <? 2 ^ 32)
  && nodup_b (map fst es)
  && (Z.of_nat rw * sumZ (lens es) <? 2 ^ 62).
