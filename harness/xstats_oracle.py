"""Property oracle for C18: the textbook statistic of every cell, computed directly over the rows
whose category tuple is that cell (no strides, no bincount, no model).

Rational statistics (variance, quantile, min/max, covariance) are computed with `fractions.Fraction`
over the exact rational value of every input double; correlation (needs sqrt) in floats via `math`.

A case is a dict (see harness/props/c18.py `gen_case`).  `expected(case)` returns, per output cell in
C order (cell-major, then column / matrix entry), one of
    ("miss",)            the cell must be reported missing
    ("val", Fraction)    the cell must be valid with this exact value (variance for stddev)
    ("fval", float)      valid, value known only in floating point (correlation)
    ("range", lo, hi)    valid, value must lie in [lo, hi]           (weighted quantile)
    ("skip",)            mathematically undefined: neither mask nor value is compared
"""
import itertools
import math
from fractions import Fraction


def cell_tuples(exts):
    return list(itertools.product(*[range(e) for e in exts]))


def rows_of(case, cell):
    dims = case["dims"]
    return [r for r in range(case["N"]) if all(dims[d][r] == cell[d] for d in range(len(dims)))]


def wvalid(case, r):
    return True if case["wkind"] == "none" else bool(case["wvalid"][r])


def weight(case, r):
    return Fraction(1) if case["wkind"] == "none" else Fraction(case["w"][r])


def c04_missing(nrows, nvalid, ign):
    """rule of C04: no row in the cell, or all (ignore) / any (propagate) of its rows missing"""
    return nvalid == 0 if ign else (nrows == 0 or nvalid < nrows)


def lin_quantile(xs, p):
    s = sorted(xs)
    n = len(s)
    vi = (n - 1) * p
    k = math.floor(vi)
    if k >= n - 1:
        return s[n - 1]
    return s[k] + (s[k + 1] - s[k]) * (vi - k)


def variance(xs, ws, weighted):
    n = len(xs)
    if not weighted:
        mu = sum(xs) / n
        return sum((x - mu) ** 2 for x in xs) / (n - 1)
    W = sum(ws)
    if W == 0:
        return None
    mu = sum(w * x for w, x in zip(ws, xs)) / W
    return sum(w * (x - mu) ** 2 for w, x in zip(ws, xs)) / W * Fraction(n, n - 1)


def covariance(xi, xj, ws, weighted):
    n = len(xi)
    if not weighted:
        mi, mj = sum(xi) / n, sum(xj) / n
        return sum((a - mi) * (b - mj) for a, b in zip(xi, xj)) / (n - 1)
    V1 = sum(ws)
    if V1 == 0:
        return None
    V2 = sum(w * w for w in ws)
    den = V1 - V2 / V1
    if den == 0:
        return None
    mi = sum(w * a for w, a in zip(ws, xi)) / V1
    mj = sum(w * b for w, b in zip(ws, xj)) / V1
    return sum(w * (a - mi) * (b - mj) for w, a, b in zip(ws, xi, xj)) / den


def expected(case):
    kind, ign = case["kind"], case["ign"]
    K = case["K"]
    ncol = 1 if K is None else K
    weighted = case["wkind"] != "none"
    fv = case["fvalid"]          # [row][col] bool
    fx = case["fact"]            # [row][col] Fraction (meaningful where valid)
    out = []
    for cell in cell_tuples(case["exts"]):
        R = rows_of(case, cell)
        if kind in ("covariance", "corrcoef"):
            for i in range(ncol):
                for j in range(ncol):
                    if ign:
                        V = [r for r in R if all(fv[r]) and wvalid(case, r)]
                        miss = len(V) == 0
                    else:
                        V = [r for r in R if fv[r][i] and fv[r][j] and wvalid(case, r)]
                        miss = len(R) == 0 or len(V) < len(R)
                    if miss:
                        out.append(("miss",))
                        continue
                    if len(V) < 2:
                        out.append(("skip",))
                        continue
                    xi = [fx[r][i] for r in V]
                    xj = [fx[r][j] for r in V]
                    ws = [weight(case, r) for r in V]
                    if kind == "covariance":
                        c = covariance(xi, xj, ws, weighted)
                        out.append(("skip",) if c is None else ("val", c))
                    else:
                        vi = covariance(xi, xi, ws, False)
                        vj = covariance(xj, xj, ws, False)
                        if vi == 0 or vj == 0:
                            out.append(("skip",))
                        else:
                            c = covariance(xi, xj, ws, False)
                            out.append(("fval", float(c) / math.sqrt(float(vi) * float(vj))))
            continue
        for k in range(ncol):
            V = [r for r in R if fv[r][k] and wvalid(case, r)]
            miss = c04_missing(len(R), len(V), ign)
            xs = [fx[r][k] for r in V]
            ws = [weight(case, r) for r in V]
            if kind == "stddev":
                if miss or len(V) < 2:
                    out.append(("miss",))
                else:
                    v = variance(xs, ws, weighted)
                    out.append(("skip",) if v is None else ("val", v))
            elif kind in ("min", "max"):
                out.append(("miss",) if miss else ("val", (min if kind == "min" else max)(xs)))
            elif kind == "quantile":
                if miss:
                    out.append(("miss",))
                elif not weighted:
                    out.append(("val", lin_quantile(xs, Fraction(case["p"]))))
                elif sum(ws) == 0 or any(w <= 0 for w in ws):
                    out.append(("skip",))
                else:
                    out.append(("range", min(xs), max(xs)))
            else:
                raise ValueError(kind)
    return out


def judge(exp, got, tol=1e-9):
    """got: ("miss",) | ("val", Fraction) | ("bad", text).  Returns None if acceptable else a reason."""
    if exp[0] == "skip":
        return None
    if got[0] == "bad":
        return "cell reported valid with a non-finite value (%s)" % got[1]
    if exp[0] == "miss":
        return None if got[0] == "miss" else "cell must be missing, reported valid %s" % float(got[1])
    if got[0] == "miss":
        return "cell must be valid (%s), reported missing" % (exp[1:],)
    g = got[1]
    if exp[0] == "val":
        e = exp[1]
        if g == e or abs(g - e) <= Fraction(tol) * (1 + abs(e)):
            return None
        return "value %r, textbook %r" % (float(g), float(e))
    if exp[0] == "fval":
        e = exp[1]
        if abs(float(g) - e) <= tol * (1 + abs(e)):
            return None
        return "value %r, textbook %r" % (float(g), e)
    if exp[0] == "range":
        lo, hi = exp[1], exp[2]
        if lo - Fraction(tol) * (1 + abs(lo)) <= g <= hi + Fraction(tol) * (1 + abs(hi)):
            return None
        return "weighted quantile %r outside [min, max] = [%r, %r] of the cell's valid values" % (float(g), float(lo), float(hi))
    raise ValueError(exp)
