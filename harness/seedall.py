"""Run every seeded change against the checks of the properties it breaks (quick tier), a few at a time.

usage: /venv/bin/python -m harness.seedall [--jobs 3] [--only c07a,c08b] [--props-claimed-only] [--missing]
Each run is `harness.seedtest seeded/<id> --props <its properties>`; results land in seeded/<id>/result.json.
--missing: only (seed, property) pairs with no recorded result yet or whose recorded result is a miss.
"""
import argparse
import json
import os
import subprocess
from concurrent.futures import ThreadPoolExecutor

VERIF = os.path.dirname(os.path.dirname(os.path.abspath(__file__)))


def main():
    ap = argparse.ArgumentParser()
    ap.add_argument("--jobs", type=int, default=3)
    ap.add_argument("--only")
    ap.add_argument("--missing", action="store_true")
    a = ap.parse_args()
    claimed = [c["property_id"] for c in json.load(open(os.path.join(VERIF, "MANIFEST.json")))["checks"]]
    todo = []
    for d in sorted(os.listdir(os.path.join(VERIF, "seeded"))):
        if a.only and d not in a.only.split(","):
            continue
        p = os.path.join(VERIF, "seeded", d)
        if not os.path.exists(os.path.join(p, "meta.json")):
            continue
        m = json.load(open(os.path.join(p, "meta.json")))
        props = [x for x in m.get("properties", [m.get("property")]) if x in claimed]
        r = json.load(open(os.path.join(p, "result.json"))) if os.path.exists(os.path.join(p, "result.json")) else {}
        if a.missing:
            props = [x for x in props if not r.get(x, {}).get("caught")]
        if props:
            todo.append((d, props))

    def one(t):
        d, props = t
        r = subprocess.run(["/venv/bin/python", "-m", "harness.seedtest", os.path.join("seeded", d), "--props", ",".join(props)],
                           cwd=VERIF, stdout=subprocess.PIPE, stderr=subprocess.STDOUT, text=True)
        res = json.load(open(os.path.join(VERIF, "seeded", d, "result.json"))) if os.path.exists(os.path.join(VERIF, "seeded", d, "result.json")) else {}
        return d, {p: (res.get(p, {}).get("caught"), res.get(p, {}).get("signature"), res.get(p, {}).get("replay_kind")) for p in props}, r.stdout[-400:] if r.returncode else ""

    # C17 and C19 regenerate W1 files inside the shared Coq build directory: two seeded trees must not be tried at once
    shared = [t for t in todo if set(t[1]) & {"C17", "C19"}]
    rest = [t for t in todo if t not in shared]
    with ThreadPoolExecutor(a.jobs) as ex:
        for d, res, err in ex.map(one, rest):
            print(d, res, err.replace("\n", " | ")[:300], flush=True)
    for t in shared:
        d, res, err = one(t)
        print(d, res, err.replace("\n", " | ")[:300], flush=True)


if __name__ == "__main__":
    main()
