"""C09 - the sorted-set kernels never touch memory outside their buffers.

Proof:  Properties/C09.v (no read/write of SetOps/Kernels.v's index-level model is ever out of bounds, for ALL
        input lists, sorted or not) is rebuilt and its Print Assumptions captured.
Tie W2: the working-tree .pyx rebuilt with the @cython.boundscheck(False) decorators flipped to True (nothing
        else changed) is run in a subprocess on all C08 inputs for the four kernels plus unsorted and
        duplicate-carrying inputs; inside Coq:  model = OOB  <->  the rebuild raised IndexError, and
        model = KOk r  <->  it returned exactly r (the model transcribes the algorithm, so it predicts the
        exact output for unsorted inputs too).
        thorough tier: the UNMODIFIED .pyx compiled with clang -fsanitize=address runs the same inputs; an
        AddressSanitizer report is attributed to the call in flight (progress file) and counts as an
        out-of-bounds observation; silent runs must return the model's value.
Oracle: "the bounds-checked rebuild raised IndexError on this input" / "ASan reported on this input" IS the
        violation of C09, with the input as the concrete witness.
"""
import collections
import itertools
import json
import os
import time

from .. import core
from .. import impl_kernels as ik
from . import c08 as S

M32 = S.M32
MANY = S.MANY
OP_NAMES = S.OP_NAMES
MAX_ASAN_RESTARTS = 8
BALPHA = [0, 2 ** 31, 2 ** 32 - 1]


def all_seqs(alphabet, maxlen):
    return [list(t) for n in range(maxlen + 1) for t in itertools.product(alphabet, repeat=n)]


def gen_unsorted(rng, maxlen=40):
    """An arbitrary uint32 sequence of length 0..maxlen, usually with duplicates / out of order."""
    n = 0 if rng.random() < 0.08 else rng.randint(0, maxlen)
    kind = rng.choice(["tiny", "small", "boundary", "pool"])
    if kind == "tiny":
        alpha = list(range(rng.randint(1, 3)))
    elif kind == "small":
        alpha = list(range(rng.randint(2, 12)))
    elif kind == "boundary":
        alpha = [0, 1, 2, 2 ** 31 - 1, 2 ** 31, M32 - 2, M32 - 1]
    else:
        alpha = S.make_pool(rng, 25)[1]
    a = [rng.choice(alpha) for _ in range(n)]
    shape = rng.choice(["random", "nondecreasing", "nonincreasing", "one_swap", "random"])
    if shape == "nondecreasing":
        a.sort()
    elif shape == "nonincreasing":
        a.sort(reverse=True)
    elif shape == "one_swap":
        a = sorted(set(a))
        if len(a) >= 2:
            i, j = rng.sample(range(len(a)), 2)
            a[i], a[j] = a[j], a[i]
    return a


def c09_suites(ctx):
    quick = ctx.tier == "quick"
    rng = ctx.rng
    suites = S.c08_suites(ctx, wrappers=False)
    opnds = [None, [], [1], [0, M32 - 1]]
    suites.append({"kind": "bin_explicit", "name": "wrappers/none-empty",
                   "cases": [[op, l, r, False] for l in opnds for r in opnds for op in (3, 4, 5)]})
    small = all_seqs([0, 1, 2], 3)          # 40 sequences
    bnd = all_seqs(BALPHA, 2)               # 13 sequences
    suites.append({"kind": "bin_explicit", "name": "unsorted/small", "cases": [[op, l, r, False] for l in small for r in small for op in (0, 1, 2)]})
    suites.append({"kind": "bin_explicit", "name": "unsorted/boundary", "cases": [[op, l, r, False] for l in bnd for r in bnd for op in (0, 1, 2)]})
    pairs = [(gen_unsorted(rng), gen_unsorted(rng)) for _ in range(300 if quick else 1500)]
    suites.append({"kind": "bin_explicit", "name": "unsorted/random", "cases": [[op, l, r, False] for (l, r) in pairs for op in (0, 1, 2)]})
    suites.append({"kind": "many_explicit", "name": "many/unsorted/small",
                   "cases": [[]] + [[a] for a in small] + [[a, b] for a in small for b in small]})
    suites.append({"kind": "many_explicit", "name": "many/unsorted/boundary",
                   "cases": [[a] for a in bnd] + [[a, b] for a in bnd for b in bnd]})
    suites.append({"kind": "many_explicit", "name": "many/unsorted/random",
                   "cases": [[gen_unsorted(rng, 14) for _ in range(rng.randint(3, 6))] for _ in range(200 if quick else 1000)]})
    return suites


# --------------------------------------------------------------------------
# running the instrumented builds
# --------------------------------------------------------------------------

def asan_excerpt(out):
    lines = out.splitlines()
    for i, ln in enumerate(lines):
        if "AddressSanitizer" in ln:
            return "\n".join(x[:220] for x in lines[i:i + 14])
    return out[-1500:]


def substitute_skipped(results, skip):
    """{"skipped": n} entries (calls not executed because ASan attributed a report to them) -> {"asan": report}."""
    def fix(e):
        if isinstance(e, dict) and "skipped" in e:
            return {"asan": skip.get(e["skipped"], "(no report text)"), "call": e["skipped"]}
        return e
    for sres in results:
        if "rows" in sres:
            for row in sres["rows"]:
                row[-1] = [fix(e) for e in row[-1]]
        if "results" in sres:
            sres["results"] = [fix(e) for e in sres["results"]]
        if "empty" in sres:
            sres["empty"] = fix(sres["empty"])


def observe(ctx, suites, variant):
    """Run the suites against one build in a subprocess.  Returns (results or None, info)."""
    info = {"variant": variant, "restarts": 0, "asan_reports": {}, "complete": True}
    if variant != "asan":
        rc, out, result = ctx.run_py("impl_kernels.py", {"suites": suites}, variant=variant)
        if result is None or rc != 0:
            raise core.CheckError("impl_kernels.py on the %s build failed (rc=%s):\n%s" % (variant, rc, out[-3000:]))
    else:
        progress = os.path.join(ctx.scratch, "asan-progress")
        skip = {}
        result = None
        for attempt in range(MAX_ASAN_RESTARTS + 1):
            rc, out, result = ctx.run_py("impl_kernels.py", {"suites": suites, "skip": sorted(skip), "progress": progress},
                                        variant="asan", asan=True)
            if result is not None:
                if "AddressSanitizer" in out:
                    info["asan_outside_calls"] = asan_excerpt(out)
                break
            if "AddressSanitizer" not in out:
                raise core.CheckError("impl_kernels.py on the asan build failed without an ASan report (rc=%s):\n%s" % (rc, out[-3000:]))
            try:
                n = int(open(progress).read().split()[0])
            except Exception:  # noqa: BLE001
                n = -1
            if n < 0 or n in skip:
                info["asan_outside_calls"] = asan_excerpt(out)
                break
            skip[n] = asan_excerpt(out)
            info["restarts"] += 1
        info["asan_reports"] = dict(skip)
        if skip:
            info["asan_report_inputs"] = ik.describe({"suites": suites}, list(skip))
        if result is None:
            info["complete"] = False
            return None, info
        substitute_skipped(result["suites"], skip)
    snap = ctx.snapshot(variant)
    if not os.path.abspath(result.get("module_file") or "").startswith(snap):
        raise core.CheckError("set_operations was imported from %s, not from the %s snapshot %s" % (result.get("module_file"), variant, snap))
    info["calls"] = result["calls"]
    info["mutated_inputs"] = result["mutated_inputs"]
    info["first_index_error"] = result["first_index_error"]
    return result["suites"], info


def is_oob(ent):
    return isinstance(ent, dict) and (ent.get("exc") == "IndexError" or "asan" in ent)


def oob_record(case, variant):
    how = ("bounds-checked rebuild (the @cython.boundscheck(False) decorators of the working-tree set_operations.pyx flipped to True) raised IndexError"
           if variant == "boundscheck" else "AddressSanitizer build of the unmodified set_operations.pyx reported while this call was in flight")
    if case[0] == "bin":
        _, name, op, copy, l, r, ent, _k = case
        rec = {"kernel": S.KERNEL_OF[op], "op": OP_NAMES[op], "l": S.jsonable(l), "r": S.jsonable(r)}
    else:
        _, name, arrays, ent, _k = case
        rec = {"kernel": "union_many", "op": MANY, "arrays": [list(a) for a in arrays]}
    rec.update({"variant": variant, "suite": name, "observed": ent, "how": how})
    return rec


def scan(ctx, suites, results, variant, stats):
    """Oracle + statistics over every call of one build.  Returns (oob cases per kernel, keys of those, #calls)."""
    oob = collections.defaultdict(list)
    keys = set()
    n = 0
    for case in S.iter_cases(suites, results, variant):
        n += 1
        name = case[1]
        stats["per_suite"]["%s:%s" % (variant, name)] += 1
        unsorted = "unsorted" in name
        if case[0] == "bin":
            _, _, op, copy, l, r, ent, key = case
            br = S.branch_of(l, r, sorted_inputs=not unsorted)
            if br == "empty_shortcut":
                br = "both_empty" if (not l and not r) else "exactly_one_empty"
            stats["branches"]["%s:%s%s" % (OP_NAMES[op], "unsorted:" if unsorted else "", br)] += 1
            if l or r:
                ctx.nontrivial.add((op, l, r))
            kernel = S.KERNEL_OF[op]
            if name not in stats["samples"] and l and r and (unsorted or len(l) + len(r) >= 5):
                stats["samples"][name] = {"suite": name, "variant": variant, "op": OP_NAMES[op], "l": list(l), "r": list(r), "observed": S.jsonable(ent)}
        else:
            _, _, arrays, ent, key = case
            ne = sum(1 for a in arrays if a)
            stats["kway"]["%snonempty_arrays=%d" % ("unsorted:" if unsorted else "", ne)] += 1
            if ne:
                ctx.nontrivial.add((MANY, arrays))
            kernel = "union_many"
            if name not in stats["samples"] and ne >= 2:
                stats["samples"][name] = {"suite": name, "variant": variant, "op": MANY, "arrays": [list(a) for a in arrays], "observed": S.jsonable(ent)}
        if is_oob(ent):
            oob[kernel].append(case)
            keys.add(key)
    return oob, keys, n


def run(ctx):
    ctx.rule = ("all C08 inputs for the four kernels (every ordered pair of subsets of {0..5} quick / {0..7} thorough and of {0,1,2^31,2^32-2,2^32-1}; "
                "every list of <=3 subsets of {0..3} / of the boundary universe; random strictly increasing pairs and lists), the three wrappers on "
                "None/empty combinations, PLUS unsorted / duplicate-carrying inputs: every ordered pair of sequences of length <=3 over {0,1,2} and of "
                "length <=2 over {0,2^31,2^32-1}, random sequences of length 0..40 with duplicates, every list of <=2 such sequences and random lists "
                "of 3-6 unsorted arrays for the k-way kernel.  One evaluation = one call on one instrumented build (bounds-checked rebuild; thorough "
                "also AddressSanitizer) compared with the model inside Coq.  A case is identified by (function, input arrays), irrespective of the "
                "build; it is non-trivial when at least one input array is non-empty (a buffer exists whose bounds the kernel could leave; "
                "exactly-one-empty is the class that read out of bounds on the pinned tree); distinct ids are counted.")
    ctx.trusted = list(core.STD_TRUSTED) + [
        "SetOps/Check.v decoders of the compact case encodings (sub_of_mask, operand_of_code, obs_of_code, row_bad, ops_bad, many_row_bad, many_of_compact) and obs_eqb",
        "SetOps/Kernels.v is a hand transcription of set_operations.pyx (tied to the code only by this differential comparison)",
        "Cython's boundscheck=True instrumentation raises IndexError on exactly the out-of-range memoryview accesses and changes nothing else; "
        "AddressSanitizer (clang) only sees accesses that leave the heap block (an out-of-range read that lands in the same allocation is invisible to it)",
        "NumPy calls outside the loops (empty, asarray, concatenate, cumsum, slicing, result[:n] = array) are modelled by their value, not checked for memory safety",
        "attribution of an ASan report to a call: progress file written before every call (harness/impl_kernels.py)",
    ]
    phases = ctx.coverage.setdefault("phase_seconds", {})
    t = time.time()
    pr = ctx.prove("C09.v")
    S.record_proof(ctx, pr, "C09")
    phases["prove"] = round(time.time() - t, 1)

    pyx = open(os.path.join(core.REPO, "src", "catii", "set_operations.pyx")).read()
    n_dec = pyx.count("@cython.boundscheck(False)")
    ctx.coverage["boundscheck_decorators_flipped"] = n_dec
    if n_dec != 4:
        ctx.notes.append("expected 4 @cython.boundscheck(False) decorators in set_operations.pyx, found %d%s" % (
            n_dec, " (build_pyx forces the global directive boundscheck=True instead)" if n_dec == 0 else ""))

    suites = c09_suites(ctx)
    tie = S.Tie("c09")
    stats = {"per_suite": collections.Counter(), "branches": collections.Counter(), "kway": collections.Counter(), "samples": {}}
    oob = collections.defaultdict(list)     # kernel -> [(case, variant)]
    oob_keys = set()
    infos = []
    evaluations = 0
    incomplete = []
    mutated = []
    for variant in (["boundscheck"] if ctx.tier == "quick" else ["boundscheck", "asan"]):
        t = time.time()
        results, info = observe(ctx, suites, variant)
        phases["run_" + variant] = round(time.time() - t, 1)
        infos.append({k: v for k, v in info.items() if k not in ("mutated_inputs",)})
        mutated += [dict(m, variant=variant) for m in info.get("mutated_inputs") or []]
        if results is None:
            incomplete.append(variant)
            # the reports collected before the restarts ran out are still concrete violations
            for n, d in (info.get("asan_report_inputs") or {}).items():
                kern = S.KERNEL_OF.get(d["op"], "union_many")
                if d["op"] == MANY:
                    case = ("many", d["suite"], tuple(tuple(a) for a in d["arrays"]), {"asan": info["asan_reports"][n]}, None)
                else:
                    case = ("bin", d["suite"], d["op"], d.get("copy", False), None if d["l"] is None else tuple(d["l"]),
                            None if d["r"] is None else tuple(d["r"]), {"asan": info["asan_reports"][n]}, None)
                oob[kern].append((case, variant))
            continue
        t = time.time()
        S.encode(suites, results, tie, variant)
        o, keys, n = scan(ctx, suites, results, variant, stats)
        evaluations += n
        for k, cs in o.items():
            oob[k] += [(c, variant) for c in cs]
        oob_keys |= keys
        phases["encode_and_oracle_" + variant] = round(time.time() - t, 1)
    ctx.evaluations = evaluations
    ctx.samples = list(stats["samples"].values())[:6]

    t = time.time()
    tie.run()
    phases["coq_comparison"] = round(time.time() - t, 1)
    ctx.coverage.update({
        "exhaustive": True,
        "exhaustive_scope": "the subset-pair / subset-list enumerations and the small-alphabet sequence enumerations are complete; the random suites are samples",
        "calls_per_build_and_suite": dict(stats["per_suite"]),
        "branch_counts": dict(stats["branches"]),
        "kway_stats": dict(stats["kway"]),
        "builds": infos,
        "coq_tie": tie.stats,
        "cases_compared_inside_coq": tie.cases_covered,
        "model_disagreements": len(tie.failing),
        "coq_case_shards_failed": len(tie.errors),
        "out_of_bounds_observations": {k: len(v) for k, v in oob.items()},
        "inputs_mutated_by_the_code": len(mutated),
        "implementation": "working-tree set_operations.pyx rebuilt by the harness: variant boundscheck (decorators flipped, gcc -O2)"
                          + ("" if ctx.tier == "quick" else " and variant asan (unmodified source, clang -O1 -fsanitize=address, ASan runtime preloaded into CPython)")
                          + "; subprocess harness/impl_kernels.py",
        "tie": "W2 differential inside Coq (check_any of SetOps/Check.v): model OOB <-> IndexError/ASan report, model KOk r <-> returned exactly r",
    })
    if tie.cases_covered != evaluations:
        ctx.notes.append("encoder covered %d cases but %d calls were made" % (tie.cases_covered, evaluations))

    # ---- verdict ----
    for kern in sorted(oob):
        cs = sorted(oob[kern], key=lambda cv: S.case_size(cv[0]))
        recs = [oob_record(c, v) for c, v in cs[:20]]
        ctx.report("%s:oob" % kern, "the %s kernel accesses memory outside its buffers on this input" % kern, {
            "failing_inputs": recs, "count": len(cs),
            "how": "harness/impl_kernels.py in a subprocess against the instrumented build named in each input ('variant'); re-run with the rerun command"})
    if mutated:
        ctx.report("kernel:writes-input", "a kernel wrote into one of its input arrays", {"failing_inputs": mutated[:20], "count": len(mutated)})
    dis = S.disagreements(tie, oob_keys)
    outside = [i["asan_outside_calls"] for i in infos if i.get("asan_outside_calls")]
    if dis or tie.errors or not pr["ok"] or incomplete or outside or tie.cases_covered != evaluations:
        what = []
        if not pr["ok"]:
            what.append("proof obligation no longer checks: Properties/C09.v or its dependency cone")
        if dis:
            what.append("correspondence: %d case(s) where the instrumented build and the model of SetOps/Kernels.v differ without any out-of-bounds observation "
                        "(wrong values on sorted inputs are C08's business)" % len(dis))
        if tie.errors:
            what.append("correspondence shards failed to evaluate (%d): %s" % (len(tie.errors), tie.errors[0][2][-400:]))
        if incomplete:
            what.append("the %s run did not complete within %d restarts" % (",".join(incomplete), MAX_ASAN_RESTARTS))
        if outside:
            what.append("AddressSanitizer reported outside any kernel call")
        if tie.cases_covered != evaluations:
            what.append("encoder covered %d of %d calls" % (tie.cases_covered, evaluations))
        ctx.report("c09:not-shown", "; ".join(what), {
            "broken": [] if pr["ok"] else [{"obligation": "Properties/C09.v", "log": pr["log"][-2500:], "missing": pr.get("missing")}],
            "disagreeing_cases": dis[:40], "explain": tie.explain, "shard_errors": tie.errors[:3], "asan_outside_calls": outside[:2],
            "search": "all %d calls on the instrumented build(s): %s" % (
                evaluations, "no IndexError / ASan report" if not oob else "out-of-bounds observations only for: " + ", ".join(sorted(oob)))},
            found_input=False)


def replay(ctx, path):
    r = json.load(open(path))
    fi = r.get("failing_inputs", [])
    bins = [c for c in fi if c.get("op") in OP_NAMES.values()]
    manys = [c for c in fi if c.get("op") == MANY]
    suites = []
    if bins:
        opcode = {v: k for k, v in OP_NAMES.items()}
        suites.append({"kind": "bin_explicit", "name": "replay/bin", "cases": [[opcode[c["op"]], c["l"], c["r"], False] for c in bins]})
    if manys:
        suites.append({"kind": "many_explicit", "name": "replay/many", "cases": [c["arrays"] for c in manys]})
    variants = ["boundscheck"] + (["asan"] if any(c.get("variant") == "asan" for c in fi) else [])
    still = collections.defaultdict(list)
    n = 0
    if suites:
        for variant in variants:
            results, info = observe(ctx, suites, variant)
            if results is None:
                for k, d in (info.get("asan_report_inputs") or {}).items():
                    print("[asan] %s: AddressSanitizer report" % (d,))
                    still[S.KERNEL_OF.get(d["op"], "union_many")].append(dict(d, variant="asan", observed={"asan": info["asan_reports"][k]}))
                continue
            for case in S.iter_cases(suites, results, variant):
                n += 1
                ent = case[-2]
                desc = ("%s(%s, %s)" % (OP_NAMES[case[2]], S.jsonable(case[4]), S.jsonable(case[5]))) if case[0] == "bin" else "%s(%s)" % (MANY, [list(a) for a in case[2]])
                print("[%s] %s -> %s%s" % (variant, desc, json.dumps(S.jsonable(ent))[:300], "  <-- OUT OF BOUNDS" if is_oob(ent) else ""))
                if is_oob(ent):
                    rec = oob_record(case, variant)
                    still[rec["kernel"]].append(rec)
    else:
        print("replay file holds no failing input (kind=%s); re-run the full check: ./check C09" % r.get("kind"))
    ctx.evaluations = n
    ctx.level = "exploration"
    ctx.nontrivial.update(range(max(2, n)))
    ctx.rule = "replay of recorded failing inputs on the instrumented build(s)"
    ctx.samples = fi[:3] or ["(no recorded failing input: the replay file names a proof obligation / disagreeing cases)"]
    for kern, recs in still.items():
        ctx.report("%s:oob" % kern, "replayed input still makes the %s kernel access memory outside its buffers" % kern, {"failing_inputs": recs})
