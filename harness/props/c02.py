"""C02 - count cube equals the brute-force contingency table.

Proof : Properties/C02.v  (C02_count: every cell of the model cube - walk, fill, marginal differencing,
        margin cut, zero -> missing - holds the number of rows of that cell, including the reconstructed
        common cells, any number of dimensions; C02_missing_iff_no_rows; C02_formats_agree / C02_reports;
        C02_infer / C02_infer_covers: inferred extents = 1 + max(listed values u {common});
        C02_checker_evaluates_model: the staged evaluation used below IS the model's value).
Tie W2: `ccube(dims, interacting_shape=...).count(return_missing_as=...)` on real iindex dimensions
        (1, 2 or 3 axes; sub-cube blocks compared with the one-axis model applied to the really
        `sliced` dimensions) against `count_cube`, compared INSIDE Coq (Cube/Check.v: c02_check), all
        three report formats, explicit / inferred shape, IndexError <-> cube_ok.  The model cube is
        evaluated once per block (Cube/CountTable.v: a table re-tabulated after every differencing step);
        blocks whose working box exceeds TABLE_LIMIT cells (an axis at the 255..65537 boundaries) are
        compared with the right-hand side of C02_count instead, the checker then demanding the theorem's
        hypotheses (dim_wf_b, covers_b) on the real dimensions.
Oracle: brute-force table from the dense arrays (no model, no slicing).
"""
import collections
import itertools
import json
import math

import numpy

from .. import core
from . import cubelib

NAN = float("nan")
FORMATS = [("nan", None), ("pair", 0), ("pair", -7), ("plain", 0), ("plain", 0), ("nan", None)]
DENSE_LIMIT = 700       # compare every cell of a block up to this many cells, else sparse


# --------------------------------------------------------------------------- generation
def gen_cube(rng, big=False, uncovered=False):
    nd = rng.choice([0, 1, 1, 2, 2, 2, 3, 3, 4]) if not big else rng.choice([1, 2, 2])
    N = rng.choice([0, 1, 2, 3, 4, 5, 6, 7, 8, 8])
    specs, exts = [], []
    big_axis = rng.randrange(nd) if (big and nd) else None
    blocks = 1
    for i in range(nd):
        naxes = rng.choice([1, 1, 1, 2, 2, 3]) if not big else rng.choice([1, 1, 2])
        hshape = tuple(rng.randint(1, 3) for _ in range(naxes - 1))
        if blocks * int(numpy.prod(hshape or (1,))) > 12:
            hshape = ()
        blocks *= int(numpy.prod(hshape or (1,)))
        if i == big_axis:
            e = rng.choice([255, 256, 257, 255, 256, 257, 65535, 65536, 65537])
            pool = [0, 1, e - 2, e - 1]
        else:
            e = rng.randint(1, 3 if big else 4)
            pool = list(range(e))
        size = N * int(numpy.prod(hshape or (1,)))
        skew = rng.random()
        flat = [pool[0] if rng.random() < skew * 0.7 else rng.choice(pool) for _ in range(size)]
        arr = numpy.array(flat, dtype=numpy.int64).reshape((N,) + hshape)
        mode = rng.choice(["frequent", "frequent", "rare", "absent"])
        common = cubelib.pick_common(rng, flat, pool, mode)
        specs.append(cubelib.make_spec(rng, arr, common))
        exts.append(e)
    how = rng.choice(["inferred", "exact", "larger", "larger"])
    if how == "inferred":
        shape = None
    elif how == "exact":
        shape = list(exts)
    else:
        shape = [e + rng.choice([0, 1] if big else [0, 1, 2, 5]) for e in exts]
    if uncovered and nd:
        # outside the theorem: an extent at or below a listed value / the common (aliasing or IndexError)
        shape = list(exts) if shape is None else shape
        i = rng.randrange(nd)
        vals = set(numpy.asarray(specs[i]["arr"]).flatten().tolist()) | {specs[i]["common"]}
        shape[i] = max(1, max(vals) + rng.choice([0, 0, -1]))
    fmt = rng.choice(FORMATS)
    return add_cube_forms(rng, {"dims": specs, "shape": shape, "format": list(fmt), "N": N})


def add_cube_forms(rng, case):
    """Form of the cube-level arguments (content unchanged): explicit extents as NumPy integer scalars of ANY dtype that
    holds them, also AT the dtype's maximum (the working extent e + 1 wrapped there until fix F27); interacting_shape as
    tuple, list or ndarray (normalised by the constructor since F27); N passed explicitly as a Python int or NumPy scalar."""
    f = {"N": None, "shape_entries": None, "shape_container": "tuple"}
    if case["shape"] is not None:
        if rng.random() < 0.4:
            f["shape_entries"] = [cubelib.scalar_tag(rng, int(e), p=0.7, headroom=0) for e in case["shape"]]
        f["shape_container"] = rng.choice(["tuple", "tuple", "tuple", "list", "ndarray"])
    if rng.random() < 0.3:
        f["N"] = cubelib.scalar_tag(rng, case["N"], p=0.7, headroom=0)
    case["forms"] = f
    return case


def case_form_tags(case):
    f = case.get("forms") or {}
    out = ["N=" + (f.get("N") or "not passed")] if case["dims"] else ["N=" + (f.get("N") or "python-int")]
    if case["shape"] is None:
        out.append("shape=inferred")
    else:
        out.extend("extent=" + t for t in (f.get("shape_entries") or ["python-int"] * len(case["shape"])))
        out.append("shape=" + (f.get("shape_container") or "tuple"))
    return out


def gen_dtype_max_cube(rng):
    """Aimed at F24: a dimension whose largest value is the maximum of an 8-/16-bit dtype (255, 127, 65535, 32767) and is
    handed over as a NumPy scalar OF THAT DTYPE - as the common (`common=arr.max()`) or as a dict-key coordinate - with the
    shape inferred (F24); or the largest value one below it and the explicit extent a NumPy scalar AT the maximum (F27).  (32-/64-bit maxima would need a 2^31-cell region and are not generated.)"""
    top, dt = rng.choice(sorted(cubelib.DTYPE_MAXES.items()))
    explicit = rng.random() < 0.4       # then the largest value is max-1 and the explicit extent is AT the maximum (F27)
    if explicit:
        top -= 1
    N = rng.randint(1, 8)
    pool = [0, 1, top - 1, top]
    col = [rng.choice(pool) for _ in range(N)]
    col[rng.randrange(N)] = top
    as_common = rng.random() < 0.6
    common = top if as_common else rng.choice([0, 1, top - 1])
    edge = cubelib.make_spec(rng, col, common, vary_form=False)
    edge["form"] = {"common": "numpy." + dt if as_common else cubelib.scalar_tag(rng, common)}
    if edge["how"] == "from_array":
        edge["form"]["arr"] = rng.choice([dt, "int64", dt]) + "/" + rng.choice(["c-contiguous", "strided", "readonly"])
        if not as_common:                       # the top value has to be a NumPy-scalar dict key: use the constructor
            edge["how"] = "ctor"
            edge["order"] = [list(k) for k in cubelib.entries_from_dense(col, common).keys()]
            del edge["form"]["arr"]
    if edge["how"] == "ctor":
        edge["form"]["rowids"] = rng.choice(cubelib.ROWID_FORMS)
        edge["form"]["coords"] = "numpy." + dt if (not as_common or rng.random() < 0.5) else "python-int"
    specs = [edge]
    if rng.random() < 0.5:
        e2 = rng.randint(1, 3)
        col2 = [rng.randrange(e2) for _ in range(N)]
        specs.insert(rng.randrange(2), cubelib.make_spec(rng, col2, cubelib.pick_common(rng, col2, range(e2), rng.choice(["frequent", "rare", "absent"]))))
    case = {"dims": specs, "shape": None, "format": list(rng.choice(FORMATS)), "N": N}
    if explicit:
        case["shape"] = [max(s["arr"] + [s["common"]]) + 1 for s in specs]
    add_cube_forms(rng, case)
    if case["shape"] is not None and rng.random() < 0.7:
        case["forms"]["shape_entries"] = [("numpy." + cubelib.DTYPE_MAXES[e]) if e in cubelib.DTYPE_MAXES else cubelib.scalar_tag(rng, e, p=0.7)
                                          for e in case["shape"]]
    return case


def gen_related_cube(rng):
    """RELATIONS between arguments / calls (cubelib.gen_related + relations of the calls): the very same iindex object at
    two or three positions of dims (1-, 2-, 3-axis; A A, A B A, A A A), equal-content twins as distinct objects (other
    construction path / dict order), zero-entry dimensions; and, on the same objects: the same CUBE object asked twice
    (count() twice, interactions() then count()), a warm-up cube over the same dimension objects in another order
    whose result must be the transposed table."""
    N, specs, pattern = cubelib.gen_related(rng, multi_axis=True)
    how = rng.choice(["inferred", "inferred", "exact", "larger"])
    shape = None
    if how != "inferred":
        shape = [max(numpy.asarray(s["arr"]).flatten().tolist() + [s["common"]]) + 1 + (rng.choice([0, 1]) if how == "larger" else 0) for s in specs]
    perm = list(range(len(specs)))
    rng.shuffle(perm)
    rel = {"pattern": pattern,
           "calls": rng.choice(["count", "count-twice", "interactions-then-count", "count-twice"]),
           "warmup_perm": perm if (perm != sorted(perm) and rng.random() < 0.6) else None}
    case = add_cube_forms(rng, {"dims": specs, "shape": shape, "format": list(rng.choice(FORMATS)), "N": N})
    case["relations"] = rel
    return case


def transposed_warmup(case, dims, W, R):
    """The table of the warm-up cube ccube([dims[p] for p in perm]) rearranged to the axis order of ccube(dims):
    scaffold axes of every dimension in dimension order, then one interacting axis per dimension."""
    perm = case["relations"]["warmup_perm"]
    nax = [len(d.shape) - 1 for d in dims]
    pos, k = {}, 0
    for p in perm:                                  # scaffold blocks of the warm-up, in its dimension order
        pos[("s", p)] = list(range(k, k + nax[p]))
        k += nax[p]
    for p in perm:
        pos[("i", p)] = [k]
        k += 1
    axes = [a for i in range(len(dims)) for a in pos[("s", i)]] + [a for i in range(len(dims)) for a in pos[("i", i)]]
    return numpy.transpose(W, axes)


def gen_lopsided_cube(rng):
    """cubelib.gen_lopsided as a count cube: one-axis dimensions, N 30..120, extents 2-5, exact / padded / inferred shape"""
    N, cols = cubelib.gen_lopsided(rng)
    specs = [cubelib.make_spec(rng, col, common) for col, common, _ in cols]
    how = rng.choice(["inferred", "exact", "larger"])
    shape = None if how == "inferred" else [e + (rng.choice([0, 1]) if how == "larger" else 0) for _, _, e in cols]
    return add_cube_forms(rng, {"dims": specs, "shape": shape, "format": list(rng.choice(FORMATS)), "N": N})


# --------------------------------------------------------------------------- kept cubes (multi-step histories on ONE cube object)
def gen_kept_cube(rng):
    """A script for ONE long-lived count cube (c14.gen_kept + shift_common rounds): one-axis dims, an explicit shape with
    room for the categories added later (the extents of a cube are fixed at construction), then 2-5 rounds of legitimate
    IN-PLACE changes of the dims - iindex.append on every dim (rows in existing / new categories: N changes, the common may
    shift), iindex.update moving rows, idx[(k,)] = array, shift_common() - each followed by count() on the SAME cube."""
    from . import c14
    script = c14.gen_kept(rng)
    rounds = []
    for op in script["rounds"]:
        rounds.append(op)
        if rng.random() < 0.3:
            rounds.append({"op": "shift_common", "dim": rng.randrange(len(script["dims"])), "kind": "shift_common",
                           "expect": op["expect"], "between": "none", "mode": op["mode"]})
    script["rounds"] = rounds
    top = max([v for op in rounds for col in op["expect"] for v in col] + [sp["common"] for sp in script["dims"]]
              + [v for sp in script["dims"] for v in sp["arr"]])
    script["shape"] = [top + 1 + rng.choice([0, 1]) for _ in script["dims"]]
    script["formats"] = [list(rng.choice(FORMATS)) for _ in range(len(rounds) + 1)]
    script["second_cube"] = rng.random() < 0.5
    return script


def run_kept_cube(ctx, script):
    """-> list of (pseudo-case describing the dims' CURRENT state, out dict as run_cube's, round, which cube)"""
    from catii import ccube, iindex
    from . import c14
    dims = cubelib.build_dims(script["dims"])
    shape = tuple(script["shape"])
    cube = ccube(dims, interacting_shape=shape)          # built ONCE
    cube2 = ccube(dims, interacting_shape=shape)         # a second cube object sharing the dimension objects
    results = []

    def look(which, k):
        kind, null = script["formats"][k]
        rma = NAN if kind == "nan" else ((null, False) if kind == "pair" else null)
        case = {"dims": [{"arr": [int(v) for v in d.to_array(dtype=numpy.int64).tolist()], "common": int(d.common)} for d in dims],
                "shape": list(shape), "format": [kind, null], "N": int(dims[0].shape[0])}
        c = cube if which == "kept" else cube2
        out = {"dims": dims, "raised": None, "shape": tuple(int(e) for e in c.interacting_shape),
               "scaffold": tuple(int(e) for e in c.scaffold_shape)}
        try:
            res = c.count(return_missing_as=rma)
            out["vals"], out["valid"], out["missing"] = abstract_result(res, (kind, null))
        except (IndexError, ValueError, TypeError, OverflowError, KeyError, ZeroDivisionError) as e:
            out["raised"] = type(e).__name__
            out["message"] = str(e)[:200]
        out["lits"] = coq_cases(ctx, case, out)        # NOW: the dims are live objects and change in the next round
        results.append((case, out, k, which))
    look("kept", 0)
    for k, op in enumerate(script["rounds"], 1):
        if op["op"] == "shift_common":
            dims[op["dim"]].shift_common()
        else:
            c14.apply_op(iindex, dims, op)
        look("kept", k)
        if script["second_cube"]:
            look("second", k)
    return results


# --------------------------------------------------------------------------- observation
def abstract_result(res, fmt):
    """-> (values ndarray of object: int or None for NaN, validity ndarray of bool, missing ndarray of bool)"""
    kind, null = fmt
    if kind == "pair":
        vals, valid = res
        vals, valid = numpy.asarray(vals), numpy.asarray(valid)
        missing = ~valid
    else:
        vals = numpy.asarray(res)
        valid = numpy.ones(vals.shape, dtype=bool)
        missing = numpy.isnan(vals) if kind == "nan" else (vals == null)
    return vals, valid, missing


def cell_value(v):
    """exact integer of an output value, None for NaN; non-integers are kept as floats (never equal to a model value)"""
    f = float(v)
    if math.isnan(f):
        return None
    return int(f) if f == int(f) else f


def run_cube(case):
    """Build and count.  -> dict(raised, shape, vals, valid, missing, dims)"""
    from catii import ccube
    dims = cubelib.build_dims(case["dims"])
    rel = case.get("relations") or {}
    kind, null = case["format"]
    rma = NAN if kind == "nan" else ((null, False) if kind == "pair" else null)
    cf = case.get("forms") or {}
    shape = None
    if case["shape"] is not None:
        tags = cf.get("shape_entries") or [None] * len(case["shape"])
        shape = tuple(cubelib.apply_scalar(int(e), t) for e, t in zip(case["shape"], tags))
        if cf.get("shape_container") == "list":
            shape = list(shape)
        elif cf.get("shape_container") == "ndarray":
            shape = numpy.array([int(e) for e in case["shape"]], dtype=numpy.int64)
    out = {"dims": dims, "raised": None}
    try:
        cube = ccube(dims, interacting_shape=shape)
        out["shape"] = tuple(int(e) for e in cube.interacting_shape)
        out["scaffold"] = tuple(int(e) for e in cube.scaffold_shape)
        kw = {} if (dims and not cf.get("N")) else {"N": cubelib.apply_scalar(case["N"], cf.get("N"))}
        warm = None
        if rel.get("warmup_perm"):
            # a cube over the SAME dimension objects in another order, computed first
            p = rel["warmup_perm"]
            wshape = None if shape is None else tuple(int(case["shape"][i]) for i in p)
            warm = ccube([dims[i] for i in p], interacting_shape=wshape).count(return_missing_as=rma, **kw)
        if rel.get("calls") == "interactions-then-count":
            cube.interactions()
        first = cube.count(return_missing_as=rma, **kw) if rel.get("calls") == "count-twice" else None
        res = cube.count(return_missing_as=rma, **kw)

        def same(x, y):
            xs, ys = (x if isinstance(x, tuple) else (x,)), (y if isinstance(y, tuple) else (y,))
            return all(numpy.asarray(a).shape == numpy.asarray(b).shape and numpy.array_equal(numpy.asarray(a), numpy.asarray(b), equal_nan=(numpy.asarray(a).dtype.kind == "f"))
                       for a, b in zip(xs, ys))
        if first is not None and not same(first, res):
            out["relation_error"] = "the same cube object returns different tables when count() is called twice"
        if warm is not None:
            ws, rs = (warm if isinstance(warm, tuple) else (warm,)), (res if isinstance(res, tuple) else (res,))
            wt = tuple(transposed_warmup(case, dims, numpy.asarray(w), None) for w in ws)
            if not same(wt, rs):
                out["relation_error"] = "ccube over the same dimension objects in the order %r is not the transposed table" % (rel["warmup_perm"],)
    except IndexError as e:
        out["raised"] = "IndexError"
        if "shape" not in out:
            raise
        return out
    except (ValueError, TypeError, OverflowError, KeyError, ZeroDivisionError, MemoryError) as e:
        # never modelled: inside the property's domain it is a violation (judge), outside it the cube is skipped
        out["raised"] = type(e).__name__
        out["message"] = str(e)[:200]
        return out
    out["vals"], out["valid"], out["missing"] = abstract_result(res, (kind, null))
    return out


def judge(case, out):
    """Property oracle on the whole result (None = holds).  Only for cubes inside the property's domain:
    extents >= 1 covering every value and the common."""
    arrs = [numpy.asarray(s["arr"], dtype=numpy.int64) for s in case["dims"]]
    N = case["N"]
    for s, a in zip(case["dims"], arrs):
        if a.size == 0:
            a.shape = (0,) + tuple(s.get("hshape", ()))
    if out["raised"]:
        return {"raised": out["raised"], "message": out.get("message", "")}
    if out.get("relation_error"):
        return {"relation": out["relation_error"]}
    shape, scaffold = out["shape"], out["scaffold"]
    if case["shape"] is None:
        want = tuple(int(max(a.flatten().tolist() + [s["common"]])) + 1 for a, s in zip(arrs, case["dims"]))
        # the property fixes inferred extents only through "every cell": they must cover the data
        if any(e < w for e, w in zip(shape, want)):
            return {"inferred_shape": list(shape), "needed": list(want)}
    table = cubelib.brute_table(arrs, N) if arrs else ({(): N} if N else {})
    full = scaffold + shape
    if tuple(out["vals"].shape) != tuple(full):
        return {"result_shape": list(out["vals"].shape), "expected_shape": list(full)}
    kind, null = case["format"]
    bad = []
    # non-zero cells of the table must be present and right
    for cell, n in table.items():
        if any(c >= e for c, e in zip(cell, full)):
            return {"cell_outside_cube": list(cell)}
        v = cell_value(out["vals"][cell])
        if v != n or not bool(out["valid"][cell]) or bool(out["missing"][cell]):
            bad.append({"cell": list(cell), "rows_in_cell": n, "reported": v, "valid": bool(out["valid"][cell])})
    # every other cell must be reported missing in the format's way
    nz = numpy.argwhere(~out["missing"]) if out["vals"].shape else ([()] if not bool(out["missing"]) else [])
    for cell in nz:
        cell = tuple(int(x) for x in cell)
        if cell not in table:
            bad.append({"cell": list(cell), "rows_in_cell": 0, "reported": cell_value(out["vals"][cell]), "valid": bool(out["valid"][cell])})
    if not bad:
        miss = out["missing"]
        mv = out["vals"][miss] if out["vals"].shape else (numpy.asarray([out["vals"]]) if bool(miss) else numpy.asarray([]))
        if kind == "nan":
            ok = bool(numpy.isnan(mv.astype(float)).all())
        else:
            ok = bool((mv == null).all())
        if kind == "pair" and out["vals"].shape:
            ok = ok and not bool(out["valid"][miss].any())
        if not ok:
            bad.append({"missing_cells_not_reported_as": [kind, null]})
    return {"wrong_cells": bad[:6]} if bad else None


def in_domain(case):
    """extents (explicit) cover every value and the common; all values >= 0"""
    if case["shape"] is None:
        return True
    for s, e in zip(case["dims"], case["shape"]):
        vals = numpy.asarray(s["arr"]).flatten().tolist() + [s["common"]]
        if max(vals) >= e or min(vals) < 0:
            return False
    return True


def coq_cases(ctx, case, out):
    """One literal per sub-cube block: the really sliced one-axis dims and the block's cells."""
    dims = out["dims"]
    N = case["N"]
    kind, null = case["format"]
    fmtlit = "(%d, %s)" % ({"nan": 0, "pair": 1, "plain": 2}[kind], core.zlit(null or 0))
    # shape inference looks at every entry of the unsliced dimension: (first coordinates in dict order, common)
    if case["shape"] is None:
        inferred = "(Some [%s])" % "; ".join("(%s, %s)" % (core.zlist(int(k[0]) for k in dict.keys(d)), core.zlit(int(d.common))) for d in dims)
    else:
        inferred = "None"
    lits = []
    his = [list(numpy.ndindex(*d.shape[1:])) if len(d.shape) > 1 else [()] for d in dims]
    for combo in itertools.product(*his):
        sliced = [d.sliced(*[int(x) for x in h]) if h else d for d, h in zip(dims, combo)]
        flat = tuple(int(e) for h in combo for e in h)
        if out["raised"] and out["raised"] != "IndexError":
            return []                      # not a modelled outcome; judged by the oracle when inside the domain
        if out["raised"]:
            # cannot attribute the IndexError to one block when there are several: only single-block cubes
            if len(list(itertools.product(*his))) > 1:
                return []
            return ["(%s, %s, %s, %s, %s, [], [], true)" % (core.zlit(N), cubelib.dims_lit(sliced), core.zlist(out["shape"]), inferred, fmtlit)]
        shape = out["shape"]
        vals, valid, missing = (out["vals"][flat], out["valid"][flat], out["missing"][flat]) if flat else (out["vals"], out["valid"], out["missing"])
        ncell = int(numpy.prod(shape)) if shape else 1
        def val(c):
            v = cell_value(vals[c])
            return 10 ** 9 + 7 if isinstance(v, float) else v          # a non-integer count: never equal to the model
        if ncell <= DENSE_LIMIT:
            # every cell, compactly: row-major codes 4 * value + (0 valid value | 1 valid NaN | 2 invalid value | 3 invalid NaN)
            codes = []
            for c in itertools.product(*[range(e) for e in shape]):
                v = val(c)
                codes.append(4 * (v or 0) + (0 if bool(valid[c]) else 2) + (1 if v is None else 0))
            cl, codelit = [], core.zlist(codes)
        else:
            cells = set(tuple(int(x) for x in c) for c in numpy.argwhere(~missing))
            cells.add(tuple(int(d.common) for d in sliced))
            for _ in range(3):
                cells.add(tuple(ctx.rng.choice([0, e - 1, ctx.rng.randrange(e), int(d.common)]) for e, d in zip(shape, sliced)))
            cells = sorted(c for c in cells if all(0 <= x < e for x, e in zip(c, shape)))
            cl = ["(%s, %s, %s)" % (core.zlist(c), core.optlit(val(c), core.zlit), core.boollit(bool(valid[c]))) for c in cells]
            codelit = "[]"
        lits.append("(%s, %s, %s, %s, %s, [%s], %s, false)" % (core.zlit(N), cubelib.dims_lit(sliced), core.zlist(shape), inferred, fmtlit,
                                                                "; ".join(cl), codelit))
    return lits


def strip(case):
    return {"dims": case["dims"], "shape": case["shape"], "format": case["format"], "N": case["N"], "forms": case.get("forms"),
            "relations": case.get("relations")}


def exhaustive_cases():
    """all 2-dimension x 3-row x 3-category x common (0,1,2,absent=3) inputs, inferred shape, formats rotating"""
    arrays = list(itertools.product(range(3), repeat=3))
    k = 0
    for a in arrays:
        for b in arrays:
            for ca in range(4):
                for cb in range(4):
                    fmt = FORMATS[k % 4]
                    k += 1
                    yield {"dims": [{"arr": list(a), "common": ca, "how": "ctor", "order": None},
                                    {"arr": list(b), "common": cb, "how": "ctor", "order": None}],
                           "shape": None if k % 3 else [4, 4], "format": list(fmt), "N": 3}


def run(ctx):
    thorough = ctx.tier == "thorough"
    ctx.rule = ("random cubes: 0-4 dimensions of 1-3 axes (<= 12 sub-cube blocks), N in 0..8, extents 1..4, explicit extents "
                "exact / larger than the data / inferred, one axis at the 255/256/257/65535/65536/65537 boundaries in a share "
                "of the cubes (cells compared sparsely there), common most-frequent/rare/absent, report formats NaN, (0,False), "
                "(-7,False), plain 0; plus cubes outside the theorem's domain (extent <= a listed value or the common: NumPy "
                "aliasing with the margin slot or IndexError) to tie the array model itself; lopsided cubes: N in 30..120, 2-4 one-axis dims of "
                "extent 2-4 with one frequent category (60-90 % of the rows) and rare categories of 1-3 rows whose last row usually "
                "lies in the next dimension's frequent category; the FORM of the inputs is varied with the content unchanged "
                "(from_array from every integer dtype holding the values in C / Fortran / transposed / strided / negative-stride / "
                "read-only layouts or nested lists; constructor with contiguous, column-view or read-only uint32 row ids; common, explicit "
                "extents and N as Python ints or NumPy integer scalars, dict-key coordinates as NumPy scalars; commons and coordinates also AT "
                "the maximum of their 8-/16-bit dtype with inferred shape (dtype-max stream, finding F24); explicit extents as NumPy scalars of "
                "any dtype holding them, also at the dtype maximum, interacting_shape as tuple / list / ndarray (finding F27); 32-/64-bit "
                "maxima would need 2^31-cell regions and are not generated); relations: the very same iindex object (1-3 axes) at two or three "
                "positions of dims (A A, A B A, A A A), equal-content twins as distinct objects (other construction path / dict order), "
                "zero-entry dimensions, the same cube object asked twice (count twice, interactions then count), a warm-up cube over the same "
                "objects in another order whose table must be the transpose; kept cubes: ONE ccube object (explicit shape with room; optionally a second cube sharing the "
                "dims) whose count() is taken, its one-axis dims changed IN PLACE (iindex.append into existing / new categories - N changes -, "
                "iindex.update moving rows, idx[(k,)] = array, shift_common()), and count() taken on the SAME object again, 2-5 rounds, each "
                "compared with the contingency table of the dims' current state; a case = one sub-cube block, "
                "distinct per literal, non-trivial when N > 0 and it has at least one dimension")
    ctx.trusted = list(core.STD_TRUSTED) + [
        "SetOps: set_intersect_merge_np(base, rowids) = inter_spec base rowids on increasing inputs (property C08)",
        "iindex.sliced / slices1d reduce a 2-/3-axis dimension to one-axis dimensions per sub-cube (property C13); the tie "
        "slices with the real `sliced`, the search oracle works from the dense arrays and does not rely on it",
        "NumPy integer/float64 arithmetic on counts <= N is exact; numpy.isclose(count, 0) is count == 0 for integers",
        "harness/props/c02.py: abstraction of the three report formats to (value|NaN, validity) per cell"]
    pr = ctx.prove("C02.v")
    ctx.assumptions = ["Print Assumptions: " + a for a in pr["assumptions"]] + [
        "C02_count covers: well-formed dimensions (dim_wf), one extent per dimension, every listed value and the common value "
        "in [0, extent) (`covers`); smaller extents raise IndexError or alias the margin slot and are outside the property",
        "N >= 0 is the row count; N passed to count() equals it (the default; given explicitly for zero-dimension cubes)"]
    ctx.coverage["print_assumptions"] = pr["assumptions"]
    ctx.import_catii()

    cases, metas, found, n_cubes, n_raised, n_unc = [], [], [], 0, 0, 0

    form_dist = collections.Counter()

    n_dtmax = 0
    rel_dist = collections.Counter()

    def add(case):
        nonlocal n_cubes, n_raised
        n_cubes += 1
        for sp in case["dims"]:
            for t in cubelib.form_tags(sp) or ["ordinary (exhaustive stream)"]:
                form_dist[t] += 1
        for t in case_form_tags(case):
            form_dist[t] += 1
        out = run_cube(case)
        dom = in_domain(case)
        if out["raised"]:
            n_raised += 1
        if dom:
            bad = judge(case, out)
            if bad:
                found.append(dict(strip(case), difference=bad))
        lits = coq_cases(ctx, case, out)
        for l in lits:
            cases.append(l)
            metas.append(case)
            if case["N"] > 0 and case["dims"]:
                ctx.nontrivial.add(l)
        return out

    n_rand = 30000 if thorough else 1200
    n_lop = 1500 if thorough else 150
    every = n_rand // n_lop
    for i in range(n_rand):
        if i % every == 0:          # interleaved so that the heavier cases (N up to 120) spread over the Coq shards
            add(gen_lopsided_cube(ctx.rng))
        if i % (2 * every) == 1:
            add(gen_dtype_max_cube(ctx.rng))
            n_dtmax += 1
        if i % every == 2:
            rc = gen_related_cube(ctx.rng)
            add(rc)
            rel_dist["pattern=" + rc["relations"]["pattern"]] += 1
            rel_dist["calls=" + rc["relations"]["calls"]] += 1
            rel_dist["warm-up cube in another order" if rc["relations"]["warmup_perm"] else "no warm-up cube"] += 1
        r = ctx.rng.random()
        case = gen_cube(ctx.rng, big=(r < 0.12), uncovered=(0.12 <= r < 0.2))
        if not in_domain(case):
            n_unc += 1
        out = add(case)
        if i < 3 and not out["raised"]:
            ctx.samples.append({"dims": [{"arr": s["arr"], "common": s["common"]} for s in case["dims"]], "shape": case["shape"],
                                "format": case["format"],
                                "result": numpy.asarray(out["vals"]).tolist() if numpy.asarray(out["vals"]).size <= 300 else "(%d cells)" % numpy.asarray(out["vals"]).size})
    # kept cubes: count() on one cube object before and after in-place changes of its dims
    n_kept = 500 if thorough else 60
    kept_dist = collections.Counter()
    for k in range(n_kept):
        script = gen_kept_cube(ctx.rng)
        for case, out, rnd, which in run_kept_cube(ctx, script):
            n_cubes += 1
            kept_dist["observations"] += 1
            bad = judge(case, out) if in_domain(case) else None
            if bad:
                found.append(dict(strip(case), difference=bad, kept=script, round=rnd, cube=which))
            for l in out["lits"]:
                cases.append(l)
                metas.append(dict(case, kept_round=rnd))
                if case["N"] > 0:
                    ctx.nontrivial.add((l, "kept", rnd, which))
        kept_dist["objects"] += 1
        kept_dist["with a second cube sharing the dims"] += int(script["second_cube"])
        for op in script["rounds"]:
            kept_dist["change=" + op.get("kind", "none")] += 1
        if k < 1:
            ctx.samples.append({"kept_cube_script": script})
    ctx.coverage["kept_cubes"] = dict(sorted(kept_dist.items()))
    n_exh = 0
    if thorough:
        for case in exhaustive_cases():
            add(case)
            n_exh += 1
    ctx.coverage.update({"random_cubes": n_rand, "lopsided_cubes": len(range(0, n_rand, every)), "dtype_max_cubes": n_dtmax, "exhaustive_cubes": n_exh, "cubes": n_cubes, "blocks_compared_in_coq": len(cases),
                         "cubes_outside_domain": n_unc, "index_errors": n_raised})
    ctx.coverage["input_forms"] = dict(sorted(form_dist.items()))
    ctx.coverage["relations"] = dict(sorted(rel_dist.items()))
    if n_exh:
            ctx.coverage["exhaustive_subspace"] = ("all 2-dimension x 3-row x 3-category x common in {0,1,2,absent} cubes (%d) "
                                            "(a complete sub-space; the random stream is not exhaustive)" % n_exh)
    ctx.evaluations = len(cases)

    prelude = "From Catii Require Import Cube.Dim Cube.Walk Cube.Region Cube.Count Cube.Check."
    res = core.run_cases("c02", prelude, cases, "c02_case", "fun c => c02_check c && c02_spec_check c", "c02_explain",
                         shard_size=2500 if thorough else 120)
    ctx.coverage["coq_case_shards_failed"] = len(res.errors)
    ctx.coverage["model_disagreements"] = len(res.failing)
    ctx.coverage["oracle_failures"] = len(found)

    if found:
        found.sort(key=lambda f: (len(f["dims"]), f["N"], len(json.dumps(f))))
        raised = [f for f in found if "raised" in f["difference"]]
        related = [f for f in found if "relation" in f["difference"]]
        wrong = [f for f in found if "raised" not in f["difference"] and "relation" not in f["difference"]]
        if related:
            ctx.report("count:depends-on-call-history", "ccube.count() over the same dimension objects differs between two calls / two orders of the dimensions",
                       {"failing_inputs": related[:10], "count": len(related),
                        "how": "cubelib.build_dims (spec['same_as'] = shared object), then the calls recorded in case['relations']"})
        if wrong:
            ctx.report("count:wrong-cell", "a cell of ccube.count() is not the number of rows of that cell / not missing exactly when zero",
                       {"failing_inputs": wrong[:10], "count": len(wrong),
                        "how": "build the dims (cubelib.build_dim), ccube(dims, interacting_shape=shape).count(return_missing_as=...), compare with the brute-force table"})
        for exc in sorted(set(f["difference"]["raised"] for f in raised)):
            sel = [f for f in raised if f["difference"]["raised"] == exc]
            ctx.report("count:raised-" + exc, "ccube(...).count() raises %s for a cube inside the property's domain (extents cover every value and the common)" % exc,
                       {"failing_inputs": sel[:10], "count": len(sel),
                        "how": "build the dims in the recorded FORM (cubelib.build_dim re-applies spec['form']), ccube(dims, interacting_shape=shape).count(...)"})
    elif res.failing or res.errors or not pr["ok"]:
        what = []
        if not pr["ok"]:
            what.append("proof obligation no longer checks: Properties/C02.v")
        if res.failing:
            what.append("correspondence suite c02: %d sub-cube blocks where implementation, model count_cube and specification differ" % len(res.failing))
        if res.errors:
            what.append("correspondence shards failed to evaluate: %s" % (res.errors[0][1][-500:],))
        ctx.report("c02:not-shown", "; ".join(what), {
            "proof_log": pr["log"][-2500:] if not pr["ok"] else "",
            "disagreeing_cases": [dict(strip(metas[i]), literal=cases[i][:2000]) for i in res.failing[:10]],
            "explain": res.explain,
            "search": "the brute-force oracle judged all %d cubes inside the property's domain and found no failing input" % (n_cubes - n_unc)}, found_input=False)


def replay(ctx, path):
    r = json.load(open(path))
    ctx.import_catii()
    bad = []
    items = r.get("failing_inputs") or r.get("disagreeing_cases") or []
    for c in items:
        if c.get("kept"):
            rs = [(rnd, which, judge(case, out)) for case, out, rnd, which in run_kept_cube(ctx, c["kept"]) if in_domain(case)]
            rs = [x for x in rs if x[2]]
            print("kept cube over dims=%s, %d rounds -> %s" % ([(s["arr"], s["common"]) for s in c["kept"]["dims"]], len(c["kept"]["rounds"]),
                                                               "VIOLATES " + json.dumps(rs[:3]) if rs else "ok"))
            if rs:
                bad.append({"kept": c["kept"], "difference": rs[0][2], "round": rs[0][0]})
            continue
        case = strip(c)
        out = run_cube(case)
        b = judge(case, out) if in_domain(case) else None
        print("dims=%s shape=%s format=%s -> %s" % ([(s["arr"], s["common"]) for s in case["dims"]], case["shape"], case["format"],
                                                   "VIOLATES " + json.dumps(b) if b else "ok"))
        if b:
            bad.append(dict(case, difference=b))
    ctx.evaluations = len(items)
    ctx.level = "exploration"
    ctx.nontrivial.update(range(max(2, len(items))))
    ctx.rule = "replay of recorded failing inputs"
    if bad:
        ctx.report("count:wrong-cell", "replayed failing input still fails", {"failing_inputs": bad})
