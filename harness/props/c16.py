"""C16 - pooled evaluation is schedule-independent.

Proof: Properties/C16.v - every interleaving of tasks whose writes stay inside blocks selected by distinct
sub-cube coordinates leaves the shared store as the serial order does (interleave_serial,
footprint_disjoint, C16, C16_pool), the boolean checkers used below are sound for those hypotheses
(footprints_checker_sound) and a passing correspondence case therefore covers EVERY interleaving of the
observed tasks (passing_case_all_schedules).

Tie (run-time, on the working-tree snapshot; the model cannot exhibit any of this):
 (i)  FOOTPRINT: every real sub-cube task is run ALONE (pool forced on, a pool that runs one item) on regions
      pre-filled with random garbage, twice with different garbage, item assignments into the regions
      logged: the touched cells and the values left must not depend on the garbage (the task does not read the
      shared regions) and must lie inside the block selected by the task's flattened coordinates (checked
      inside Coq: footprints_ok_b);
 (ii) SCHEDULES: pool forced on (cube.parallel = True, poolsize 1..16; pool_class for the array cube, ThreadPool
      patched in the snapshot's catii.ccubes namespace for the index cube) with harness/sched.py's DetPool -
      a baton handed over at every BYTECODE executed in a catii frame, next worker drawn from a seeded PRNG -
      plus whole-task permutations and the real ThreadPool under sys.setswitchinterval(1e-6): outputs must be
      bit-for-bit those of the serial run.  One scheduled run per configuration is logged: its observed write
      schedule is replayed through the model's `run` inside Coq.
Oracle (model-free): bitwise comparison of the pooled output with the serial output.
The unsynchronised diagnostics counters are outside the property and are not compared.
"""
import json
import multiprocessing
import sys
import time

import numpy

from .. import conc_lib as cl
from .. import core
from .. import sched

SIG_DIFF = "c16:pooled-differs-from-serial"
_RIG = None          # inherited by the forked schedule workers


# ----------------------------------------------------------------------------------------------- running
def run_mode(rig, cfg, run):
    """One calculate of a fresh cube / fresh aggregate objects in the mode described by `run`; returns
    (signature, ctl.maps, ctl.points, ctl.switches, ctl.threads_used)."""
    cube, funcs = rig.cube(cfg), rig.funcs(cfg)
    old = sys.getswitchinterval()
    try:
        if run["mode"] == "real":
            sys.setswitchinterval(1e-6)
        out = rig.calculate(cube, funcs, run["mode"], poolsize=run.get("poolsize", 4), seed=run.get("seed", 0),
                            p_switch=run.get("p_switch", 1.0), granularity=run.get("granularity", "opcode"),
                            order=run.get("order"))
    finally:
        sys.setswitchinterval(old)
    return cl.out_sig(out), rig.ctl.maps, rig.ctl.points, rig.ctl.switches, rig.ctl.threads_used


def _worker(job):
    """forked: run the scheduled runs of one configuration; returns per-run (differs, maps, points, switches)"""
    ci, cfg, ser_sig, runs = job
    res = []
    for run in runs:
        try:
            sig, maps, points, switches, thr = run_mode(_RIG, cfg, run)
            res.append((sig != ser_sig, maps, points, switches, thr, None))
        except BaseException as e:  # a pooled run must not raise when the serial one did not
            res.append((True, 1, 0, 0, 0, repr(e)[:300]))
    return ci, res


def footprint(rig, cfg, j, rng, init):
    """task j alone on two different garbage fills -> (ok, touched cells [(rid, flat)], values, note)"""
    fills, finals, logs = [], [], []
    gA = [cl.garbage_like(r, rng) for r in init]
    gB = [cl.garbage_like(r, rng, other=g) for r, g in zip(init, gA)]
    for g in (gA, gB):
        cube, funcs = rig.cube(cfg), rig.funcs(cfg)
        log = cl.WriteLog(rig.ctl)
        probe = cl.Probe(funcs, garbage=g, log=log)
        with probe:
            try:
                rig.calculate(cube, funcs, "order", only=j)
            except Exception:
                # reduce of garbage may fail; the regions were recorded before reduce ran
                if len(probe.final) != len(init):
                    raise
        if rig.ctl.maps != 1:
            return False, [], [], "pool did not engage"
        fills.append(g)
        finals.append(probe.final)
        logs.append(log.events)
    touched = []
    for g, fin, ev in zip(fills, finals, logs):
        t = {}
        for e in ev:                       # logged item assignments, in order (last write wins the position)
            for flat in e[2]:
                t.pop((e[1], flat), None)
                t[(e[1], flat)] = True
        for rid, (a, b) in enumerate(zip(g, fin)):
            ba, bb = cl.bits(a), cl.bits(b)
            for flat, (x, y) in enumerate(zip(ba, bb)):
                if x != y and (rid, flat) not in t:
                    t[(rid, flat)] = True      # changed without an item assignment (out=, copyto, ...)
        touched.append(t)
    cells = list(touched[0].keys())
    valsA = [cl.bits(finals[0][rid])[flat] for rid, flat in cells]
    ok, note = True, ""
    if set(touched[0]) != set(touched[1]):
        ok, note = False, "cells touched depend on the previous content of the regions"
    else:
        valsB = [cl.bits(finals[1][rid])[flat] for rid, flat in cells]
        if valsA != valsB:
            ok, note = False, "values written depend on the previous content of the regions"
    return ok, cells, valsA, note


def observe(rig, cfg, rng, ci, poolsize):
    """everything the Coq case of one configuration needs; returns dict or None (rejected input)"""
    cube, funcs = rig.cube(cfg), rig.funcs(cfg)
    try:
        ser_plain = cl.out_sig(rig.calculate(cube, funcs, "serial"))
    except Exception as e:
        return {"rejected": repr(e)[:200]}
    cube, funcs = rig.cube(cfg), rig.funcs(cfg)
    probe = cl.Probe(funcs)
    with probe:
        ser = cl.out_sig(rig.calculate(cube, funcs, "serial"))
    if ser != ser_plain:
        raise core.CheckError("recording the regions changes the serial result (harness defect)")
    init, fin_s = probe.init, probe.final
    coords = rig.product_coords(cube, cfg)
    shape = [int(e) for e in cube.scaffold_shape]
    k = len(coords)
    # (i) footprints
    tasks, flag, notes = [], True, []
    for j in range(k):
        ok, cells, vals, note = footprint(rig, cfg, j, rng, init)
        if not ok:
            flag = False
            notes.append("task %d: %s" % (j, note))
        tasks.append((cells, vals))
    # (ii) one logged run under the deterministic scheduler
    cube, funcs = rig.cube(cfg), rig.funcs(cfg)
    log = cl.WriteLog(rig.ctl)
    probe = cl.Probe(funcs, log=log)
    seed = rng.randrange(1 << 30)
    logged_run = {"mode": "det", "poolsize": poolsize, "seed": seed, "p_switch": 1.0, "granularity": "opcode"}
    try:
        with probe:
            det = cl.out_sig(rig.calculate(cube, funcs, "det", poolsize=poolsize, seed=seed, p_switch=1.0, granularity="opcode"))
    except Exception as e:
        # the serial evaluation of this very configuration returned: a pooled evaluation that raises is a violation of C16
        # with this schedule as the witness (seen with a scratch buffer shared by the tasks: shape mismatch inside bincount)
        return {"pooled_raised": "%s: %s" % (type(e).__name__, str(e)[:200]), "logged_run": logged_run, "ser": ser}
    stats = {"maps": rig.ctl.maps, "points": rig.ctl.points, "switches": rig.ctl.switches, "threads": rig.ctl.threads_used}
    fin_p = probe.final
    # observed schedule: the task number at each FINAL write of a cell by that task
    last = {}
    for n, (t, rid, flats) in enumerate(log.events):
        for flat in flats:
            last[(t, rid, flat)] = n
    schedule = []
    foot = [set(c) for c, _ in tasks]
    for n, (t, rid, flats) in enumerate(log.events):
        for flat in flats:
            if t is None or not (0 <= t < k) or (rid, flat) not in foot[t]:
                flag = False
                notes.append("pooled run: task %s assigned region %d cell %d outside its alone-run footprint" % (t, rid, flat))
            elif last[(t, rid, flat)] == n:
                schedule.append(t)
    interleaved = any(a != b for a, b in zip(schedule, sorted(schedule)))
    return {"ser": ser, "det": det, "init": init, "fin_s": fin_s, "fin_p": fin_p, "coords": coords, "shape": shape,
            "tasks": tasks, "flag": flag, "notes": notes[:5], "schedule": schedule, "stats": stats,
            "logged_run": logged_run, "interleaved": interleaved}


def case_lit(ob):
    init = ob["init"]
    unravel = [list(numpy.ndindex(*r.shape)) for r in init]

    def w(rid, flat, val):
        return "(%d, %s, %s)" % (rid, core.zlist(int(i) for i in unravel[rid][flat]), core.zlit(val))
    tl = []
    for cells, vals in ob["tasks"]:
        tl.append("[" + "; ".join(w(rid, flat, v) for (rid, flat), v in zip(cells, vals)) + "]")
    il = []
    for rid, r in enumerate(init):
        for flat, v in enumerate(cl.bits(r)):
            il.append(w(rid, flat, v))
    return "(%s, [%s], [%s], [%s], (%s, %s), %s, %s)" % (
        core.zlist(ob["shape"]), "; ".join(core.zlist(c) for c in ob["coords"]), "; ".join(tl), "; ".join(il),
        core.zlist(cl.all_bits(ob["fin_s"])), core.zlist(cl.all_bits(ob["fin_p"])) if len(ob["fin_p"]) == len(init) else "[]",
        core.zlist(ob["schedule"]), core.boollit(ob["flag"]))


def search_failing(rig, cfg, ser, rng, seconds, k):
    """a pooled run whose output differs from the serial one: whole-task orders, then seeded schedules"""
    t0 = time.time()
    tried = 0
    orders = [list(reversed(range(k)))] + [rng.sample(range(k), k) for _ in range(30)]
    for o in orders:
        run = {"mode": "order", "order": o}
        tried += 1
        try:
            if run_mode(rig, cfg, run)[0] != ser:
                return run, tried
        except Exception as e:
            run["error"] = repr(e)[:200]
            return run, tried
    while time.time() - t0 < seconds:
        run = {"mode": "det", "poolsize": rng.randint(1, 16), "seed": rng.randrange(1 << 30),
               "p_switch": rng.choice([1.0, 0.3, 0.05]), "granularity": "opcode"}
        tried += 1
        try:
            if run_mode(rig, cfg, run)[0] != ser:
                return run, tried
        except Exception as e:
            run["error"] = repr(e)[:200]
            return run, tried
    return None, tried



# ----------------------------------------------------------------------------------------------- kept cubes
SIG_KEPT = "c16:kept-cube-pooled-differs-from-serial"


def _dense_of(cfg):
    return [numpy.asarray(sp["arr"], dtype=numpy.int64).reshape([cfg["N"]] + list(sh)) for sp, sh in zip(cfg["dims"], cfg["shapes"])]


def _cfg_with_dense(cfg, dense):
    """the configuration whose dims are built from scratch (constructor, canonical entry order) from `dense`"""
    dims = [{"arr": a.tolist(), "common": sp["common"], "how": "ctor", "order": None} for a, sp in zip(dense, cfg["dims"])]
    return dict(cfg, dims=dims)


def gen_change(rng, cfg, dense):
    """a legitimate in-place change of one dimension of a live cube, as a JSON-able descriptor.  Index cube:
    move-some (iindex.update moving a strict subset of a category's rows of one column to another EXISTING non-common
    category: entry count preserved), move-common (to the common value: count preserved), move-all / move-new (entry
    deleted / created: count changes), swap (dim[k1], dim[k2] exchanged by item assignment: count preserved).  Array
    cube: cells of the dim array overwritten in place."""
    ext = cfg["ishape"][0]
    order = list(range(len(dense)))
    rng.shuffle(order)
    order.sort(key=lambda i: dense[i].ndim == 1)        # prefer multi-axis dims (their 1-D slices are separate objects)
    kinds = ["move-some", "move-some", "swap", "move-common", "move-all", "move-new"]
    rng.shuffle(kinds)
    for di in order:
        a, common = dense[di], cfg["dims"][di]["common"]
        his = list(numpy.ndindex(*a.shape[1:]))
        rng.shuffle(his)
        for hi in his:
            col = a[(slice(None),) + hi]
            groups = {int(v): numpy.nonzero(col == v)[0].tolist() for v in set(col.tolist())}
            stored = [v for v in groups if v != common]
            for kind in kinds:
                if cfg["kind"] == "xcube":
                    rows = sorted(rng.sample(range(len(col)), rng.randint(1, max(1, len(col) // 3))))
                    return {"dim": di, "op": "set", "hi": list(hi), "rows": rows, "dst": rng.randrange(ext), "class": "array-cells"}
                big = [v for v in stored if len(groups[v]) >= 2]
                if kind == "move-some" and big and len(stored) >= 2:
                    src = rng.choice(big)
                    dst = rng.choice([v for v in stored if v != src])
                    rows = sorted(rng.sample(groups[src], rng.randint(1, len(groups[src]) - 1)))
                    return {"dim": di, "op": "update", "hi": list(hi), "rows": rows, "dst": dst, "class": "move-some(count kept)"}
                if kind == "move-common" and big:
                    src = rng.choice(big)
                    rows = sorted(rng.sample(groups[src], rng.randint(1, len(groups[src]) - 1)))
                    return {"dim": di, "op": "update", "hi": list(hi), "rows": rows, "dst": common, "class": "move-to-common(count kept)"}
                if kind == "swap" and len(stored) >= 2:
                    x, y = rng.sample(stored, 2)
                    return {"dim": di, "op": "swap", "hi": list(hi), "a": x, "b": y, "class": "swap-items(count kept)"}
                if kind == "move-all" and len(stored) >= 2:
                    src = rng.choice(stored)
                    dst = rng.choice([v for v in stored if v != src])
                    return {"dim": di, "op": "update", "hi": list(hi), "rows": groups[src], "dst": dst, "class": "move-all(entry deleted)"}
                absent = [v for v in range(ext) if v not in groups and v != common]
                if kind == "move-new" and absent and stored:
                    src = rng.choice(stored)
                    rows = sorted(rng.sample(groups[src], rng.randint(1, len(groups[src]))))
                    return {"dim": di, "op": "update", "hi": list(hi), "rows": rows, "dst": rng.choice(absent), "class": "move-to-new(entry created)"}
    return None


def apply_change(cube, cfg, dense, ch):
    """apply the descriptor to the LIVE cube's dimension object (in place) and to the dense bookkeeping arrays"""
    di, hi = ch["dim"], tuple(ch["hi"])
    dim = cube.dims[di]
    a = dense[di]
    if ch["op"] == "set":
        dim[(ch["rows"],) + hi] = ch["dst"]
        a[(ch["rows"],) + hi] = ch["dst"]
    elif ch["op"] == "update":
        dim.update({(ch["dst"],) + hi: numpy.array(ch["rows"], dtype=dim.rowid_dtype)})
        a[(ch["rows"],) + hi] = ch["dst"]
    else:
        k1, k2 = (ch["a"],) + hi, (ch["b"],) + hi
        r1, r2 = dim[k1], dim[k2]
        dim[k1] = r2
        dim[k2] = r1
        col = a[(slice(None),) + hi]
        m1, m2 = col == ch["a"], col == ch["b"]
        col[m1] = ch["b"]
        col[m2] = ch["a"]


def kept_eval(rig, cube, cfg, run):
    old = sys.getswitchinterval()
    try:
        if run["mode"] == "real":
            sys.setswitchinterval(1e-6)
        out = rig.calculate(cube, rig.funcs(cfg), run["mode"], poolsize=run.get("poolsize", 4), seed=run.get("seed", 0),
                            p_switch=run.get("p_switch", 1.0), granularity="opcode", order=run.get("order"))
        return cl.out_sig(out)
    except Exception as e:
        return "raised %s: %s" % (type(e).__name__, str(e)[:200])
    finally:
        sys.setswitchinterval(old)


def kept_history(rig, cfg, steps):
    """Replays a history on ONE long-lived cube object.  steps: list of {"change": descriptor | None, "runs": [run, ...]}.
    After each change the same object is evaluated in the listed modes; every pooled result is compared with the serial
    result of the same object in the same state (the property), the serial one with a freshly built cube on the current
    dims (bookkeeping).  -> (first failure | None, counters)"""
    cube = rig.cube(cfg)
    dense = _dense_of(cfg)
    if cfg["kind"] == "xcube":
        dense = cube.dims            # the array cube holds the caller's arrays: they ARE the live dims
    cnt = {"evaluations": 0, "pooled": 0, "serial_equals_fresh": 0, "serial_differs_from_fresh": 0}
    for si, st in enumerate(steps):
        if st["change"] is not None:
            apply_change(cube, cfg, dense, st["change"])
        fresh_cfg = _cfg_with_dense(cfg, [numpy.array(a) for a in dense])
        fresh = kept_eval(rig, rig.cube(fresh_cfg), fresh_cfg, {"mode": "serial"})
        results = []
        for run in st["runs"]:
            results.append((run, kept_eval(rig, cube, cfg, run)))
            cnt["evaluations"] += 1
        serial = [sig for run, sig in results if run["mode"] == "serial"]
        ref = serial[0] if serial else fresh
        cnt["serial_equals_fresh" if ref == fresh else "serial_differs_from_fresh"] += 1
        for run, sig in results:
            if run["mode"] != "serial":
                cnt["pooled"] += 1
                if sig != ref:
                    what = ("pooled evaluation of a long-lived cube %s after step %d (%s); the serial evaluation of the SAME object "
                            "in the same state %s" % ("raised: " + sig if isinstance(sig, str) else "differs from the serial one", si,
                                                      st["change"]["class"] if st["change"] else "no change",
                                                      "agrees with a freshly built cube" if ref == fresh else "returns something else"))
                    return {"step": si, "run": run, "what": what}, cnt
    return None, cnt


def kept_stream(rig, rng, n_scen, rounds):
    """'kept cube' relations: scenarios x rounds of in-place changes on one cube object"""
    total = {"scenarios": 0, "steps": 0, "evaluations": 0, "pooled": 0, "serial_equals_fresh": 0, "serial_differs_from_fresh": 0,
             "changes": {}, "kinds": {}}
    failures = []
    for sc in range(n_scen):
        kind = ["ccube", "xcube", "ccube"][sc % 3]
        cfg = None
        for _ in range(20):
            # at least one multi-axis dimension; enough rows for categories with several rows
            c = cl.gen_cfg(rng, kind, rng.choice([3, 4, 6, 8]), aggs=rng.choice(["one", "some"]), max_cells=1500, rows=(12, 24),
                           extent=rng.choice([3, 4]))
            if not isinstance(kept_eval(rig, rig.cube(c), c, {"mode": "serial"}), str):
                cfg = c
                break
        if cfg is None:
            continue
        dense = _dense_of(cfg)
        steps = []
        for r in range(rounds + 1):
            ch = gen_change(rng, cfg, dense) if r > 0 else None
            if r > 0 and ch is None:
                break
            if ch is not None:
                # keep the bookkeeping arrays in step so that the next change is generated from the current state
                _apply_dense_only(dense, ch)
                total["changes"][ch["class"]] = total["changes"].get(ch["class"], 0) + 1
            def prun():
                return {"mode": "det", "poolsize": rng.randint(1, 16), "seed": rng.randrange(1 << 30), "p_switch": rng.choice([0.05, 0.3, 1.0])}
            runs = [prun(), {"mode": "serial"}, {"mode": "real", "poolsize": rng.randint(1, 8)}, prun()]
            if r % 2:
                runs.insert(0, {"mode": "serial"})        # sometimes the serial evaluation comes first
            steps.append({"change": ch, "runs": runs})
        fail, cnt = kept_history(rig, cfg, steps)
        total["scenarios"] += 1
        total["steps"] += len(steps)
        total["kinds"][kind] = total["kinds"].get(kind, 0) + 1
        for k_ in ("evaluations", "pooled", "serial_equals_fresh", "serial_differs_from_fresh"):
            total[k_] += cnt[k_]
        if fail is not None:
            failures.append((cfg, steps[:fail["step"] + 1], fail))
    return failures, total


def _apply_dense_only(dense, ch):
    hi = tuple(ch["hi"])
    a = dense[ch["dim"]]
    if ch["op"] in ("set", "update"):
        a[(ch["rows"],) + hi] = ch["dst"]
    else:
        col = a[(slice(None),) + hi]
        m1, m2 = col == ch["a"], col == ch["b"]
        col[m1] = ch["b"]
        col[m2] = ch["a"]


# ----------------------------------------------------------------------------------------------- the check
def run(ctx):
    global _RIG
    thorough = ctx.tier == "thorough"
    rig = _RIG = cl.Rig(ctx)
    rng = ctx.rng
    n_cfg = 200 if thorough else 54
    n_sched = 60 if thorough else 18         # plain scheduled runs per configuration (forked workers)
    n_real = 20 if thorough else 4
    n_wide = 16 if thorough else 6           # 'scale' configurations: wide dims (>= 17 distinct 1-D slices per calculate)
    n_sched_wide = 200 if thorough else 72   # scheduled runs per wide configuration
    ctx.rule = ("'scale' cubes of both types (one 2-D dimension with 17..24 columns, or 16..20 columns crossed with a 1-D dimension; "
                "40..60 rows; >= 72 seeded schedules each, pool sizes 2..16) and cubes of both types with 3..12 sub-cubes (1-3 dimensions, each with 0-2 extra axes, extents incl. 1; N 1..8; "
                "extents 2-3; commons frequent/rare; facts with NaN, 1 or 2 columns; weights with NaN) x aggregates {count, valid_count, "
                "sum, mean} (+ {stddev, quantile, min, max, covariance, corrcoef} for the array cube) singly, 2-4 together and all "
                "together, both missing policies, three report formats; per configuration: every task alone on two garbage fills, one "
                "logged + N plain runs under the seeded bytecode-level scheduler (pool sizes 1..16, p_switch 1/0.3/0.05), whole-task "
                "permutations, real ThreadPool under switch interval 1e-6; 'kept cube' stream: one long-lived cube object (12..24 rows) evaluated "
                "pooled (seeded scheduler, real pool) and serially before and after 4 rounds of legitimate in-place changes of its dims (iindex.update "
                "moving some / all rows to an existing / new / the common category, item swap; array cells), pooled vs serial of the same object "
                "and vs a freshly built cube.  A configuration is distinct by its content hash and "
                "non-trivial when its logged scheduled run really interleaved the writes of different tasks")
    ctx.trusted = list(core.STD_TRUSTED) + [
        "NOT proved, validated at run time on every configuration: a real sub-cube task only writes cells of its own block and never "
        "reads the shared regions (alone-on-garbage runs, item-assignment log)",
        "assumed: one NumPy item / slice assignment is atomic under the GIL (the scheduler never preempts C code)",
        "modelled, not verified: multiprocessing.pool.ThreadPool (harness/sched.py DetPool reproduces its batching; the real pool is run as well)",
        "harness/sched.py (deterministic scheduler via sys.settrace opcode events) and harness/conc_lib.py (region recording, LogArray)"]
    pr = ctx.prove("C16.v")
    ctx.assumptions = ["Print Assumptions: " + a for a in pr["assumptions"]] + [
        "run-time validated, not proved: footprint of the real tasks (write-only, inside the block of their coordinates)",
        "assumed: GIL atomicity of one NumPy assignment; the worker pool itself"]
    ctx.coverage["print_assumptions"] = pr["assumptions"]

    t_start = time.time()
    obs, cfgs, lits, meta = [], [], [], []
    rejected = 0
    dist = {"kind": {}, "subcubes": {}, "aggregates": {}, "together": {}, "layout_axes": {}}
    pool_sizes = set()
    oracle_hits = []        # (cfg index, run, what)
    raised_cfgs = []        # configurations whose logged scheduled run raised although the serial run returned
    # the plan: n_cfg regular configurations (3..12 sub-cubes) followed by n_wide 'scale' configurations (17..24
    # columns in one 2-D dimension, or 16..20 columns crossed with a 1-D dimension; 40..60 rows; both cube types)
    plan = []
    for i in range(n_cfg):
        plan.append(("regular", ["ccube", "xcube"][i % 2], 3 + (i // 2) % 10, ["one", "one", "some", "all", "one", "some"][i % 6]))
    for i in range(n_wide):
        plan.append(("wide", ["xcube", "ccube"][i % 2], ["wide", "crossed"][(i // 2) % 2], ["one", "some"][(i // 4) % 2]))
    wide_idx = set()
    ci = 0
    attempts = 0
    while ci < len(plan) and attempts < len(plan) * 4:
        attempts += 1
        what, kind, arg, mode = plan[ci]
        if what == "regular":
            nsub = arg
            cfg = cl.gen_cfg(rng, kind, nsub, aggs=mode, max_cells=700)
        else:
            cfg = cl.gen_wide_cfg(rng, kind, arg, aggs=mode)
            nsub = cl.nsub_of(cfg)
        ps = 1 + (ci * 5) % 16 if what == "regular" else 2 + (ci * 5) % 15
        ob = observe(rig, cfg, rng, ci, ps)
        if "rejected" in ob:
            rejected += 1
            continue
        if "pooled_raised" in ob:
            raised_cfgs.append((cfg, ob))
            ctx.evaluations += 1
            ci += 1
            continue
        pool_sizes.add(ps)
        if what == "wide":
            wide_idx.add(len(cfgs))
        obs.append(ob)
        cfgs.append(cfg)
        lits.append(case_lit(ob))
        meta.append({"case": ci, "kind": kind, "subcubes": nsub, "shapes": cfg["shapes"], "aggregates": [a["name"] for a in cfg["aggs"]]})
        for key, val in (("kind", kind), ("subcubes", nsub if what == "regular" else "wide:%d" % nsub), ("together", len(cfg["aggs"]))):
            dist[key][val] = dist[key].get(val, 0) + 1
        for a in cfg["aggs"]:
            dist["aggregates"][a["name"]] = dist["aggregates"].get(a["name"], 0) + 1
        for s in cfg["shapes"]:
            dist["layout_axes"][len(s) + 1] = dist["layout_axes"].get(len(s) + 1, 0) + 1
        if ob["stats"]["maps"] != 1:
            oracle_hits.append((ci, ob["logged_run"], "pool did not engage (pool.map calls: %d)" % ob["stats"]["maps"], "c16:pool-not-engaged"))
        elif ob["det"] != ob["ser"]:
            oracle_hits.append((ci, ob["logged_run"], "output of the scheduled run differs from the serial output", SIG_DIFF))
        if ob["interleaved"]:
            ctx.nontrivial.add(hash(json.dumps(cfg, sort_keys=True)))
        if ci < 3 or (what == "wide" and len(wide_idx) == 1):
            ctx.samples.append({"cfg": cfg, "coords": ob["coords"], "logged_run": ob["logged_run"], "scheduler": ob["stats"],
                                "observed_write_schedule": ob["schedule"][:60]})
        ctx.evaluations += 1
        ci += 1
    t_obs = time.time() - t_start

    # plain scheduled runs in forked workers + whole-task permutations + real pool
    jobs = []
    nrun = 0
    for ci, (cfg, ob) in enumerate(zip(cfgs, obs)):
        k = len(ob["coords"])
        runs = []
        wide = ci in wide_idx
        for s in range(n_sched_wide if wide else n_sched):
            # wide cubes: at least 2 workers, mostly long runs between switches (cheap, and what a check-then-act
            # window between two statements of one task needs: the OTHER workers must get through whole tasks meanwhile)
            ps = 2 + (nrun * 7 + ci) % 15 if wide else 1 + (nrun * 7 + ci) % 16
            pool_sizes.add(ps)
            runs.append({"mode": "det", "poolsize": ps, "seed": rng.randrange(1 << 30),
                         "p_switch": [0.05, 0.3, 0.1, 1.0, 0.05, 0.02][s % 6] if wide else [1.0, 0.3, 1.0, 0.05][s % 4],
                         "granularity": "opcode"})
            nrun += 1
        runs.append({"mode": "order", "order": list(reversed(range(k)))})
        runs.append({"mode": "order", "order": rng.sample(range(k), k)})
        for s in range(n_real):
            runs.append({"mode": "real", "poolsize": 1 + (ci + 3 * s) % 16})
        jobs.append((ci, cfg, ob["ser"], runs))
    t1 = time.time()
    counts = {"det": 0, "order": 0, "real": 0}
    points = sum(ob["stats"]["points"] for ob in obs)
    switches = sum(ob["stats"]["switches"] for ob in obs)
    with multiprocessing.get_context("fork").Pool(4) as mp:
        for ci, res in mp.imap_unordered(_worker, jobs):
            for run, (differs, maps, pts, sw, thr, err) in zip(jobs[ci][3], res):
                counts[run["mode"]] += 1
                points += pts
                switches += sw
                ctx.evaluations += 1
                if err is not None:
                    oracle_hits.append((ci, run, "pooled run raised " + err, SIG_DIFF))
                elif maps != 1:
                    oracle_hits.append((ci, run, "pool did not engage (pool.map calls: %d)" % maps, "c16:pool-not-engaged"))
                elif differs:
                    oracle_hits.append((ci, run, "output differs bit-wise from the serial output", SIG_DIFF))
    t_sched = time.time() - t1

    # 'kept cube' relations stream: one long-lived cube object, pooled and serial evaluations before / after in-place changes
    t2 = time.time()
    kept_fail, kept_total = kept_stream(rig, rng, 45 if thorough else 15, 4)
    kept_total["wall_s"] = round(time.time() - t2, 1)
    ctx.evaluations += kept_total["evaluations"]

    res = core.run_cases("c16", "From Catii Require Import Conc.Interleave Conc.Check.", lits, "c16case", "c16_check", "c16_explain",
                         shard_size=max(1, (len(lits) + 15) // 16), timeout=900)
    ctx.coverage.update({
        "distribution": {k: {str(a): b for a, b in sorted(v.items(), key=lambda t: (isinstance(t[0], str), t[0]))} for k, v in dist.items()},
        "rejected_inputs": rejected,
        "configurations": len(cfgs),
        "wide_configurations": {"count": len(wide_idx), "columns": "17..24 in one 2-D dim, or 16..20 crossed with a 1-D dim", "rows": "40..60",
                                "scheduled_runs_each": n_sched_wide, "pool_sizes": "2..16", "p_switch": [0.05, 0.3, 0.1, 1.0, 0.05, 0.02]},
        "pool_sizes": sorted(pool_sizes),
        "granularity": "opcode (every bytecode executed in a catii frame is a scheduling point); whole-task for the permutation runs",
        "schedules": {"deterministic_scheduler": counts["det"] + len(cfgs), "whole_task_permutations": counts["order"],
                      "real_threadpool_switchinterval_1e-6": counts["real"]},
        "scheduling_points": points, "baton_switches": switches,
        "tasks_run_alone_on_garbage": sum(len(ob["coords"]) for ob in obs) * 2,
        "configurations_with_interleaved_writes_in_logged_run": sum(1 for ob in obs if ob["interleaved"]),
        "coq_cases": res.total, "traces_validated_against_impl": res.total,
        "kept_cube_stream": kept_total,
        "exhaustive": False,
        "timing_s": {"observe": round(t_obs, 1), "schedules": round(t_sched, 1)},
        "tie": "W2 footprint (alone-on-garbage + assignment log, footprints_ok_b inside Coq) + seeded bytecode scheduler; oracle = bitwise equality with the serial run",
    })

    if kept_fail:
        cfg, steps, fail = min(kept_fail, key=lambda t: (len(t[1]), cl.estimate_cells(t[0])))
        ctx.report(SIG_KEPT, fail["what"] + " (%s, %s)" % (cfg["kind"], [a["name"] for a in cfg["aggs"]]),
                   {"cfg": cfg, "history": steps, "failing_step": fail["step"], "failing_run": fail["run"], "failing_scenarios": len(kept_fail),
                    "oracle": "same cube object, same state: pooled calculate output vs serial calculate output, bit for bit"})
        return
    if raised_cfgs:
        cfg, ob = min(raised_cfgs, key=lambda t: cl.estimate_cells(t[0]))
        ctx.report(SIG_DIFF, "pooled evaluation raised %s although the serial evaluation of the same cube returned (%s, %s)"
                   % (ob["pooled_raised"], cfg["kind"], [a["name"] for a in cfg["aggs"]]),
                   {"cfg": cfg, "run": ob["logged_run"], "failing_runs": len(raised_cfgs),
                    "oracle": "serial cube.calculate returns; the pooled run under the recorded seeded schedule raises"})
        return
    if oracle_hits:
        by_sig = {}
        for ci, run, what, sig in oracle_hits:
            by_sig.setdefault(sig, []).append((ci, run, what))
        for sig, hits in by_sig.items():
            ci, run, what = min(hits, key=lambda h: (cl.estimate_cells(cfgs[h[0]]), h[0]))
            ctx.report(sig, "%s (%s, %d sub-cubes, %s)" % (what, cfgs[ci]["kind"], len(obs[ci]["coords"]), [a["name"] for a in cfgs[ci]["aggs"]]),
                       {"cfg": cfgs[ci], "run": run, "failing_runs": len(hits), "notes": obs[ci]["notes"],
                        "oracle": "bitwise comparison of cube.calculate output, pooled vs serial"})
        return
    if pr["ok"] and not res.failing and not res.errors:
        return
    # model / proof disagreement without an oracle hit so far: look for a concrete failing input
    what = []
    if not pr["ok"]:
        what.append("Properties/C16.v no longer compiles: " + pr["log"][-600:])
    if res.errors:
        what.append("correspondence shards failed to evaluate: " + str(res.errors[0][1])[-500:])
    tried = 0
    for ci in res.failing[:6]:
        run, n = search_failing(rig, cfgs[ci], obs[ci]["ser"], rng, 8 if not thorough else 30, len(obs[ci]["coords"]))
        tried += n
        if run is not None:
            ctx.report(SIG_DIFF, "footprint / model disagreement with a schedule on which the pooled output differs from the serial one "
                       "(%s, %s)" % (cfgs[ci]["kind"], [a["name"] for a in cfgs[ci]["aggs"]]),
                       {"cfg": cfgs[ci], "run": run, "notes": obs[ci]["notes"], "coq_explain": res.explain[-1500:]})
            return
    if res.failing:
        ci = res.failing[0]
        what.append("%d correspondence cases fail c16_check (first: %s; %s); c16_explain = (coords_ok, tasks inside their blocks, "
                    "model serial = observed, model observed-schedule = observed, pooled = serial, footprint flag): %s"
                    % (len(res.failing), meta[ci], obs[ci]["notes"], res.explain[-800:]))
    sig = "c16:footprint-not-shown" if res.failing else "c16:not-shown"
    ctx.report(sig, "; ".join(what), {"disagreeing": res.failing[:10], "cfg": cfgs[res.failing[0]] if res.failing else None,
               "search": "%d further pooled runs (whole-task orders, seeded schedules) all equal to the serial output" % tried}, found_input=False)


def replay(ctx, path):
    r = json.load(open(path))
    rig = cl.Rig(ctx)
    ctx.level = "exploration"
    ctx.rule = "replay of a recorded configuration and schedule: pooled output vs serial output, bit for bit"
    if "history" in r:
        ctx.rule = "replay of a recorded history on one long-lived cube object: pooled vs serial evaluation of the same object"
        ctx.nontrivial.add(1)
        for attempt in range(20):          # histories contain real-pool runs; scheduled runs are deterministic
            fail, cnt = kept_history(rig, r["cfg"], r["history"])
            ctx.evaluations += cnt["evaluations"]
            if fail:
                break
        print("replay:", fail["what"] if fail else "pooled = serial at every step")
        ctx.samples.append({"cfg": r["cfg"], "steps": len(r["history"])})
        if fail:
            ctx.report(r.get("signature", SIG_KEPT), fail["what"], {"cfg": r["cfg"], "history": r["history"], "failing_step": fail["step"], "failing_run": fail["run"]})
        return
    cfg, run = r["cfg"], r.get("run") or {"mode": "order", "order": None}
    ser = cl.out_sig(rig.calculate(rig.cube(cfg), rig.funcs(cfg), "serial"))
    ctx.evaluations += 1
    ctx.nontrivial.add(1)
    bad, what = False, ""
    # a scheduled run is a function of (cfg, pool size, seed, p_switch); the real pool is not: try it repeatedly
    for attempt in range(300 if run.get("mode") == "real" else 1):
        try:
            sig = run_mode(rig, cfg, run)[0]
            bad = sig != ser
            what = "pooled output still differs from the serial output"
        except Exception as e:
            bad, what = True, "pooled run raises %r" % (e,)
        ctx.evaluations += 1
        if bad:
            break
    print("replay:", "DIFFERS" if bad else "equal", run)
    ctx.samples.append({"cfg": cfg, "run": run})
    if bad:
        ctx.report(r.get("signature", SIG_DIFF), what, {"cfg": cfg, "run": run})
