"""C11 - INDX files are byte-for-byte the documented layout; independently written files load.

Proof : Properties/C11.v (save_is_layout, save_w_is_layout, narrowest, size_field, load_any_width,
        load_any_width_dims) over the models Indx/Save.v, Indx/Load.v and the specification Indx/Layout.v.
Tie W2, all compared INSIDE Coq (Indx/Check.v):
  (a) bytes written by the real save = `layout (narrowest ...) 4` = model `save`; the specification's decoder
      recovers the data from them (chk_c11_bytes);
  (b) the real load on files written by the harness's struct-based encoder for EVERY admissible (iw, rw) in
      {1,2,4,8}^2 - word sizes save never picks, any recorded dimension count for an empty index, and totals
      beyond the row-id word's own range (>255 row ids with 1-byte words, >65535 with 2-byte words) - against
      the model `load (layout_d d0 iw rw ...)` and the data (chk_c11_widths, chk_c11_runs); the file loaded is
      identified with the specification's bytes by a checksum computed on both sides;
  (c) totals crossing 2^30 and 2^32: duck-typed row-id arrays (`__len__`, `.dtype`, `tofile` = seek on a sparse
      real file) are saved for real; the 16 header bytes are compared with the model's (chk_c11_header).
Oracle: struct-based encoder/decoder written from the docstring (props/c10.py: enc, dec, oracle_size).
"""
import json
import os
import struct

from .. import core
from . import c10

BIG_TOTALS = [
    [2 ** 30 - 1], [2 ** 30], [2 ** 30 + 1], [2 ** 29, 2 ** 29], [2 ** 29, 2 ** 29 - 1], [1, 2 ** 30 - 1, 0],
    [2 ** 31], [2 ** 31, 2 ** 31], [2 ** 31, 2 ** 31 - 1], [2 ** 32 - 1], [2 ** 32 - 1, 1], [2 ** 32 - 1, 2 ** 32 - 1, 5],
    [2 ** 32 - 1] * 6, [10, 20], [0], [],
]


def admissible_widths(entries, common):
    iw0 = c10.narrowest(c10.max_word(entries, common))
    rmax = max([0] + [x for _, v in entries for x in v] + [len(v) for _, v in entries])
    rw0 = c10.narrowest(rmax)
    return [(iw, rw) for iw in (1, 2, 4, 8) if iw >= iw0 for rw in (1, 2, 4, 8) if rw >= rw0]


def oracle_loaded(entries, common, rw, o):
    if o[0] != "loaded":
        return "load raised %s" % o[2]
    if dict(o[1]) != dict((tuple(k), list(v)) for k, v in entries) or len(o[1]) != len(entries):
        return "loaded entries differ from the encoded ones"
    if o[2] != common:
        return "loaded common %r != encoded %r" % (o[2], common)
    if o[3] != rw:
        return "row-id dtype itemsize %r != row-id word size %r" % (o[3], rw)
    if not o[4]:
        return "loaded parts are not plain ints / uint32 arrays"
    return None


class FakeArr:
    """A HUGE row-id array that is never materialised: it has the metadata of a 1-D ndarray (len, dtype, nbytes, size, shape,
    ndim, itemsize) and tofile() = seek on a sparse real file.  Arrays of up to REAL_BELOW ids are real NumPy arrays."""
    REAL_BELOW = 4096

    def __init__(self, n, dtype):
        self.n = n
        self.dtype = dtype
        self.size = n
        self.shape = (n,)
        self.ndim = 1
        self.itemsize = dtype.itemsize
        self.nbytes = n * dtype.itemsize

    def __len__(self):
        return self.n

    def tofile(self, f):
        f.seek(self.n * self.dtype.itemsize, 1)   # sparse: nothing is written


def stub_array(impl, n):
    return impl.np.arange(n, dtype=impl.np.uint32) if n < FakeArr.REAL_BELOW else FakeArr(n, impl.u32)


def save_header(impl, keys, common, lens):
    """Real save with duck-typed arrays on a sparse real file -> (first 16 bytes, returned normally, note)."""
    entries = {tuple(k): stub_array(impl, n) for k, n in zip(keys, lens)}
    note = ""
    returned = True
    import warnings
    with warnings.catch_warnings():
        warnings.simplefilter("ignore")
        with open(impl.path, "wb") as f:
            try:
                impl.IndxIO.save(f, entries, common, impl.u32)
            except Exception as e:
                returned = False
                note = "%s: %s" % (type(e).__name__, e)
    with open(impl.path, "rb") as f:
        head = f.read(16)
    return head, returned, note


def lit_runs(rs):
    return "[" + "; ".join("(%s, %s, %s)" % (core.zlist(k), core.zlit(s), core.zlit(c)) for k, s, c in rs) + "]"


def runs_of_loaded(o):
    """Lossless compression of a load result whose arrays are runs of consecutive ids."""
    if o[0] != "loaded":
        return "(RaisedRuns %d)" % o[1]
    rs = []
    for k, v in o[1]:
        if v and v != list(range(v[0], v[0] + len(v))):
            return "LoadedOther"
        rs.append((k, v[0] if v else 0, len(v)))
    return "(LoadedRuns %s %s %s)" % (lit_runs(rs), core.zlit(o[2]), core.zlit(o[3]))


def big_run_cases(rng, tier):
    """Entries whose total row-id count exceeds the range of the row-id word (the F15 class)."""
    out = []
    # 1-byte row-id words: per-entry <= 255 ids with values <= 255, total > 255
    for _ in range(6 if tier == "quick" else 30):
        n = rng.randint(2, 5)
        rs = []
        for i in range(n):
            cnt = rng.choice([100, 128, 200, 255, rng.randint(60, 255)])
            start = rng.randint(0, 256 - cnt)
            rs.append(((i + 1, rng.randint(0, 3)), start, cnt))
        if sum(r[2] for r in rs) > 255:
            out.append((rs, rng.choice([0, 7, 255]), rng.choice([1, 2]), 1))
    # 2-byte row-id words: total > 65535
    for _ in range(2 if tier == "quick" else 6):
        n = rng.randint(2, 3)
        rs = []
        for i in range(n):
            cnt = rng.choice([33000, 40000, 65535])
            start = rng.randint(0, 65536 - cnt)
            rs.append(((i, ), start, cnt))
        common = rng.choice([0, 300])
        out.append((rs, common, rng.choice([w for w in (1, 2, 4, 8) if w >= c10.narrowest(common)]), 2))
    return out


# --------------------------------------------------------------------------
# (h) load/save HISTORY: every result must be independent of what was loaded or saved earlier in the process
# --------------------------------------------------------------------------

def _divisors(n, limit=8):
    return [b for b in range(1, min(n, limit) + 1) if n % b == 0]


def regroup_siblings(rng, entries, common, iw, rw, cap=4):
    """Valid files RELATED to (entries, common) at word sizes (iw, rw): the flattened index words regrouped with another arity
    (n*a = m*b), and the same index BYTES read at another word size (and any arity).  -> [(entries', common', iw', rw, relation)]"""
    flat = [c for k, _ in entries for c in k]
    a = len(entries[0][0]) if entries else 0
    out = []

    def rows():
        return c10.gen_rows(rng, small=True) if rw < 4 else c10.gen_rows(rng)
    for b in _divisors(len(flat)):
        if b == a:
            continue
        keys = [tuple(flat[i:i + b]) for i in range(0, len(flat), b)]
        if len(set(keys)) == len(keys):
            out.append(([(k, rows()) for k in keys], common, iw, rw, "same words, arity %d -> %d" % (a, b)))
    raw = b"".join(struct.pack(c10.FMT[iw], c) for c in flat)
    for iw2 in (1, 2, 4, 8):
        if iw2 == iw or not raw or len(raw) % iw2:
            continue
        words = list(struct.unpack("<%d%s" % (len(raw) // iw2, c10.FMT[iw2][1]), raw))
        if max(words) >= 2 ** 63:
            continue
        common2 = common if common < 256 ** iw2 else rng.randint(0, 255)
        for b in rng.sample(_divisors(len(words)), min(2, len(_divisors(len(words))))):
            keys = [tuple(words[i:i + b]) for i in range(0, len(words), b)]
            if len(set(keys)) == len(keys):
                out.append(([(k, rows()) for k in keys], common2, iw2, rw, "same index bytes, word %d -> %d, arity %d" % (iw, iw2, b)))
    rng.shuffle(out)
    return out[:cap]


SMALLEST_HISTORIES = [
    [((1,), [7, 9]), ((0,), [])], [((513,), [1]), ((2,), [0, 2])], [((0, 1), [0]), ((2, 3), [1]), ((4, 5), [2, 3])],
    [((1, 0, 2, 0), [5])], [((3,), [0]), ((0,), [1]), ((3, 0), [2])][:2], [((7, 7, 1), [0, 1]), ((7, 1, 7), [2])],
]


def history_stream(ctx, impl, n_bases):
    """Sequences of loads (and saves) in THIS process: a file, its siblings, again in the other order, repeated, interleaved with an
    unrelated file and with a save.  Returns (case literals for chk_c11_widths, records, failures, distribution)."""
    rng = ctx.rng
    lits, recs, bad = [], [], []
    dist = {"histories": 0, "loads": 0, "saves": 0, "sibling:regrouped-arity": 0, "sibling:other-word-size": 0, "repeated_loads": 0, "unrelated_interleaved": 0}
    bases = [(list(e), rng.choice([0, 3, 255])) for e in SMALLEST_HISTORIES]
    while len(bases) < n_bases:
        entries, common, _d = c10.gen_entries(rng, small_rows=True)
        if sum(len(k) for k, _ in entries) >= 2:
            bases.append((entries, common))

    trail = []

    def load_step(tag, hist_id, step, entries, common, iw, rw, relation):
        file = c10.enc(entries, common, iw, rw)
        o = impl.load(file)
        dist["loads"] += 1
        rec = {"entries": [[list(k), v] for k, v in entries], "common": common, "iw": iw, "rw": rw, "d0": 0, "history": hist_id, "step": step, "relation": relation}
        trail.append({"entries": rec["entries"], "common": common, "iw": iw, "rw": rw})
        why = oracle_loaded(entries, common, rw, o)
        if why:
            rec = dict(rec, loads_before_and_including_this_one=list(trail))
            bad.append(dict(rec, stream="h", what="load #%d of a history (%s; %s) of valid files in one process: %s" % (step, tag, relation, why), observed=repr(o)[:400]))
        lits.append("(%s, %s, [(0, %d, %d, %d, %s)])" % (c10.lit_entries(entries), core.zlit(common), iw, rw, c10.checksum(file), c10.lit_obs(o)))
        recs.append(rec)
        ctx.nontrivial.add(("h", hist_id, step, c10.case_key(entries, common), iw, rw))

    for hid, (entries, common) in enumerate(bases):
        iw = rng.choice([w for w in (1, 2, 4, 8) if w >= c10.narrowest(c10.max_word(entries, common))][:2])
        rmax = max([0] + [x for _, v in entries for x in v] + [len(v) for _, v in entries])
        rw = rng.choice([w for w in (1, 2, 4, 8) if w >= c10.narrowest(rmax)][:3])
        sibs = regroup_siblings(rng, entries, common, iw, rw)
        if not sibs:
            continue
        dist["histories"] += 1
        for s_ in sibs:
            dist["sibling:regrouped-arity" if s_[4].startswith("same words") else "sibling:other-word-size"] += 1
        base = (entries, common, iw, rw, "base file")
        unrelated, ucommon, _d = c10.gen_entries(rng, small_rows=True)
        seq = [base] + sibs                                             # base, then its siblings
        seq += [base]                                                   # base again (repeated load)
        seq += list(reversed(sibs)) + [sibs[0], base, sibs[0]]          # the other order, alternating
        dist["repeated_loads"] += 1 + len(sibs) + 3
        step = 0
        hist_rec = []
        del trail[:]
        for i, (e, c, w1, w2, rel) in enumerate(seq):
            step += 1
            load_step("after %s" % (hist_rec[-1] if hist_rec else "nothing"), hid, step, e, c, w1, w2, rel)
            hist_rec.append(rel)
            if i == len(sibs):                                          # in the middle: an unrelated load and a real save
                step += 1
                uiw = c10.narrowest(c10.max_word(unrelated, ucommon))
                load_step("unrelated file", hid, step, unrelated, ucommon, uiw, 4, "unrelated file")
                dist["unrelated_interleaved"] += 1
                try:
                    data = impl.save(e, c if c < 2 ** 63 else 0)
                    dist["saves"] += 1
                    want = c10.enc(e, c, c10.narrowest(c10.max_word(e, c)), 4)
                    if data != want and all(x < 2 ** 32 for _, v in e for x in v):
                        bad.append({"entries": [[list(k), v] for k, v in e], "common": c, "stream": "a", "form": impl.last_form,
                                    "what": "bytes written differ from the documented layout after a history of loads in the same process"})
                except Exception as ex:  # noqa
                    bad.append({"entries": [[list(k), v] for k, v in e], "common": c, "stream": "a", "form": impl.last_form,
                                "what": "save raised %s: %s after a history of loads" % (type(ex).__name__, ex)})
    return lits, recs, bad, dist


def run(ctx):
    ctx.rule = ("(h) HISTORIES in the process that runs the real loader: a valid file, sibling files with the same flattened index words regrouped at another "
                "arity (n*a = m*b) or the same index bytes at another word size, loaded one after another in both orders, repeated, interleaved with an unrelated "
                "file and a real save; every load compared with the data and with the model's load of the same bytes; "
                "(a) C10 generator (arity 1..4, 0..6 entries, coordinate x common magnitude classes, boundary row ids) and C10 'scale' generator (2..8 entries mixing "
                "short 0..10 and long 64..600 / 63,64,65 / 255,256,257 / ~70 000-id strictly increasing row-id arrays in every dict order; the ~70 000-id dicts are "
                "judged by the struct oracle only): real save bytes; "
                "(b) the same dicts re-encoded by a struct-based encoder at every admissible (iw, rw) in {1,2,4,8}^2 (plus arbitrary recorded "
                "dimension counts for empty indexes) and run-structured dicts with >255 / >65535 row ids in total at 1- / 2-byte row-id words: real load; "
                "(c) duck-typed arrays with totals around 2^30 and 2^32: real save header; distinct per (entries, common, iw, rw, d0)")
    ctx.trusted = list(core.STD_TRUSTED) + c10.TRUSTED + [
        "(c) relies on save touching the HUGE row-id arrays (>= 4096 ids; smaller ones are real arrays) only through ndarray metadata (len, dtype, nbytes, size, shape, ndim, itemsize) and tofile(); the sparse-file stub stands for real uint32 arrays; if the code does otherwise the check says the size field is no longer observed"]
    pr, proof_ok = c10.prove(ctx, "C11.v")
    c10.build_check(ctx)
    impl = c10.Impl(ctx)
    quick = ctx.tier == "quick"
    n_gen = 600 if quick else 6000
    bad = []

    # ---------------- (a) + (b) ----------------
    lits_a, recs_a, lits_b, recs_b = [], [], [], []
    n_width_files = 0
    width_hist = {}
    n_scale_files = [0, 0]    # saved for real, independent files loaded

    def one_dict(entries, common, lits_a, recs_a, lits_b, recs_b, max_pairs=None, in_coq=True, stream_tag=""):
        nonlocal n_width_files
        big = sum(len(v) for _, v in entries) > 2000
        rec = {"entries": [[list(k), v] for k, v in entries], "common": common} if not big else \
              {"entries_summary": [[list(k), len(v), v[:3]] for k, v in entries], "common": common, "row_id_lengths": [len(v) for _, v in entries]}
        full = {"entries": [[list(k), v] for k, v in entries], "common": common}
        # (a)
        try:
            data = impl.save(entries, common)
        except Exception as e:
            bad.append(dict(full, stream="a", form=impl.last_form, what="save raised %s: %s [input form: %s]" % (type(e).__name__, e, c10.describe_form(impl.last_form))))
            data = None
        full["form"] = impl.last_form
        if data is not None:
            want = c10.enc(entries, common, c10.narrowest(c10.max_word(entries, common)), 4)
            if data != want:
                at = next((i for i, (x, y) in enumerate(zip(data, want)) if x != y), min(len(data), len(want)))
                plain_same = None
                if len(bad) < 200:
                    try:
                        plain_same = impl.save(entries, common, form=dict(c10.PLAIN_FORM)) == want
                    except Exception:  # noqa
                        plain_same = False
                bad.append(dict(full, stream="a", what="bytes written differ from the documented layout (first difference at byte %d of %d; row-id array lengths in dict order %r) "
                                "[input form: %s%s]" % (at, len(want), [len(v) for _, v in entries][:12], c10.describe_form(full["form"]),
                                                        "" if plain_same is None else "; the same content in the ordinary form is written " + ("correctly" if plain_same else "wrongly too")),
                                observed=data.hex()[:6000], expected=want.hex()[:6000]))
            else:
                try:
                    d = c10.dec(data)
                    if (d[0], d[1]) != ([(tuple(k), list(v)) for k, v in entries], common):
                        bad.append(dict(full, stream="a", what="independent decoder does not recover the data"))
                except ValueError as e:
                    bad.append(dict(full, stream="a", what="independent decoder rejects the file: %s" % e))
            if in_coq:
                lits_a.append("(%s, %s, %s)" % (c10.lit_entries(entries), core.zlit(common), c10.lit_bytes(data)))
                recs_a.append(rec)
            if stream_tag:
                n_scale_files[0] += 1
            ctx.nontrivial.add(("a", c10.case_key(entries, common)))
        # (b)
        ws = []
        pairs = admissible_widths(entries, common)
        if max_pairs is not None and len(pairs) > max_pairs:
            ctx.rng.shuffle(pairs)
            pairs = sorted(pairs[:max_pairs])
        for iw, rw in pairs:
            d0s = [0] if entries else [0, ctx.rng.choice([1, 2, 3, 4, 255])]
            for d0 in d0s:
                file = c10.enc(entries, common, iw, rw, d0)
                o = impl.load(file)
                why = oracle_loaded(entries, common, rw, o)
                if why:
                    bad.append(dict(full, stream="b", iw=iw, rw=rw, d0=d0, what="independently written file (%d-byte index words, %d-byte row-id words): %s" % (iw, rw, why),
                                    file_hex=file.hex()[:4000], observed=repr(o)[:600]))
                if in_coq:
                    ws.append("(%d, %d, %d, %d, %s)" % (d0, iw, rw, c10.checksum(file), c10.lit_obs(o)))
                n_width_files += 1
                if stream_tag:
                    n_scale_files[1] += 1
                width_hist["%s%d/%d" % (stream_tag, iw, rw)] = width_hist.get("%s%d/%d" % (stream_tag, iw, rw), 0) + 1
                ctx.nontrivial.add(("b", c10.case_key(entries, common), iw, rw, d0))
        if in_coq:
            lits_b.append("(%s, %s, [%s])" % (c10.lit_entries(entries), core.zlit(common), "; ".join(ws)))
            recs_b.append(dict(rec, widths=pairs))

    for i in range(n_gen):
        entries, common, desc = c10.gen_entries(ctx.rng, small_rows=(ctx.rng.random() < 0.6))
        one_dict(entries, common, lits_a, recs_a, lits_b, recs_b)

    # ---------------- (a) + (b) on the 'scale' stream: short and long row-id arrays in every dict order ----------------
    lits_as, recs_as, lits_bs, recs_bs = [], [], [], []
    for entries, common, desc, in_coq in c10.gen_scale(ctx.rng, 8 if quick else 100, 1 if quick else 4):
        one_dict(entries, common, lits_as, recs_as, lits_bs, recs_bs, max_pairs=2, in_coq=in_coq, stream_tag="scale:")

    # ---------------- (h) histories of loads and saves in this process ----------------
    lits_h, recs_h, bad_h, hist_dist = history_stream(ctx, impl, 60 if quick else 600)
    bad.extend(bad_h)

    # ---------------- (b) big totals ----------------
    lits_r, recs_r = [], []
    for rs, common, iw, rw in big_run_cases(ctx.rng, ctx.tier):
        entries = [(k, list(range(s, s + c))) for k, s, c in rs]
        file = c10.enc(entries, common, iw, rw)
        o = impl.load(file)
        rec = {"runs": [[list(k), s, c] for k, s, c in rs], "common": common, "iw": iw, "rw": rw, "total_rowids": sum(c for _, _, c in rs)}
        why = oracle_loaded(entries, common, rw, o)
        if why:
            bad.append(dict(rec, stream="b-big", what="file with %d row ids in total at %d-byte row-id words: %s" % (rec["total_rowids"], rw, why)))
        lits_r.append("(%s, %s, %d, %d, %d, %s)" % (lit_runs(rs), core.zlit(common), iw, rw, c10.checksum(file), runs_of_loaded(o)))
        recs_r.append(rec)
        ctx.nontrivial.add(("r", json.dumps(rec)))

    # ---------------- (c) header for huge totals ----------------
    lits_c, recs_c, stub_rejected = [], [], []
    totals = list(BIG_TOTALS)
    for _ in range(20 if quick else 200):
        n = ctx.rng.randint(1, 5)
        base = ctx.rng.choice([2 ** 30, 2 ** 32, 2 ** 31, 2 ** 33])
        target = base + ctx.rng.randint(-3, 3)
        lens = []
        left = target
        for j in range(n - 1):
            x = ctx.rng.randint(0, min(left, 2 ** 32 - 1))
            lens.append(x)
            left -= x
        if left <= 2 ** 32 - 1:
            lens.append(left)
        totals.append(lens)
    for lens in totals:
        arity = ctx.rng.randint(1, 3)
        ccls = ctx.rng.randint(0, 3)
        keys = []
        for j in range(len(lens)):
            keys.append(tuple([j] + [c10.value_in_class(ctx.rng, ctx.rng.randint(0, ccls)) for _ in range(arity - 1)]))
        common = c10.value_in_class(ctx.rng, ctx.rng.randint(0, 3))
        head, returned, note = save_header(impl, keys, common, lens)
        rec = {"keys": [list(k) for k in keys], "common": common, "rowid_array_lengths": lens, "total": sum(lens)}
        want = b"INDX0001" + struct.pack("<Q", c10.oracle_size(keys, common, lens))
        if not returned and note.split(":")[0] in ("AttributeError", "TypeError") and max(lens + [0]) >= FakeArr.REAL_BELOW:
            # the code touched a never-materialised array in a way the stub does not support: no verdict about the size field
            stub_rejected.append(dict(rec, note=note))
            continue
        if not returned or head != want:
            bad.append(dict(rec, stream="c", what="size field for %d row ids in total: %s" % (sum(lens), ("save raised " + note) if not returned else "wrong"),
                            header_hex=head.hex(), expected_hex=want.hex(),
                            how="IndxIO.save with duck-typed uint32 arrays (len/dtype/tofile=seek) on a sparse real file"))
        lits_c.append("(%s, %s, %s, %s, %s)" % ("[" + "; ".join(core.zlist(k) for k in keys) + "]", core.zlit(common), core.zlist(lens),
                                                c10.lit_bytes(head), core.boollit(returned)))
        recs_c.append(rec)
        ctx.nontrivial.add(("c", json.dumps(rec)))

    # ---------------- compare inside Coq ----------------
    ra = core.run_cases("c11a", c10.PRELUDE, lits_a, "entries_t * Z * list Z", "chk_c11_bytes", "explain_c11_bytes", shard_size=150 if quick else 500)
    rb = core.run_cases("c11b", c10.PRELUDE, lits_b, "entries_t * Z * list (Z * Z * Z * Z * obs)", "chk_c11_widths", "explain_c11_widths", shard_size=60 if quick else 400)
    ras = core.run_cases("c11as", c10.PRELUDE, lits_as, "entries_t * Z * list Z", "chk_c11_bytes", "explain_c11_bytes", shard_size=4 if quick else 12)
    rbs = core.run_cases("c11bs", c10.PRELUDE, lits_bs, "entries_t * Z * list (Z * Z * Z * Z * obs)", "chk_c11_widths", "explain_c11_widths", shard_size=3 if quick else 9)
    rh = core.run_cases("c11h", c10.PRELUDE, lits_h, "entries_t * Z * list (Z * Z * Z * Z * obs)", "chk_c11_widths", "explain_c11_widths", shard_size=120 if quick else 600)
    rr = core.run_cases("c11r", c10.PRELUDE, lits_r, "list run_t * Z * Z * Z * Z * obs_runs", "chk_c11_runs", "explain_c11_runs", shard_size=1)
    rc = core.run_cases("c11c", c10.PRELUDE, lits_c, "list (list Z) * Z * list Z * list Z * bool", "chk_c11_header", "explain_c11_header", shard_size=400)
    ctx.evaluations = len(lits_a) + n_scale_files[0] + n_width_files + len(lits_r) + len(lits_c) + len(lits_h)
    ctx.samples = recs_a[:2] + recs_b[:1] + recs_r[:1] + recs_c[:2]
    impl.record_forms()
    ctx.coverage.update({
        "files_saved_for_real": len(lits_a), "independent_files_loaded_for_real": n_width_files, "width_pairs_iw/rw": dict(sorted(width_hist.items())),
        "beyond_rowid_word_range_files": [{"rw": r["rw"], "total_rowids": r["total_rowids"]} for r in recs_r],
        "sparse_header_cases": len(lits_c), "sparse_totals_max": max([r["total"] for r in recs_c] + [0]),
        "sparse_cases_the_stub_could_not_serve": len(stub_rejected),
        "scale_stream": {"files_saved_for_real": n_scale_files[0], "independent_files_loaded_for_real": n_scale_files[1], "compared_inside_coq": len(lits_as),
                         "oracle_only_(one_~70000-id_array)": n_scale_files[0] - len(lits_as)},
        "model_disagreements": {"a": len(ra.failing), "b": len(rb.failing), "a_scale": len(ras.failing), "b_scale": len(rbs.failing), "runs": len(rr.failing), "c": len(rc.failing), "history": len(rh.failing)},
        "load_save_history_stream": hist_dist,
        "coq_case_shards_failed": len(ra.errors) + len(rb.errors) + len(ras.errors) + len(rbs.errors) + len(rr.errors) + len(rc.errors) + len(rh.errors),
        "tie": "W2 inside Coq: chk_c11_bytes, chk_c11_widths, chk_c11_runs, chk_c11_header (Indx/Check.v)"})

    # ---------------- verdict ----------------
    class Merged:
        pass
    m = Merged()
    m.failing = ([("a", i) for i in ra.failing] + [("b", i) for i in rb.failing] + [("as", i) for i in ras.failing] + [("bs", i) for i in rbs.failing]
                 + [("r", i) for i in rr.failing] + [("c", i) for i in rc.failing] + [("h", i) for i in rh.failing])
    m.errors = ra.errors + rb.errors + ras.errors + rbs.errors + rr.errors + rc.errors + rh.errors
    m.explain = "\n".join(x[-1500:] for x in (ra.explain, rb.explain, ras.explain, rbs.explain, rr.explain, rc.explain, rh.explain) if x)
    if bad:
        bad = sorted(bad, key=lambda r: (["a", "b", "h", "b-big", "c"].index(r["stream"]), len(json.dumps(r, default=str))))
        sig = {"a": "layout:bytes-differ", "b": "layout:independent-file-misread", "h": "layout:load-depends-on-history", "b-big": "layout:independent-file-misread", "c": "layout:size-field"}[bad[0]["stream"]]
        ctx.report(sig, bad[0]["what"], {"failing_inputs": bad[:10], "count": len(bad),
                   "how": "IndxIO on real files, judged by the struct-based encoder/decoder written from the docstring (no model involved)"})
    elif m.failing or m.errors or not proof_ok or stub_rejected:
        w = []
        if stub_rejected:
            w.append("size field for totals around 2^30..2^33 no longer observed: save touches never-materialised row-id arrays in a way the sparse stub does not "
                     "support in %d cases (%s)" % (len(stub_rejected), stub_rejected[0]["note"][:160]))
        if not proof_ok:
            w.append("proof obligation no longer checks: Properties/C11.v (%s)" % ((pr["log"] or "")[-300:] if not pr["ok"] else "assumptions: %s" % pr["assumptions"]))
        if m.failing:
            w.append("correspondence suites c11a/b/r/c: %d cases where the code differs from the model/specification" % len(m.failing))
        if m.errors:
            w.append("correspondence shards failed to evaluate: %s" % (m.errors[0][1][-400:],))
        pick = {"a": recs_a, "b": recs_b, "as": recs_as, "bs": recs_bs, "r": recs_r, "c": recs_c, "h": recs_h}
        ctx.report("c11:not-shown", "; ".join(w), {
            "broken_proof_log": (pr["log"] or "")[-2500:] if not pr["ok"] else "",
            "disagreeing_cases": [dict(pick[s][i], stream=s) for s, i in m.failing[:10]], "explain": m.explain[-3000:],
            "stub_rejected": stub_rejected[:5],
            "search": "the struct-based oracle found no failing input among the generated cases"}, found_input=False)


def replay(ctx, path):
    r = json.load(open(path))
    impl = c10.Impl(ctx)
    ctx.level = "exploration"
    ctx.rule = "replay of recorded failing inputs"
    still = []
    for c in r.get("failing_inputs", []):
        s = c.get("stream")
        why = None
        if s == "a":
            entries = [(tuple(k), list(v)) for k, v in c["entries"]]
            try:
                data = impl.save(entries, c["common"], form=c.get("form") or dict(c10.PLAIN_FORM))
                want = c10.enc(entries, c["common"], c10.narrowest(c10.max_word(entries, c["common"])), 4)
                why = None if data == want else "bytes written differ from the documented layout"
            except Exception as e:
                why = "save raised %s: %s" % (type(e).__name__, e)
        elif s == "b":
            entries = [(tuple(k), list(v)) for k, v in c["entries"]]
            why = oracle_loaded(entries, c["common"], c["rw"], impl.load(c10.enc(entries, c["common"], c["iw"], c["rw"], c.get("d0", 0))))
        elif s == "h":
            for st in c.get("loads_before_and_including_this_one", []):
                e_ = [(tuple(k), list(v)) for k, v in st["entries"]]
                why = oracle_loaded(e_, st["common"], st["rw"], impl.load(c10.enc(e_, st["common"], st["iw"], st["rw"])))
                if why:
                    why = "in a history of %d loads: %s" % (len(c["loads_before_and_including_this_one"]), why)
                    break
        elif s == "b-big":
            entries = [(tuple(k), list(range(st, st + n))) for k, st, n in c["runs"]]
            why = oracle_loaded(entries, c["common"], c["rw"], impl.load(c10.enc(entries, c["common"], c["iw"], c["rw"])))
        elif s == "c":
            keys = [tuple(k) for k in c["keys"]]
            head, returned, note = save_header(impl, keys, c["common"], c["rowid_array_lengths"])
            want = b"INDX0001" + struct.pack("<Q", c10.oracle_size(keys, c["common"], c["rowid_array_lengths"]))
            why = None if (returned and head == want) else "size field wrong (%s): header %s, expected %s" % (note or "save returned", head.hex(), want.hex())
        print("stream %s: %s -> %s" % (s, {k: v for k, v in c.items() if k in ("entries", "runs", "keys", "common", "iw", "rw", "rowid_array_lengths")}, why or "ok"))
        if why:
            still.append(dict(c, what=why))
    ctx.evaluations = len(r.get("failing_inputs", []))
    ctx.nontrivial.update(range(max(2, ctx.evaluations)))
    if still:
        ctx.report(r.get("signature", "layout:replay"), "replayed failing input still fails: " + still[0]["what"], {"failing_inputs": still})
