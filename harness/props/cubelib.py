"""Shared helpers of the cube checks C14 / C02 (generators, literals, property oracles).

A *dimension spec* is a plain dict  {"arr": nested list (dense array, shape (N,) / (N,C) / (N,C,D)),
"common": int, "how": "from_array" | "ctor", "order": [keys in dict order] | None}
from which the real `iindex` is built either with `iindex.from_array(arr, common=...)` (1-/2-axis)
or with the constructor `iindex(entries, common, shape)` (any number of axes, entries inserted in
the recorded - shuffled - dict order).  Specs are JSON-able, so they double as replay inputs.
"""
import itertools

import numpy

from .. import core, forms


# --------------------------------------------------------------------------- building real dims
def entries_from_dense(arr, common):
    """{coords tuple: increasing row ids} of a dense array for the given common (all axes)."""
    a = numpy.asarray(arr, dtype=numpy.int64)
    ents = {}
    his = list(numpy.ndindex(*a.shape[1:])) if a.ndim > 1 else [()]
    for hi in his:
        col = a[(slice(None),) + hi] if a.ndim > 1 else a
        for v in sorted(set(col.tolist())):
            if v != common:
                ents[(int(v),) + tuple(int(x) for x in hi)] = numpy.nonzero(col == v)[0].astype(numpy.uint32)
    return ents


# Form tags (harness/forms.py): the CONTENT of a spec is its dense array + common; spec["form"] records in which form
# the content is handed to the library, as JSON-able tags that are re-applied here (so replays reproduce the form).
#   form["arr"]     from_array only: "<int dtype>/<layout>" (forms.reform) or "nested-list"
#   form["rowids"]  constructor only: "uint32-contiguous" | "uint32-column-view" | "uint32-readonly"
#   form["common"]  "python-int" | "numpy.<int dtype>"
ROWID_FORMS = ["uint32-contiguous", "uint32-contiguous", "uint32-column-view", "uint32-column-view", "uint32-readonly"]
#   form["coords"]  constructor only: "python-int" | "numpy.<int dtype>" - type of the VALUE coordinate of every dict key
# NumPy-scalar commons / coordinates are generated in ANY dtype that holds them, including AT the dtype's maximum
# (np.uint8(255), np.int8(127), ...: the inferred extent max(...) + 1 wrapped there until fix F24, the working extent
# e + 1 of an explicit NumPy-scalar extent until fix F27).
SCALAR_HEADROOM = 0
DTYPE_MAXES = {127: "int8", 255: "uint8", 32767: "int16", 65535: "uint16"}


def apply_scalar(v, tag):
    if not tag or tag == "python-int" or v is None:
        return v
    return numpy.dtype(tag.split(".", 1)[1]).type(v)


def apply_rowids(rows, tag):
    a = numpy.asarray(rows, dtype=numpy.uint32)
    if tag == "uint32-column-view":
        big = numpy.zeros((len(a), 2), dtype=numpy.uint32)
        big[:, 0] = a
        big[:, 1] = 0xFFFFFFFF
        return big[:, 0]
    if tag == "uint32-readonly":
        a = a.copy()
        a.setflags(write=False)
    return a


def scalar_tag(rng, v, p=0.35, headroom=SCALAR_HEADROOM):
    if v is None or rng.random() >= p:
        return "python-int"
    if headroom == 0 and v in DTYPE_MAXES and rng.random() < 0.5:
        return "numpy." + DTYPE_MAXES[v]              # exactly at the maximum of its dtype
    cands = forms.int_dtypes_holding([v, v + headroom])
    return "numpy." + rng.choice(cands) if cands else "python-int"


def choose_form(rng, spec, p=0.5):
    a = numpy.asarray(spec["arr"], dtype=numpy.int64)
    form = {"common": scalar_tag(rng, spec["common"])}
    if spec["how"] == "from_array":
        if rng.random() < 0.12:
            form["arr"] = "nested-list"
        else:
            dt = "int64"
            if rng.random() < p:
                dt = rng.choice(forms.int_dtypes_holding(a.flatten().tolist() + [spec["common"]]) or ["int64"])
            form["arr"] = dt + "/" + forms.layout(rng, a, p)[1]
    else:
        form["rowids"] = rng.choice(ROWID_FORMS)
        vals = [v for v in set(a.flatten().tolist()) if v != spec["common"]]
        form["coords"] = "python-int"
        if vals and rng.random() < 0.3:
            top = max(vals)
            if top in DTYPE_MAXES and min(vals) >= numpy.iinfo(DTYPE_MAXES[top]).min and rng.random() < 0.5:
                form["coords"] = "numpy." + DTYPE_MAXES[top]
            else:
                form["coords"] = "numpy." + rng.choice(forms.int_dtypes_holding(vals))
    return form


def form_tags(spec):
    f = spec.get("form") or {}
    return ["%s=%s" % (k, f[k]) for k in sorted(f)]


def build_dim(spec):
    from catii import iindex
    a = numpy.asarray(spec["arr"], dtype=numpy.int64)
    if a.ndim == 1 and len(spec["arr"]) == 0:
        a = a.reshape((0,) + tuple(spec.get("hshape", ())))
    form = spec.get("form") or {}
    common = apply_scalar(spec["common"], form.get("common"))
    if spec["how"] == "from_array":
        tag = form.get("arr")
        values = a.tolist() if tag == "nested-list" else (forms.reform(a, tag) if tag else a)
        return iindex.from_array(values, common=common)
    ents = entries_from_dense(a, spec["common"])
    order = spec.get("order")
    if order is not None:
        ents = {tuple(k): ents[tuple(k)] for k in order}
    ct = form.get("coords")
    ents = {((apply_scalar(k[0], ct),) + tuple(k[1:])): apply_rowids(r, form.get("rowids")) for k, r in ents.items()}
    return iindex(ents, common, tuple(a.shape))


def build_dims(specs):
    """Real dimensions of a cube.  spec["same_as"] = j (< position) puts THE VERY SAME iindex object that was built for
    position j at this position (relations between the elements of dims: identity, not equal content)."""
    objs = []
    for i, sp in enumerate(specs):
        j = sp.get("same_as")
        objs.append(objs[j] if (j is not None and j < i) else build_dim(sp))
    return objs


def gen_related(rng, multi_axis=True):
    """RELATIONS between the dimensions of one cube (each is an ordinary dimension by itself):
    the same object at two or three positions (A A, A B A, A A A; 1-, 2- and 3-axis), equal-content twins as distinct
    objects (rebuilt from the same array, possibly through the other construction path and with the dict entries inserted
    in another order), a dimension with zero entries (constant column) next to ordinary ones.
    -> (N, specs with "same_as", pattern name)"""
    import copy
    N = rng.randint(1, 8)
    pattern = rng.choice(["AA", "AA", "ABA", "AAA", "AB-A", "A-twin", "A-twin-reordered", "AZ", "ZA", "AZA", "ZZ"])
    npos = {"AA": 2, "ABA": 3, "AAA": 3, "AB-A": 3, "A-twin": 2, "A-twin-reordered": 2, "AZ": 2, "ZA": 2, "AZA": 3, "ZZ": 2}[pattern]
    nA = {"AA": 2, "ABA": 2, "AAA": 3, "AB-A": 2, "A-twin": 2, "A-twin-reordered": 2, "AZ": 1, "ZA": 1, "AZA": 2, "ZZ": 0}[pattern]
    hshape = ()
    if multi_axis:
        hshape = rng.choice([(), (2,), (3,), (2, 2), (2,)]) if nA <= 2 else rng.choice([(), (2,), (2,)])
    e = rng.randint(2, 3)

    def column(shape, const=None):
        size = int(numpy.prod(shape))
        flat = [const if const is not None else rng.randrange(e) for _ in range(size)]
        return numpy.array(flat, dtype=numpy.int64).reshape(shape)
    arrA = column((N,) + tuple(hshape))
    cA = pick_common(rng, arrA.flatten().tolist(), range(e), rng.choice(["frequent", "rare", "absent"]))
    A = make_spec(rng, arrA, cA)
    arrB = column((N,))
    B = make_spec(rng, arrB, pick_common(rng, arrB.tolist(), range(e), rng.choice(["frequent", "rare"])))
    zc = rng.randrange(e)
    Z = make_spec(rng, column((N,), const=zc), zc)          # zero entries: every row holds the common

    def twin(reorder):
        t = copy.deepcopy(A)
        t.pop("same_as", None)
        if reorder or rng.random() < 0.5:                   # same content through the constructor, entries in another dict order
            t["how"] = "ctor"
            keys = list(entries_from_dense(arrA, cA).keys())
            rng.shuffle(keys)
            t["order"] = [list(k) for k in keys]
            t["form"] = {"common": "python-int", "rowids": rng.choice(ROWID_FORMS), "coords": "python-int"}
        return t

    def same(j):
        t = copy.deepcopy(A)
        t["same_as"] = j
        return t
    if pattern == "AA":
        specs = [A, same(0)]
    elif pattern == "ABA":
        specs = [A, B, same(0)]
    elif pattern == "AAA":
        specs = [A, same(0), same(0)]
    elif pattern == "AB-A":
        specs = [A, B, twin(False)]
    elif pattern == "A-twin":
        specs = [A, twin(False)]
    elif pattern == "A-twin-reordered":
        specs = [A, twin(True)]
    elif pattern == "AZ":
        specs = [A, Z]
    elif pattern == "ZA":
        specs = [Z, A]
    elif pattern == "AZA":
        specs = [A, Z, same(0)]
    else:
        z2 = copy.deepcopy(Z)
        z2["same_as"] = 0
        specs = [Z, z2]
    assert len(specs) == npos
    return N, specs, pattern


def make_spec(rng, arr, common, allow_from_array=True, vary_form=True):
    a = numpy.asarray(arr, dtype=numpy.int64)
    how = "ctor"
    if allow_from_array and a.ndim <= 2 and a.size > 0 and a.min() >= 0 and rng.random() < 0.5:
        how = "from_array"
    spec = {"arr": a.tolist(), "common": int(common), "how": how, "order": None}
    if a.size == 0:
        spec["hshape"] = list(a.shape[1:])
    if how == "ctor":
        keys = list(entries_from_dense(a, common).keys())
        rng.shuffle(keys)
        spec["order"] = [list(k) for k in keys]
    if vary_form:
        spec["form"] = choose_form(rng, spec)
    return spec


def pick_common(rng, values, pool, mode):
    """most frequent / rare / absent common for the flat list of data values."""
    vals = list(values)
    present = sorted(set(vals))
    if mode == "frequent" and present:
        return max(present, key=lambda v: (vals.count(v), -v))
    if mode == "rare" and present:
        return min(present, key=lambda v: (vals.count(v), v))
    absent = [v for v in pool if v not in present]
    if absent:
        return rng.choice(absent)
    return rng.choice(present) if present else rng.choice(list(pool))


def gen_lopsided(rng):
    """Lopsided dense columns: N in 30..120 rows, 2-4 one-axis dimensions with extents 2-4, each with one frequent
    category (60-90 % of the rows), a filler category and rare categories of 1-3 rows; the LAST row of every rare
    category of dimension i is, with probability 0.7, in the frequent category of dimension i+1 (a short running
    row-id set whose last element belongs to a much longer index entry: galloping / bisecting intersections).
    The common is the filler, a rare category, a value absent from the data (= extent) or, rarely, the frequent
    category, so the long entry is usually stored.  -> (N, [(column list, common, extent incl. the common)])"""
    N = rng.randint(30, 120)
    nd = rng.choice([2, 2, 3, 3, 4])
    out, force = [], set()
    for _ in range(nd):
        e = rng.randint(2, 4)
        cats = list(range(e))
        rng.shuffle(cats)
        freq, rest = cats[0], cats[1:]
        filler = rest[0]
        rares = rest[1:] if len(rest) > 1 else ([filler] if rng.random() < 0.5 else [])
        p = rng.uniform(0.6, 0.9)
        col = [freq if rng.random() < p else filler for _ in range(N)]
        free = [r for r in range(N) if r not in force]
        rng.shuffle(free)
        nxt = set()
        for v in rares:
            if v == filler:                       # extent 2: the "filler" itself is rare
                col = [freq] * N
            k = rng.randint(1, 3)
            rows, free = free[:k], free[k:]
            for r in rows:
                col[r] = v
            if rows and rng.random() < 0.7:
                nxt.add(max(rows))
        for r in force:                           # last rows of the previous dimension's rare categories
            col[r] = freq
        mode = rng.random()
        if mode < 0.4:
            common = filler
        elif mode < 0.65 and rares:
            common = rares[0]
        elif mode < 0.85:
            common = e                            # absent from the data
        else:
            common = freq
        out.append((col, common, max(e, common + 1)))
        force = nxt
    return N, out


# --------------------------------------------------------------------------- literals
def dim1_lit(idx):
    """A real ONE-axis iindex as the Coq literal (entries in dict order, common)."""
    assert len(idx.shape) == 1
    ents = []
    for coords, rowids in dict.items(idx):
        assert len(coords) == 1
        ents.append("(%s, %s)" % (core.zlit(int(coords[0])), core.zlist(int(r) for r in rowids)))
    return "([%s], %s)" % ("; ".join(ents), core.zlit(int(idx.common)))


def dims_lit(dims):
    return "[" + "; ".join(dim1_lit(d) for d in dims) + "]"


def em_lit(coords, rowids):
    return "(%s, %s)" % (core.zlist(int(c) for c in coords), core.zlist(int(r) for r in rowids))


# --------------------------------------------------------------------------- oracles (no model)
def oracle_walk(arrs, key_lists):
    """The comprehension of C14 on the dense 1-D arrays: Counter {(coords, rows): 1}."""
    import collections
    N = len(arrs[0]) if arrs else 0
    exp = collections.Counter()
    opts = [list(ks) + [-1] for ks in key_lists]
    for c in itertools.product(*opts):
        if all(x == -1 for x in c):
            continue
        rows = tuple(r for r in range(N) if all(x == -1 or a[r] == x for x, a in zip(c, arrs)))
        if rows:
            exp[(tuple(c), rows)] += 1
    return exp


def brute_table(arrs, N):
    """Sparse brute-force contingency table {scaffold coords + cell: count} from the dense arrays."""
    arrs = [numpy.asarray(a, dtype=numpy.int64) for a in arrs]
    his = [list(numpy.ndindex(*a.shape[1:])) if a.ndim > 1 else [()] for a in arrs]
    out = {}
    for combo in itertools.product(*his):
        flat = tuple(int(e) for h in combo for e in h)
        for r in range(N):
            cell = tuple(int(a[(r,) + h]) for a, h in zip(arrs, combo))
            out[flat + cell] = out.get(flat + cell, 0) + 1
    return out
