"""C10 - INDX save then load is the identity.

Proof : Properties/C10.v  (le_roundtrip, C10_roundtrip over the models Indx/Save.v, Indx/Load.v).
Proof : ... and load_wf (Indx/LoadWF.v over IIndex/Model.v: a well-formed storable index is rebuilt identically).
Tie W2: (d) generated entries dicts (arity 1..4, 0..6 entries, coordinate magnitude class x common magnitude
        class, row-id arrays of length 0..6 with boundary values) are saved and loaded by the real IndxIO on
        real files; the bytes written and the loaded parts are compared INSIDE Coq (Indx/Check.v: chk_c10)
        with `save` / `load` of the model and with the input;
        (i) real iindex objects - built by iindex.from_array, and every well-formed state reached by the
        operation histories of the C06 generator (harness/iindex_hist.py), also re-labelled to values that
        need 2/4/8-byte words - are saved with IndxIO.save(f, idx, idx.common, idx.rowid_dtype), loaded, and
        rebuilt with iindex(entries, common, shape); inside Coq (chk_c10_idx) the real state must meet the
        hypotheses of load_wf (wf_b, storable_b), the model must write the same bytes and load what the
        code loaded, and `rebuild` of that must be the index saved.
Oracle: the property stated directly - load(save(x)) == x with plain-int coordinates and uint32 arrays; for
        (i) also rebuilt == original, not (rebuilt != original), validate(check_comprehensive_unique=True),
        the independent well-formedness conditions of iindex_hist.py_wf, and equal dense content.

This module also holds what C11 and C12 share with C10: the generator, the struct-based independent
encoder/decoder written from the class docstring, the wrappers that run the real IndxIO on real files in
ctx.scratch, and the Gallina literal writers.
"""
import json
import os
import struct

from .. import core

PRELUDE = "From Catii Require Import Indx.Bytes Indx.Layout Indx.Save Indx.Load Indx.Check."
CLASS_MAX = [255, 65535, 2 ** 32 - 1, 2 ** 63 - 1]
FMT = {1: "<B", 2: "<H", 4: "<L", 8: "<Q"}
STAGE = {1: "magic", 2: "version", 3: "size-word", 4: "mmap", 5: "body"}


# --------------------------------------------------------------------------
# independent oracle: encoder / decoder written from the docstring of IndxIO, with `struct` only
# --------------------------------------------------------------------------

def narrowest(m):
    for w in (1, 2, 4, 8):
        if m < 256 ** w:
            return w
    raise ValueError("does not fit 8 bytes")


def max_word(entries, common):
    return max([common] + [c for k, _ in entries for c in k])


def enc_payload(entries, common, iw, rw, d0=0):
    dims = len(entries[0][0]) if entries else d0
    p = [struct.pack("<B", dims), struct.pack("<L", len(entries)), struct.pack("<B", iw), struct.pack(FMT[iw], common)]
    for k, _ in entries:
        p.append(struct.pack("<%d%s" % (len(k), FMT[iw][1]), *k))
    p.append(struct.pack("<B", rw))
    for _, v in entries:
        p.append(struct.pack(FMT[rw], len(v)))
    for _, v in entries:
        p.append(struct.pack("<%d%s" % (len(v), FMT[rw][1]), *v))
    return b"".join(p)


def enc(entries, common, iw, rw, d0=0):
    p = enc_payload(entries, common, iw, rw, d0)
    return b"INDX0001" + struct.pack("<Q", len(p)) + p


def dec(b):
    """Strict decoder: (entries, common, iw, rw, dims) or ValueError."""
    if b[:8] != b"INDX0001":
        raise ValueError("magic")
    (size,) = struct.unpack("<Q", b[8:16])
    if size != len(b) - 16:
        raise ValueError("size field %d, payload %d" % (size, len(b) - 16))
    o = 16
    dims, n, iw = struct.unpack_from("<BLB", b, o)
    o += 6
    if iw not in FMT:
        raise ValueError("index word size")
    common = struct.unpack_from(FMT[iw], b, o)[0]
    o += iw
    keys = []
    for _ in range(n):
        keys.append(tuple(struct.unpack_from("<%d%s" % (dims, FMT[iw][1]), b, o)))
        o += dims * iw
    rw = b[o]
    o += 1
    if rw not in FMT:
        raise ValueError("rowid word size")
    lens = list(struct.unpack_from("<%d%s" % (n, FMT[rw][1]), b, o))
    o += n * rw
    rows = []
    for l in lens:
        rows.append(list(struct.unpack_from("<%d%s" % (l, FMT[rw][1]), b, o)))
        o += l * rw
    if o != len(b):
        raise ValueError("trailing bytes")
    return list(zip(keys, rows)), common, iw, rw, dims


def oracle_size(keys, common, lens, rw=4):
    iw = narrowest(max([common] + [c for k in keys for c in k]))
    return 1 + 4 + 1 + iw + sum(len(k) for k in keys) * iw + 1 + len(lens) * rw + sum(lens) * rw


def checksum(b):
    acc = len(b)
    for i, x in enumerate(b):
        acc = (acc + (i + 1) * (x + 1)) % 2305843009213693951
    return acc


# --------------------------------------------------------------------------
# generator
# --------------------------------------------------------------------------

ROW_POOL = [0, 1, 2, 3, 5, 254, 255, 256, 257, 65534, 65535, 65536, 2 ** 31 - 1, 2 ** 31, 2 ** 32 - 2, 2 ** 32 - 1]


def value_in_class(rng, cls):
    """A value of magnitude class cls (0..3); biased to the boundaries of the class."""
    hi = CLASS_MAX[cls]
    lo = 0 if cls == 0 else CLASS_MAX[cls - 1] + 1
    r = rng.random()
    if r < 0.25:
        return hi
    if r < 0.4:
        return lo
    if r < 0.5:
        return hi - 1
    if r < 0.6:
        return rng.randint(0, min(hi, 3))
    if r < 0.8:
        return rng.randint(lo, hi)
    return rng.randint(0, hi)


def gen_rows(rng, small=False):
    n = rng.choice([0, 0, 1, 1, 2, 3, 4, 5, 6])
    pool = [x for x in ROW_POOL if x < 256] if small else ROW_POOL
    vals = set()
    while len(vals) < n:
        vals.add(rng.choice(pool) if rng.random() < 0.6 else rng.randint(0, 255 if small else 2 ** 32 - 1))
    return sorted(vals)


def gen_entries(rng, small_rows=None):
    """(entries as list of (coords tuple, strictly increasing row ids), common, descriptor)."""
    arity = rng.randint(1, 4)
    n = rng.choice([0, 1, 1, 2, 2, 3, 4, 5, 6])
    ccls = rng.randint(0, 3)
    kcls = rng.randint(0, 3)
    common = value_in_class(rng, kcls)
    if small_rows is None:
        small_rows = rng.random() < 0.3
    keys = []
    seen = set()
    tries = 0
    while len(keys) < n and tries < 200:
        tries += 1
        k = tuple(value_in_class(rng, rng.randint(0, ccls)) if rng.random() < 0.5 else rng.randint(0, 3) for _ in range(arity))
        if k not in seen:
            seen.add(k)
            keys.append(k)
    if keys and rng.random() < 0.8:
        # make sure the coordinate class is really reached
        i = rng.randrange(len(keys))
        k = list(keys[i])
        k[rng.randrange(arity)] = max(value_in_class(rng, ccls), (CLASS_MAX[ccls - 1] + 1) if ccls else 0)
        k = tuple(k)
        if k not in seen:
            keys[i] = k
    if keys and rng.random() < 0.08:
        # two keys that differ by one above 2^53: they collide when a float64 key matrix rounds them (F28)
        base = rng.choice([2 ** 53, 2 ** 60, 2 ** 62, 2 * rng.randint(2 ** 52, 2 ** 62 - 1)])
        i, j = rng.randrange(len(keys)), rng.randrange(arity)
        a, b = list(keys[i]), list(keys[i])
        a[j], b[j] = base + 1, base
        a, b = tuple(a), tuple(b)
        if a not in seen and b not in seen:
            keys[i] = a
            keys.insert(rng.randint(0, len(keys)), b)
            ccls = 3
    entries = [(k, gen_rows(rng, small_rows)) for k in keys]
    return entries, common, {"arity": arity, "n": len(entries), "coord_class": ccls, "common_class": kcls}


def case_key(entries, common):
    return hash((tuple((k, tuple(v)) for k, v in entries), common))


# --------------------------------------------------------------------------
# 'scale' stream: behaviour that depends on SIZE (array length thresholds, dict order of short and long arrays)
# --------------------------------------------------------------------------

LONG_EXACT = [63, 64, 65, 255, 256, 257]


def inc_rows(rng, n, hi):
    """n strictly increasing row ids in [0, hi] (hi >= n - 1): a run, a strided run, or a sorted random sample; often ending at hi."""
    if n == 0:
        return []
    r = rng.random()
    if r < 0.3:
        start = rng.randint(0, hi - n + 1)
        out = list(range(start, start + n))
    elif r < 0.55:
        step = rng.randint(1, max(1, (hi + 1) // n))
        start = rng.randint(0, hi - (n - 1) * step)
        out = list(range(start, start + n * step, step))
    else:
        out = sorted(rng.sample(range(hi + 1), n))
    if rng.random() < 0.3:
        out[-1] = hi
    return out


def scale_lengths(rng, n, budget=1500):
    """Row-id array lengths for n >= 2 entries: at least one non-empty short (< 64) and one long (>= 64) array."""
    def short():
        return rng.randint(0, 10)

    def long_():
        return rng.choice(LONG_EXACT) if rng.random() < 0.5 else rng.randint(64, 600)
    ls = [rng.randint(1, 10), long_()]
    while len(ls) < n:
        x = long_() if rng.random() < 0.45 else short()
        ls.append(x if sum(ls) + x <= budget else short())
    rng.shuffle(ls)
    return ls


def gen_scale_base(rng, giant=False):
    """(entries, common, descriptor) with 2..8 entries mixing short and long strictly increasing row-id arrays."""
    n = 3 if giant else rng.randint(2, 8)
    arity = rng.randint(1, 3)
    ccls, kcls = rng.randint(0, 3), rng.randint(0, 3)
    common = value_in_class(rng, kcls)
    ls = [rng.randint(1, 5), rng.randint(69000, 71000), rng.randint(0, 70)] if giant else scale_lengths(rng, n)
    hi = 2 ** 32 - 1
    if not giant and max(ls) <= 256 and rng.random() < 0.5:
        hi = 255                                   # 1-byte row-id words stay admissible (C11 b)
    elif not giant and rng.random() < 0.35:
        hi = 65535
    keys, seen = [], set()
    while len(keys) < n:
        k = tuple(value_in_class(rng, rng.randint(0, ccls)) if rng.random() < 0.5 else rng.randint(0, 9) for _ in range(arity))
        if k not in seen:
            seen.add(k)
            keys.append(k)
    entries = [(k, inc_rows(rng, l, hi)) for k, l in zip(keys, ls)]
    return entries, common, {"arity": arity, "n": n, "lengths": ls, "rowid_max": hi}


def dict_orders(rng, entries):
    """Every dict order for <= 3 entries; else as generated, reversed, short-first, long-first and two shuffles."""
    import itertools
    if len(entries) <= 3:
        return [list(p) for p in itertools.permutations(entries)]
    out = [list(entries), list(reversed(entries)), sorted(entries, key=lambda e: len(e[1])), sorted(entries, key=lambda e: -len(e[1]))]
    for _ in range(2):
        e = list(entries)
        rng.shuffle(e)
        out.append(e)
    return out


def gen_scale(rng, n_base, n_giant):
    """[(entries, common, descriptor, in_coq)] - giant cases (one ~70 000-id array) are judged by the struct oracle only."""
    out = []
    for _ in range(n_base):
        entries, common, desc = gen_scale_base(rng)
        for e in dict_orders(rng, entries):
            out.append((e, common, desc, True))
    for _ in range(n_giant):
        entries, common, desc = gen_scale_base(rng, giant=True)
        for e in (entries, list(reversed(entries)), sorted(entries, key=lambda x: len(x[1])), sorted(entries, key=lambda x: -len(x[1]))):
            out.append((list(e), common, desc, False))
    return out


def scale_indexes(impl, rng, n):
    """Real indexes built by from_array on 100..2000-row arrays with a skewed value distribution (long and short entries)."""
    np = impl.np
    out = []
    for _ in range(n):
        rows = rng.choice([100, 128, 129, 200, 500, 1000, 2000, rng.randint(100, 2000)])
        cols = rng.choice([None, None, 1, 2, 3])
        vals = rng.sample([0, 1, 2, 3, 5, 9, 300, 70000, 2 ** 33], 5)
        weights = [50, 30, 3, 1, 1]
        rng.shuffle(weights)
        cells = rng.choices(vals, weights=weights, k=rows * (cols or 1))
        arr = np.array(cells, dtype=np.int64).reshape((rows,) if cols is None else (rows, cols))
        try:
            if rng.random() < 0.5:
                idx = impl.catii.iindex.from_array(arr, common=int(rng.choice(vals + [7])))
            else:
                idx = impl.catii.iindex.from_array(arr)
            idx.validate(check_comprehensive_unique=True)
        except Exception:  # noqa  from_array's own domain (C01)
            continue
        out.append(idx)
    return out


def roundtrip_fails(impl, entries, common, form=None):
    try:
        return oracle_roundtrip(entries, common, impl.load(impl.save(entries, common, form=form)))
    except Exception as e:  # noqa
        return "save raised %s: %s" % (type(e).__name__, e)


def describe_form(form):
    return "keys %s, common %s, %s, row-id arrays %s, file mode %s" % (
        form.get("keys_tag"), form.get("common"), form.get("container"), sorted(set(form.get("rows") or ["contiguous"])), form.get("save_mode"))


def form_note(impl, entries, common, form):
    """For a failing case: does the same CONTENT fail in the ordinary form (Python ints, dict, contiguous arrays, 'wb')?"""
    if form.get("keys") is None and form.get("rows") is None:
        return ""
    plain = roundtrip_fails(impl, entries, common, form=dict(PLAIN_FORM))
    return " [input form: %s; the same content in the ordinary form %s]" % (describe_form(form), "fails too" if plain else "round-trips")


def shrink_scale(impl, entries, common, form):
    """Cheap shrink of a failing dict (same form): an ordered pair of its entries, then shorter arrays (bisection on each length)."""
    best, bform = list(entries), form
    for i in range(len(entries)):
        for j in range(i + 1, len(entries)):
            cand, cf = [entries[i], entries[j]], sub_form(form, [i, j])
            if roundtrip_fails(impl, cand, common, cf):
                best, bform = cand, cf
                break
        if len(best) == 2:
            break
    for i in range(len(best)):
        lo, hi = 0, len(best[i][1])            # smallest length that still fails, by bisection
        while lo < hi:
            mid = (lo + hi) // 2
            cand = list(best)
            cand[i] = (best[i][0], best[i][1][:mid])
            if roundtrip_fails(impl, cand, common, bform):
                hi = mid
            else:
                lo = mid + 1
        best[i] = (best[i][0], best[i][1][:hi])
    return (best, bform) if roundtrip_fails(impl, best, common, bform) else (list(entries), form)


def run_scale_stream(ctx, impl, n_base, n_giant):
    """Returns (case literals for chk_c10, python-oracle failures, records of the literal cases, distribution)."""
    lits, bad, recs, dist = [], [], [], {"orders": 0, "giant_oracle_only": 0, "short_nonempty_before_long": 0}
    for entries, common, desc, in_coq in gen_scale(ctx.rng, n_base, n_giant):
        lens_ = [len(v) for _, v in entries]
        rec = {"entries": [[list(k), v] for k, v in entries], "common": common} if in_coq else \
              {"entries_summary": [[list(k), len(v), v[:3]] for k, v in entries], "common": common, "row_id_lengths": lens_}
        try:
            data = impl.save(entries, common)
        except Exception as e:
            bad.append(dict(rec, stream="scale", form=impl.last_form, what="save raised %s: %s" % (type(e).__name__, e)))
            continue
        form = impl.last_form
        o = impl.load(data)
        why = oracle_roundtrip(entries, common, o)
        if why:
            if not in_coq:
                rec = {"entries": [[list(k), v] for k, v in entries], "common": common}
            got = dict(o[1]) if o[0] == "loaded" else {}
            first = next(([list(k), v[:6], got.get(tuple(k), [])[:6]] for k, v in entries if got.get(tuple(k)) != v), None)
            if not any(b.get("stream") == "scale-shrunk" for b in bad):
                small, sform = shrink_scale(impl, entries, common, form)
                o2 = impl.load(impl.save(small, common, form=sform))
                bad.append({"entries": [[list(k), v] for k, v in small], "common": common, "stream": "scale-shrunk", "row_id_lengths": [len(v) for _, v in small], "form": sform,
                            "what": "%s (shrunk; row-id array lengths in dict order %r)%s" % (oracle_roundtrip(small, common, o2), [len(v) for _, v in small],
                                                                                               form_note(impl, small, common, sform)),
                            "observed": repr(o2)[:300]})
            bad.append(dict(rec, stream="scale", row_id_lengths=lens_, first_entry_that_differs_key_saved_loaded=first, form=form,
                            what="%s (row-id array lengths in dict order %r)" % (why, lens_), observed=repr(o)[:300]))
        dist["orders"] += 1
        dist["short_nonempty_before_long"] += any(0 < a < 64 and any(b >= 64 for b in lens_[i + 1:]) for i, a in enumerate(lens_))
        for l in lens_:
            b = "len0" if l == 0 else "len1-10" if l <= 10 else "len63-65" if 63 <= l <= 65 else "len255-257" if 255 <= l <= 257 else "len>60000" if l > 60000 else "len64-600"
            dist[b] = dist.get(b, 0) + 1
        ctx.nontrivial.add(case_key(entries, common))
        if in_coq:
            lits.append("(%s, %s, %s, %s)" % (lit_entries(entries), core.zlit(common), lit_bytes(data), lit_obs(o)))
            recs.append(rec)
        else:
            dist["giant_oracle_only"] += 1
    return lits, bad, recs, dist


# --------------------------------------------------------------------------
# the implementation on real files
# --------------------------------------------------------------------------

def classify(e):
    msg = str(e)
    if isinstance(e, RuntimeError) and "Unexpected header" in msg:
        return 1
    if isinstance(e, RuntimeError) and "Unexpected indexed format" in msg:
        return 2
    if isinstance(e, struct.error) and msg.startswith("unpack requires"):
        return 3
    if isinstance(e, OverflowError) or (isinstance(e, ValueError) and "mmap" in msg):
        return 4
    return 5


# --------------------------------------------------------------------------
# FORM of the inputs (content unchanged): NumPy-scalar coordinates / common, container type, row-id array layout, file modes.
# Established on the unchanged tree (2026-10-02): save/load handle every form generated here.  NOT generated:
#   * row ids as list / int64 / big-endian arrays, io.BytesIO, a file not at offset 0   - save rejects them (documented checks);
#   (numpy.uint64 coordinates MIXED with signed NumPy scalars or Python ints above 2^53 used to be excluded: FORM FINDING FF1, repaired
#    in /repo as F28 = dcf2b47; the form is generated since then, incl. key pairs that collide after float64 rounding.)
# --------------------------------------------------------------------------

SAVE_MODES = [["wb", -1], ["wb", -1], ["w+b", -1], ["wb", 0], ["r+b", -1], ["ab", -1], ["w+b", 0]]
LOAD_MODES = [["rb", -1], ["rb", -1], ["r+b", -1], ["rb", 0], ["r+b", 0]]
ROW_FORMS = ["contiguous", "contiguous", "column-view", "readonly", "negstride"]


def numpy_bits(d):
    return int(d.lstrip("uint"))


def make_form(rng, entries, common):
    """A JSON-able description of the form in which (entries, common) is handed to save."""
    from .. import forms
    coords = [c for k, _ in entries for c in k]
    r = rng.random()
    if not coords or r < 0.4:
        keys, ktag = [["py"] * len(k) for k, _ in entries], "python-int"
    elif r < 0.75:
        d = rng.choice(forms.int_dtypes_holding(coords))          # every coordinate as a scalar of ONE dtype that holds them all
        keys, ktag = [[d] * len(k) for k, _ in entries], "uniform:" + d
    elif r < 0.85:
        keys = [[min(forms.int_dtypes_holding([c]), key=lambda d: (numpy_bits(d), d)) for c in k] for k, _ in entries]
        ktag = "narrowest-per-scalar"
    else:
        keys = [[rng.choice(forms.int_dtypes_holding([c]) + ["py"]) for c in k] for k, _ in entries]
        ktag = "mixed"
    if coords and max(coords) > 2 ** 53 and len(coords) >= 2 and rng.random() < 0.45:
        # F28 (was FF1): numpy.uint64 scalars above 2^53 next to signed NumPy scalars / Python ints in one key matrix
        keys = [[("uint64" if rng.random() < 0.75 else rng.choice(["py", "int64"])) if c > 2 ** 53 else
                 rng.choice([d for d in forms.int_dtypes_holding([c]) if d.startswith("int")] + ["py", "py"]) for c in k] for k, _ in entries]
        flat = [d for ks in keys for d in ks]
        if "uint64" not in flat:
            i, j = next((i, j) for i, (k, _) in enumerate(entries) for j, c in enumerate(k) if c > 2 ** 53)
            keys[i][j] = "uint64"
        if all(d == "uint64" for ks in keys for d in ks):
            keys[-1][-1] = "py" if keys[-1][-1] == "uint64" and len(flat) > 1 and not (len(keys) == 1 and len(keys[0]) == 1) else keys[-1][-1]
        ktag = "uint64-above-2^53-mixed-with-signed(F28)"
    cform = "py" if rng.random() < 0.6 else rng.choice(forms.int_dtypes_holding([common]))
    return {"keys": keys, "keys_tag": ktag, "common": cform, "container": rng.choice(["dict", "dict", "OrderedDict", "defaultdict"]),
            "rows": [rng.choice(ROW_FORMS) for _ in entries], "save_mode": rng.choice(SAVE_MODES)}


PLAIN_FORM = {"keys": None, "keys_tag": "python-int", "common": "py", "container": "dict", "rows": None, "save_mode": ["wb", -1]}


def sub_form(form, idxs):
    f = dict(form)
    if form.get("keys") is not None:
        f["keys"] = [form["keys"][i] for i in idxs]
    if form.get("rows") is not None:
        f["rows"] = [form["rows"][i] for i in idxs]
    return f


def apply_form(np, entries, common, form):
    """(mapping, common object) with the content of (entries, common) in the given form."""
    import collections

    def scal(v, d):
        return int(v) if d == "py" else np.dtype(d).type(v)

    def rows(v, kind):
        a = np.array(v, dtype=np.uint32)
        if kind == "column-view":
            big = np.zeros((len(a), 2), dtype=np.uint32)
            big[:, 0] = a
            big[:, 1] = 0xFFFFFFFF
            return big[:, 0]
        if kind == "readonly":
            a.setflags(write=False)
            return a
        if kind == "negstride":
            return a[::-1].copy()[::-1]
        return a
    items = []
    for i, (k, v) in enumerate(entries):
        kd = form["keys"][i] if form.get("keys") is not None else ["py"] * len(k)
        items.append((tuple(scal(c, d) for c, d in zip(k, kd)), rows(v, form["rows"][i] if form.get("rows") is not None else "contiguous")))
    cont = form.get("container", "dict")
    if cont == "OrderedDict":
        m = collections.OrderedDict(items)
    elif cont == "defaultdict":
        m = collections.defaultdict(lambda: np.array([], dtype=np.uint32), items)
    else:
        m = dict(items)
    return m, scal(common, form.get("common", "py"))


def form_tags(np, entries, common, form):
    """Tags for the evidence histogram."""
    tags = ["keys:" + form.get("keys_tag", "python-int"), "common:" + ("python-int" if form.get("common", "py") == "py" else "numpy." + form["common"]),
            "container:" + form.get("container", "dict"), "save_mode:%s/buffering=%s" % tuple(form.get("save_mode", ["wb", -1]))]
    for r in sorted(set(form.get("rows") or [])):
        tags.append("rows:" + r)
    if form.get("keys") and entries:
        kd = [d for ks in form["keys"] for d in ks]
        if all(d != "py" for d in kd):
            mat = np.result_type(*[np.dtype(d) for d in kd])
            fitted = narrowest(max_word(entries, common))
            if mat.kind in "iu" and mat.itemsize < fitted:
                tags.append("key-matrix-narrower-than-fitted-word")
            if mat.kind in "iu" and mat.itemsize > fitted:
                tags.append("key-matrix-wider-than-fitted-word")
            if mat.kind == "f":
                tags.append("key-dtypes-promote-to-float64" + ("-above-2^53(F28)" if max_word(entries, 0) > 2 ** 53 else ""))
    return tags


class Impl:
    """Runs the working-tree IndxIO on real files inside ctx.scratch (removed when the check ends).
    With vary_forms=True (default) every save gets a randomly chosen input FORM (make_form) and every load a randomly chosen
    file mode; `last_form` is the form of the last save (recorded with failing inputs; replay passes it back)."""

    def __init__(self, ctx, vary_forms=True):
        ctx.import_catii()
        import collections
        import random
        import numpy
        from catii.indxio import IndxIO
        import catii
        self.np = numpy
        self.IndxIO = IndxIO
        self.catii = catii
        self.dir = os.path.join(ctx.scratch, "indx-files")
        os.makedirs(self.dir, exist_ok=True)
        self.path = os.path.join(self.dir, "f.indx")
        self.u32 = numpy.dtype(numpy.uint32)
        self.forms_rng = random.Random(ctx.rng.random()) if vary_forms else None      # own stream: the content generators are not disturbed
        self.form_hist = collections.Counter()
        self.last_form = dict(PLAIN_FORM)
        self.ctx = ctx

    def to_dict(self, entries):
        return {k: self.np.array(v, dtype=self.np.uint32) for k, v in entries}

    def open_load(self):
        mode, buffering = self.forms_rng.choice(LOAD_MODES) if self.forms_rng else ("rb", -1)
        self.form_hist["load_mode:%s/buffering=%s" % (mode, buffering)] += 1
        return open(self.path, mode, buffering=buffering)

    def save(self, entries, common, form=None):
        """bytes written by the real save (raises what save raises)."""
        if form is None:
            form = make_form(self.forms_rng, entries, common) if self.forms_rng else dict(PLAIN_FORM)
        self.last_form = form
        m, c = apply_form(self.np, entries, common, form)
        for t in form_tags(self.np, entries, common, form):
            self.form_hist[t] += 1
        mode, buffering = form.get("save_mode", ["wb", -1])
        if mode in ("r+b", "ab"):
            if os.path.exists(self.path):
                os.unlink(self.path)
            if mode == "r+b":
                open(self.path, "wb").close()
        with open(self.path, mode, buffering=buffering) as f:
            self.IndxIO.save(f, m, c, self.u32)
        with open(self.path, "rb") as f:
            return f.read()

    def record_forms(self):
        self.ctx.coverage["input_forms"] = dict(sorted(self.form_hist.items()))
        self.ctx.coverage["input_forms_not_generated"] = [
            "row ids as list / int64 / big-endian array (save refuses: dtype check)", "io.BytesIO (no fileno)", "file not at offset 0 (save's length check)"]

    def save_partial(self):
        with open(self.path, "rb") as f:
            return f.read()

    def load(self, data):
        """('loaded', entries, common, itemsize, types_ok) | ('raised', stage class, repr)."""
        with open(self.path, "wb") as f:
            f.write(data)
        with self.open_load() as f:
            try:
                entries, common, dt = self.IndxIO.load(f)
                out = [(tuple(int(c) for c in k), [int(x) for x in v.tolist()]) for k, v in entries.items()]
                types_ok = (type(common) is int
                            and all(type(k) is tuple and all(type(c) is int for c in k) for k in entries)
                            and all(isinstance(v, self.np.ndarray) and v.dtype == self.np.uint32 for v in entries.values()))
                res = ("loaded", out, int(common), int(dt.itemsize), types_ok)
                del entries
                return res
            except Exception as e:  # noqa: any exception type counts as "rejected"
                return ("raised", classify(e), "%s: %s" % (type(e).__name__, e))


# --------------------------------------------------------------------------
# Gallina literals
# --------------------------------------------------------------------------

def lit_entries(entries):
    return "[" + "; ".join("(%s, %s)" % (core.zlist(k), core.zlist(v)) for k, v in entries) + "]"


def lit_obs(o):
    if o[0] == "loaded":
        return "(Loaded %s %s %s)" % (lit_entries(o[1]), core.zlit(o[2]), core.zlit(o[3]))
    return "(Raised %d)" % o[1]


def lit_bytes(b):
    return core.zlist(list(b))


def build_check(ctx):
    """Indx/Check.v is not in the cone of the property files: build it (incremental, under the lock)."""
    ok, log = core.coq_make(["theories/Indx/Check.vo"])
    if not ok:
        raise core.CheckError("Indx/Check.v does not build:\n" + log[-3000:])


def prove(ctx, prop_file):
    pr = ctx.prove(prop_file)
    ctx.assumptions = ["Print Assumptions: " + a for a in pr["assumptions"]]
    ctx.coverage["print_assumptions"] = pr["assumptions"]
    not_closed = [a for a in pr["assumptions"] if a != "Closed under the global context"]
    return pr, (pr["ok"] and not not_closed and len(pr["assumptions"]) > 0)


TRUSTED = [
    "Indx/Save.v, Indx/Load.v are hand-written models of IndxIO.save/load (tied to the code only by the correspondence run here); "
    "fit_dtype enters through the hand model Dtype/FitHand.v (tied by C19)",
    "modelled, not verified: struct.pack/unpack(_from) little-endian formats and their range/short-buffer errors, file.read short reads, "
    "mmap.mmap(fileno, n) refusing n beyond the end of the file and mapping only n bytes of a longer one, numpy.ndarray(buffer=, offset=) bounds check, "
    "ndarray.tolist/astype/tofile, slice clipping, CPython dict insertion/replacement order",
    "int((buffer_length - offset) / itemsize) is float division in the code; the model uses exact integer division (equal below 2^53 bytes)",
    "harness struct-based encoder/decoder (oracle) and the exception-to-stage-class mapping (message based) in harness/props/c10.py",
]


# --------------------------------------------------------------------------
# C10 proper
# --------------------------------------------------------------------------

def oracle_roundtrip(entries, common, o):
    """None if the observed load result is the saved data (property C10), else a description."""
    if o[0] != "loaded":
        return "load raised %s" % o[2]
    if dict((k, v) for k, v in o[1]) != dict((tuple(k), list(v)) for k, v in entries) or len(o[1]) != len(entries):
        return "loaded entries differ from the saved ones"
    if o[2] != common:
        return "loaded common %r != saved %r" % (o[2], common)
    if o[3] != 4:
        return "row-id dtype itemsize %r != 4" % (o[3],)
    if not o[4]:
        return "loaded parts are not plain ints / uint32 arrays"
    return None


def reachable_indexes(impl, rng, n):
    """Indexes produced by the library itself (from_array on small 1-D/2-D arrays, some with an explicit common)."""
    np = impl.np
    out = []
    for _ in range(n):
        rows = rng.randint(0, 7)
        if rng.random() < 0.5:
            arr = np.array([rng.choice([0, 1, 2, 3, 300, 70000]) for _ in range(rows)], dtype=np.int64)
        else:
            cols = rng.randint(1, 3)
            arr = np.array([[rng.choice([0, 1, 2, 5, 256]) for _ in range(cols)] for _ in range(rows)], dtype=np.int64).reshape(rows, cols)
        try:
            if rng.random() < 0.3:
                idx = impl.catii.iindex.from_array(arr, common=int(rng.choice([0, 1, 9, 2 ** 40])))
            else:
                idx = impl.catii.iindex.from_array(arr)
            idx.validate(check_comprehensive_unique=True)
        except Exception:
            continue   # from_array's own domain (C01) - not this property's business
        out.append(idx)
    return out


def run_stream(ctx, impl, n_gen):
    """Returns (case literals, python-oracle failures, records)."""
    lits, bad, recs = [], [], []
    dist = {}
    for i in range(n_gen):
        entries, common, desc = gen_entries(ctx.rng)
        rec = {"entries": [[list(k), v] for k, v in entries], "common": common}
        try:
            data = impl.save(entries, common)
        except Exception as e:
            form = impl.last_form
            bad.append(dict(rec, form=form, what="save raised %s: %s%s" % (type(e).__name__, e, form_note(impl, entries, common, form))))
            continue
        form = impl.last_form
        o = impl.load(data)
        why = oracle_roundtrip(entries, common, o)
        if why:
            bad.append(dict(rec, form=form, what=why + (form_note(impl, entries, common, form)), observed=repr(o)[:600]))
        lits.append("(%s, %s, %s, %s)" % (lit_entries(entries), core.zlit(common), lit_bytes(data), lit_obs(o)))
        recs.append(rec)
        ctx.nontrivial.add(case_key(entries, common))
        key = "arity%d/coord%d/common%d" % (desc["arity"], desc["coord_class"], desc["common_class"])
        dist[key] = dist.get(key, 0) + 1
        dist["entries=%d" % desc["n"]] = dist.get("entries=%d" % desc["n"], 0) + 1
        if any(len(v) == 0 for _, v in entries):
            dist["has_empty_rowids"] = dist.get("has_empty_rowids", 0) + 1
    return lits, bad, recs, dist


SCALES = [1, 1, 1, 257, 65537, 2 ** 33 + 1, 2 ** 59]


def history_indexes(ctx, impl, n_hist):
    """Well-formed real indexes reached by the C06 history generator (every intermediate and final state whose
    values are unsigned - INDX stores unsigned integers only), deduplicated; some re-labelled (value -> value * M,
    built with the real constructor) so that the index word is 2, 4 or 8 bytes wide."""
    rng = ctx.rng
    seen = {}
    try:
        from .. import iindex_hist as ih
        himpl = ih.Impl(impl.catii)
    except Exception as e:  # noqa
        HELPER_PROBLEMS.append("history generator unavailable: %s: %s" % (type(e).__name__, e))
        return []
    for _ in range(n_hist):
        try:
            h = ih.run_history(himpl, rng, 6, dims3=(rng.random() < 0.25), with_eq=False)
            cands = [("init:" + h.init["via"], ih.build(himpl, h.init["spec"]))]
            for st in h.steps:
                if not st.raised and not st.problems and isinstance(st.result, himpl.iindex):
                    cands.append(("history:" + str(st.op.get("op") if isinstance(st.op, dict) else "op"), st.result))
        except Exception as e:   # noqa  the history machinery objecting is C06/C07's business
            if len(HELPER_PROBLEMS) < 3:
                HELPER_PROBLEMS.append("history generator raised %s: %s" % (type(e).__name__, str(e)[:200]))
            continue
        for via, idx in cands:
            try:
                sp = ih.spec_of(idx)
                if sp["common"] < 0 or any(k[0] < 0 for k, _ in sp["entries"]):
                    continue
                m = rng.choice(SCALES)
                if m != 1:
                    sp = {"entries": [[[k[0] * m] + k[1:], rows] for k, rows in sp["entries"]], "common": sp["common"] * m, "shape": sp["shape"]}
                    idx = ih.build(himpl, sp)
                    via += "*%d" % m
                if ih.py_wf(idx):
                    continue
            except Exception as e:  # noqa
                if len(HELPER_PROBLEMS) < 3:
                    HELPER_PROBLEMS.append("iindex_hist helper failed: %s: %s" % (type(e).__name__, str(e)[:200]))
                continue
            key = json.dumps(sp)
            if key not in seen:
                seen[key] = (via, idx, sp)
    return list(seen.values())


def oracle_index(impl, idx, sp, o):
    """Property C10, second sentence, on real objects: the loaded parts rebuild an index equal to the one saved that validates."""
    entries = [(tuple(k), rows) for k, rows in sp["entries"]]
    why = oracle_roundtrip(entries, sp["common"], o)
    if why:
        return why
    with open(impl.path, "rb") as f:
        e2, c2, _ = impl.IndxIO.load(f)
        try:
            idx2 = impl.catii.iindex(e2, c2, idx.shape)
            idx2.validate(check_comprehensive_unique=True)
            if not (idx2 == idx) or (idx2 != idx):
                return "rebuilt index != saved index"
        except Exception as e:  # noqa
            return "rebuilt index fails validation: %s: %s" % (type(e).__name__, e)
        finally:
            del e2
        # independent statements of the same (helpers of another vertical: a failure THERE is not a verdict)
        try:
            from .. import iindex_hist as ih
            w = ih.py_wf(idx2)
            same_dense = bool((ih.densify(ih.spec_of(idx2)) == ih.densify(sp)).all())
        except Exception as e:  # noqa
            HELPER_PROBLEMS.append("iindex_hist helper failed: %s: %s" % (type(e).__name__, e))
            return None
        if w:
            return "rebuilt index is ill-formed: " + w
        if not same_dense:
            return "rebuilt index has a different dense content"
    return None


HELPER_PROBLEMS = []


def spec_of(idx):
    """A real iindex as plain data: entries in dict order, common, shape."""
    return {"entries": [[[int(c) for c in k], [int(r) for r in v.tolist()]] for k, v in dict.items(idx)],
            "common": int(idx.common), "shape": [int(x) for x in idx.shape]}


def lit_index(sp):
    ents = "[" + "; ".join("((%s, %s), %s)" % (core.zlit(k[0]), core.zlist(k[1:]), core.zlist(rows)) for k, rows in sp["entries"]) + "]"
    return "(Build_iindex %s %s %s %s)" % (ents, core.zlit(sp["common"]), core.zlit(sp["shape"][0]), core.zlist(sp["shape"][1:]))


def run_index_stream(ctx, impl, n_from_array, n_hist, n_scale=0):
    """Real iindex objects: from_array and history-reached states.  Returns (literals, failures, records, distribution)."""
    lits, bad, recs, dist = [], [], [], {}
    todo = [("iindex.from_array", idx, spec_of(idx)) for idx in reachable_indexes(impl, ctx.rng, n_from_array)]
    todo = [t for t in todo if t[2]["common"] >= 0 and all(k[0] >= 0 for k, _ in t[2]["entries"])]
    todo += history_indexes(ctx, impl, n_hist)
    todo += [("iindex.from_array(scale)", idx, spec_of(idx)) for idx in scale_indexes(impl, ctx.rng, n_scale)]
    for via, idx, sp in todo:
        rec = {"entries": sp["entries"], "common": sp["common"], "shape": sp["shape"], "from": via}
        try:
            with open(impl.path, "wb") as f:
                impl.IndxIO.save(f, idx, idx.common, idx.rowid_dtype)
            data = impl.save_partial()
        except Exception as e:
            bad.append(dict(rec, what="save of a well-formed index raised %s: %s" % (type(e).__name__, e)))
            continue
        o = impl.load(data)
        why = oracle_index(impl, idx, sp, o)
        if why:
            bad.append(dict(rec, what=why, observed=repr(o)[:600]))
        lits.append("(%s, %s, %s)" % (lit_index(sp), lit_bytes(data), lit_obs(o)))
        recs.append(rec)
        ctx.nontrivial.add(("idx", json.dumps(sp)))
        kind = "from_array" if via == "iindex.from_array" else "from_array_100-2000rows" if via.endswith("(scale)") else "history"
        dist["%s/%dD/word%d" % (kind, len(sp["shape"]), narrowest(max([sp["common"]] + [k[0] for k, _ in sp["entries"]])))] = \
            dist.get("%s/%dD/word%d" % (kind, len(sp["shape"]), narrowest(max([sp["common"]] + [k[0] for k, _ in sp["entries"]]))), 0) + 1
    return lits, bad, recs, dist


def run(ctx):
    ctx.rule = ("(d) entries dicts: arity 1..4 x 0..6 entries x coordinate class x common class (<=255, <=65535, <2^32, <2^63, independent, "
                "boundary-biased) x row-id arrays of length 0..6 over {0,1,255,256,65535,65536,2^31,2^32-1,random}; (i) real iindex objects: "
                "built by iindex.from_array and every well-formed unsigned state reached by C06-generator operation histories (1-D/2-D/3-D), "
                "some re-labelled to 2/4/8-byte values, and from_array on skewed 100..2000-row arrays (long and short entries); (s) scale: dicts of 2..8 entries "
                "mixing short (0..10) and long (64..600, exactly 63/64/65, 255/256/257) strictly increasing row-id arrays up to 2^32-1 in every dict order "
                "(all permutations for <= 3 entries; else as generated / reversed / short-first / long-first / 2 shuffles), plus dicts with one ~70 000-id "
                "array (judged by the direct oracle only); a case is distinct per (entries in dict order, common[, shape]); every case is saved and loaded for real; the FORM of the "
                "input varies in ~60%% of the dict cases with the content unchanged (coordinates as NumPy scalars of one / the narrowest / mixed dtypes, common as NumPy scalar, "
                "dict / OrderedDict / defaultdict, row-id arrays contiguous / column view / read-only / negative-stride-copy, file modes wb w+b r+b ab unbuffered; "
                "load modes rb r+b unbuffered; numpy.uint64 scalars above 2^53 mixed with signed scalars / Python ints, and key pairs base / base+1 above 2^53 that "
                "collide under float64 rounding (F28)) - tags counted in coverage.input_forms" % ())
    ctx.trusted = list(core.STD_TRUSTED) + TRUSTED
    pr, proof_ok = prove(ctx, "C10.v")
    build_check(ctx)
    impl = Impl(ctx)
    n_gen, n_idx, n_hist, n_sbase, n_giant, n_sidx = (600, 120, 150, 10, 1, 10) if ctx.tier == "quick" else (20000, 2000, 3000, 150, 6, 120)
    lits, bad, recs, dist = run_stream(ctx, impl, n_gen)
    ilits, ibad, irecs, idist = run_index_stream(ctx, impl, n_idx, n_hist, n_sidx)
    slits, sbad, srecs, sdist = run_scale_stream(ctx, impl, n_sbase, n_giant)
    ctx.evaluations = len(lits) + len(ilits) + sdist["orders"]
    ctx.coverage["scale_stream_distribution"] = dict(sorted(sdist.items()))
    impl.record_forms()
    ctx.samples = recs[:3] + irecs[:1] + irecs[-1:] + [{"scale_case_row_id_lengths": [len(v) for _, v in srecs[0]["entries"]], "common": srecs[0]["common"]}] if srecs else recs[:3] + irecs[:3]
    ctx.coverage["input_distribution"] = dict(sorted(dist.items()))
    ctx.coverage["index_stream_distribution"] = dict(sorted(idist.items()))
    ctx.coverage["real_indexes_round_tripped"] = len(ilits)
    if HELPER_PROBLEMS:
        ctx.notes.extend(sorted(set(HELPER_PROBLEMS))[:5])
        ctx.coverage["history_stream_problems"] = sorted(set(HELPER_PROBLEMS))[:5]
    quick = ctx.tier == "quick"
    res = core.run_cases("c10", PRELUDE, lits, "entries_t * Z * list Z * obs", "chk_c10", "explain_c10", shard_size=100 if quick else 1300)
    ires = core.run_cases("c10i", "From Catii Require Import IIndex.Model Indx.Rebuild.\n" + PRELUDE, ilits, "iindex * list Z * obs", "chk_c10_idx", "explain_c10_idx",
                          shard_size=100 if quick else 1300)
    sres = core.run_cases("c10s", PRELUDE, slits, "entries_t * Z * list Z * obs", "chk_c10", "explain_c10", shard_size=4 if quick else 12)
    ctx.coverage["model_disagreements"] = {"dicts": len(res.failing), "indexes": len(ires.failing), "scale_dicts": len(sres.failing)}
    ctx.coverage["coq_case_shards_failed"] = len(res.errors) + len(ires.errors) + len(sres.errors)
    ctx.coverage["tie"] = ("W2 inside Coq: chk_c10 (real save bytes = model save bytes, real load result = model load result = input); chk_c10_idx (real index "
                           "states satisfy wf_b and storable_b, same bytes, same load result, rebuild (load bytes) = the index saved)")

    class Merged:
        pass
    m = Merged()
    m.failing = list(res.failing) + [len(recs) + i for i in ires.failing] + [len(recs) + len(irecs) + i for i in sres.failing]
    m.errors = res.errors + ires.errors + sres.errors
    m.explain = "\n".join(x[-2000:] for x in (res.explain, ires.explain, sres.explain) if x)
    verdict(ctx, "C10", pr, proof_ok, bad + ibad + sbad, m, recs + irecs + srecs, "roundtrip:not-identity", "save then load did not return the saved data")


def verdict(ctx, prop, pr, proof_ok, bad, res, recs, sig, what):
    if bad:
        bad = sorted(bad, key=lambda r: len(json.dumps(r, default=str)))
        ctx.report(sig, what + ": " + bad[0]["what"], {"failing_inputs": bad[:10], "count": len(bad),
                   "how": "IndxIO on real files, judged by the direct oracle / struct-based encoder-decoder (no model involved)"})
    elif res.failing or res.errors or not proof_ok:
        w = []
        if not proof_ok:
            w.append("proof obligation no longer checks: Properties/%s.v (%s)" % (prop, (pr["log"] or "")[-300:] if not pr["ok"] else "assumptions not closed: %s" % pr["assumptions"]))
        if res.failing:
            w.append("correspondence suite %s: %d cases where the code differs from the model" % (prop.lower(), len(res.failing)))
        if res.errors:
            w.append("correspondence shards failed to evaluate: %s" % (res.errors[0][1][-400:],))
        ctx.report(prop.lower() + ":not-shown", "; ".join(w), {
            "broken_proof_log": (pr["log"] or "")[-2500:] if not pr["ok"] else "",
            "disagreeing_cases": [recs[i] for i in res.failing[:10] if i < len(recs)], "explain": res.explain[-3000:],
            "search": "the direct oracle found no failing input among the %d generated cases" % len(recs)}, found_input=False)


def replay(ctx, path):
    r = json.load(open(path))
    impl = Impl(ctx)
    ctx.level = "exploration"
    ctx.rule = "replay of recorded failing inputs"
    still = []
    for c in r.get("failing_inputs", []):
        entries = [(tuple(k), list(v)) for k, v in c["entries"]]
        try:
            o = impl.load(impl.save(entries, c["common"], form=c.get("form") or dict(PLAIN_FORM)))
            why = oracle_roundtrip(entries, c["common"], o)
        except Exception as e:
            why = "save raised %s: %s" % (type(e).__name__, e)
        print("entries=%r common=%r form=%s -> %s" % (str(c["entries"])[:300], c["common"], describe_form(c.get("form") or PLAIN_FORM), why or "round trip ok"))
        if why:
            still.append(dict(c, what=why))
    ctx.evaluations = len(r.get("failing_inputs", []))
    ctx.nontrivial.update(range(max(2, ctx.evaluations)))
    if still:
        ctx.report("roundtrip:not-identity", "replayed failing input still fails: " + still[0]["what"], {"failing_inputs": still})
