"""C04 - the missing-cell rule and the three missing-value report formats agree.

Proof : Properties/C04.v  (missing_rule_A for both cube models: a cell is missing <-> no row, or all / any of its rows
        missing, or - mean - the valid weights sum to zero; formats_agree_A: NaN in place, (sentinel, False) and a plain
        replacement value are computed from the same (value, missing) cells; the valid_count + plain 0 shortcut stated
        for what it is).
Tie W2: every generated call is made on the real ccube AND the real xcube under EVERY return_missing_as in
        {NaN, (0,False), (7,False), (-3,False), (2.5,False), 0}; the outputs are compared (a) with each other, format
        against format and cube against cube, without any model, (b) with the exact per-cell oracle, (c) INSIDE Coq with
        FFuncs.ccube_report / XCube.xcube_report / Direct (AggCheck.agg_check_any).
Excluded (property text): valid_count with a plain replacement value under propagation.
"""
from .. import core
from .. import cube_aggs as ca

THEOREMS = ["C04_missing_rule_spec", "C04_missing_rule_ccube", "C04_missing_rule_xcube", "C04_formats_agree_cell", "C04_formats_agree"]
HOW = ("case_from_json(case); for every format: cube_aggs.run_cube(catii, case, 'c'|'x', format); the missing cells of the NaN and "
       "(sentinel, False) outputs must be the oracle's missing cells, values equal elsewhere, the plain output = values with the "
       "replacement in the missing cells")


def formats_of(c):
    return [f for f in ca.FORMATS if not ca.is_shortcut(c, f)]


def cross_check(c, outs):
    """outs: {(which, fmt): abstracted cells}.  Model-free: all NaN/pair outputs identical (missing marks exactly);
    the plain output equals any of them with the replacement value in the missing cells."""
    ref_key = next((k for k in outs if k[1][0] != "plain"), None)
    if ref_key is None:
        return None
    ref = outs[ref_key]
    for k, cells in outs.items():
        if k == ref_key or cells is None or ref is None:
            continue
        if len(cells) != len(ref):
            continue                      # inferred shapes of the two cube types may differ (common beyond the data)
        if k[1][0] == "plain":
            if c["kind"] == "valid_count" and k[1][1] == 0:
                continue                  # shortcut (ignore_missing=True here): judged by the oracle
            from fractions import Fraction as Fr
            want = [[Fr(k[1][1]) if x is None else x for x in row] for row in ref]
        else:
            want = ref
        d = ca.compare(c, cells, want, exact=not c.get("float_stream"))
        if d:
            return "%scube %s vs %scube %s: %s" % (k[0], list(k[1]), ref_key[0], list(ref_key[1]), d)
    return None


def run(ctx):
    thorough = ctx.tier == "thorough"
    rng = ctx.rng
    ctx.rule = ("the C03 generator (aggregate x 0-3 dims x fact form/columns/dtype x weights x policy x xcube dtype x explicit/inferred "
                "shape, hidden values NaN/inf/garbage, plus boundary-extent, zero-dimension, weight-spread (2**20..2**40 next to 0.25..7, exact) "
                "and decimal-weights (0.9, 1.2 ...; tolerance, judged by the oracle and the cross-format comparison only) streams, a scale stream (N in 30..120 rows, lopsided dimensions) and a many-columns case, sent to Coq only while the "
                "literal stays small, else oracle-only (counted separately)), every call repeated under the "
                "six report formats NaN, (0,False), (7,False), (-3,False), (2.5,False), plain 0 on both cube types; valid_count + plain + "
                "propagation is excluded; an int-weights stream (integer weights 0..250, sums crossing 128/256, narrow integer dtypes); the FORM of every argument varies "
                "in about 60 % of the cases exactly as in C03 (dtype / layout / container; tags form:* in the distribution; same exclusions); "
                "a relations stream (kept cube objects mutated in place between evaluations, shared objects, repeated / re-ordered calls) and a big stream (xcube on 100 000-300 000 rows, facts 1-D and (N,K) K in 1..8, missing values in non-last columns, both policies, all six formats; vectorised NumPy oracle, no Coq literal); a case = one (call, format) literal; non-trivial when the cube has a cell with rows of which "
                "some but not all are missing (the any/all distinction) or a cell whose valid weights sum to zero")
    ctx.trusted = list(core.STD_TRUSTED) + [
        "as C03 (NumPy primitives modelled; cubes beyond 1024 cells compared through theorem ffunc_A_direct)",
        "harness/cube_aggs.abstract_output: a missing cell is NaN (NaN format) / validity False with the sentinel stored (pair format); "
        "the plain format has no missing marks"]
    pr = ctx.prove("C04.v")
    ctx.assumptions = ["Print Assumptions: " + a for a in pr["assumptions"]] + [
        "as C03: 0 <= N, dim_wf, covers, dense values inside the extents, prod extents <= 2^32-1, count without / others with a fact",
        "excluded by the property: valid_count with a plain replacement value under propagation (theorem C04_valid_count_plain0_shortcut "
        "states what the models return there)"]
    ctx.coverage["print_assumptions"] = pr["assumptions"]
    catii = ctx.import_catii()
    S = ca.Suite(ctx, catii)
    n_mixed = 0

    def mixed_cells(c):
        """does some cell hold both a valid and a missing row (any/all decided on it), or valid weights summing to 0?"""
        orc_any = ca.oracle(dict(c, ign=False))
        orc_all = ca.oracle(dict(c, ign=True))
        return any(a != b for la, lb in zip(orc_any, orc_all) for (_, a), (_, b) in zip(la, lb))

    def one(c, tag):
        nonlocal n_mixed
        dims = ca.build_dims(catii, c)
        outs = {}
        S.count("stream:" + tag)
        S.count("kind:" + c["kind"])
        mixed = len(c["exts"]) <= 3 and (c.get("boundary") is None) and not c.get("many_columns") and mixed_cells(c)
        n_mixed += mixed
        for fmt in formats_of(c):
            S.count("format:" + "/".join(str(x) for x in fmt))
            n0 = len(S.lits)
            rc, rx = S.call(c, fmt, dims=dims, tag=tag, to_coq=ca.literal_is_small(c))
            if mixed and len(S.lits) > n0:
                ctx.nontrivial.add(S.lits[-1])
            for w, res in (("c", rc), ("x", rx)):
                if res and res.get("cells") is not None:
                    outs[(w, fmt)] = res["cells"]
        if not any(f["case"] == ca.case_json(c) for f in S.found[-12:]):
            d = cross_check(c, outs)
            if d:
                S.fail(c, ("nan",), "formats", d)
        return outs

    n_rand = 12000 if thorough else 700
    for i in range(n_rand):
        c = ca.gen_case(rng)
        outs = one(c, "random")
        if i < 2:
            ctx.samples.append({"case": ca.case_json(c), "outputs": {"%s:%s" % (k[0], "/".join(str(x) for x in k[1])): [[None if v is None else float(v) for v in row] for row in cells[:8]]
                                                                     for k, cells in outs.items() if cells is not None}})
    shapes = list(ca.BOUNDARY_SHAPES) + list(ca.EXTRA_BOUNDARY_SHAPES)
    for rep in range(4 if thorough else 1):
        for shp in shapes[::1 if thorough else 2]:
            one(ca.boundary_case(rng, shape=shp), "boundary")
    for rep in range(12 if thorough else 3):
        for kind in ca.KINDS:
            one(ca.zero_dim_case(rng, kind), "zero-dim")

    for i in range(1200 if thorough else 90):
        one(ca.spread_case(rng), "weight-spread")
    for i in range(1500 if thorough else 110):
        one(ca.decimal_case(rng, absent=(i % 2 == 0)), "decimal-weights")

    for i in range(1500 if thorough else 120):
        rc_ = ca.relations_case(rng)
        ca.run_relations(S, rc_, rng.choice(formats_of(rc_)))
    for i in range(1200 if thorough else 110):
        one(ca.int_weights_case(rng), "int-weights")
    for i in range(500 if thorough else 40):
        one(ca.int_weights_case(rng, kind=ca.KINDS[i % 4] if i % 2 else "count", scalar=True), "int-scalar-weight")
    for i in range(80 if thorough else 8):
        one(ca.max_common_case(rng), "common-at-dtype-max")
    for i in range(400 if thorough else 40):
        one(ca.scale_case(rng, decimal=(i % 3 == 2)), "scale")
    for i in range(10 if thorough else 1):
        one(ca.many_columns_case(rng), "many-columns")
    for i in range(32 if thorough else 6):
        ca.run_big(S, ca.big_params(rng, i), ca.FORMATS)
    ctx.coverage["oracle_only_calls"] = S.oracle_only
    ctx.coverage.update({"real_calls": S.calls, "calls_compared_in_coq": len(S.lits), "cubes_with_an_any_vs_all_cell": n_mixed,
                         "distribution": dict(sorted(S.dist.items()))})
    ctx.evaluations = len(S.lits) + S.oracle_only
    shard = 2000 if thorough else 150
    S.spread(shard)
    res = core.run_cases("c04", ca.PRELUDE, S.lits, ca.CASE_TYPE, ca.CHECK_EXPR, ca.EXPLAIN_EXPR, shard_size=shard)
    ca.conclude(ctx, "C04", pr, S, res, THEOREMS, HOW)


def replay(ctx, path):
    def rejudge(catii, c, fmt, it):
        out, outs = [], {}
        for f in formats_of(c):
            for w in "cx":
                res = ca.run_cube(catii, c, w, f)
                want = ca.inferred_shapes(c)[0 if w == "c" else 1] if c["shape_mode"] == "inferred" else None
                b = ca.judge(c, w, f, res, shape_expected=want)
                if b:
                    out.append("%scube %s: %s" % (w, list(f), b))
                if res.get("cells") is not None:
                    outs[(w, f)] = res["cells"]
        d = cross_check(c, outs)
        if d:
            out.append(d)
        return "; ".join(out[:3]) or None
    r, bad = ca.replay_inputs(ctx, path, rejudge)
    if bad:
        ctx.report(r.get("signature", "c04:replay"), "replayed failing input still fails", {"failing_inputs": bad})
