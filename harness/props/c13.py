"""C13 - extra axes are outermost, in order, and index independent sub-cubes.

Proof: Properties/C13.v (stacking algorithm of ccube/xcube.calculate for any sub-cube computation).
Tie W2: (a) real ccube.product() (coords + 1-D slices from slices1d) vs `product (map slices_of_index ..)`;
        (b) real xcube.product vs `all_hcs (scaffold_shape ..)`; (c) real output shapes vs
        `scaffold_shape ++ interacting ++ fact columns` - all three compared inside Coq;
        (d) the assumption the theorem is parametric in - reduce acts block-wise - is tied by comparing,
        on the real code, every block result[j] with the same aggregate over the dims sliced at j
        (this is also the property oracle used when anything else breaks).
"""
import itertools
import json

import numpy

from .. import core
from ..absidx import idx_lit, idx_json, lst
from .. import forms

AGGS = ["count", "valid_count", "sum", "mean"]


def gen_case(rng, thorough):
    N = rng.choice([0, 1, 2, 3, 4, 5, 6, 6, 9, 12])
    ndims = rng.choice([1, 1, 2, 2, 3])
    shapes = []
    for d in range(ndims):
        extra = rng.choice([(), (rng.randint(1, 4),), (rng.randint(1, 3), rng.randint(1, 4))])
        shapes.append(extra)
    if all(len(s) == 0 for s in shapes):
        shapes[rng.randrange(ndims)] = (rng.randint(1, 4),)
    # keep the number of sub-cubes moderate
    while numpy.prod([e for s in shapes for e in s]) > (48 if thorough else 24):
        i = rng.randrange(ndims)
        shapes[i] = shapes[i][:-1] if len(shapes[i]) > 1 else (min(shapes[i][0], 2),) if shapes[i] else ()
        if all(len(s) == 0 for s in shapes):
            shapes[0] = (2,)
    ext = rng.choice([2, 3])
    arrs = []
    for s in shapes:
        a = numpy.array([rng.randrange(ext) for _ in range(N * int(numpy.prod(s, dtype=int)))], dtype=int).reshape((N,) + s)
        arrs.append(a)
    commons = [rng.choice([None, 0, ext - 1, ext]) for _ in shapes]  # ext = absent from data
    K = rng.choice([None, None, 2])
    fshape = (N,) if K is None else (N, K)
    fact = numpy.array([rng.choice([0.5, 1.0, 2.0, -1.5, 3.0, float("nan")]) for _ in range(int(numpy.prod(fshape)))]).reshape(fshape)
    weights = rng.choice([None, None, "arr", "spread"])
    if weights == "arr":
        weights = numpy.array([rng.choice([0.0, 1.0, 0.5, 2.0, float("nan")]) for _ in range(N)])
    elif weights == "spread":
        # weights spanning many orders of magnitude (and ordinary decimals): a block must not depend on how large
        # the cells of the OTHER blocks are (e.g. a zero test whose tolerance is scaled by the whole stacked array)
        weights = numpy.array([rng.choice([1e9, 2.0 ** 30, 12.5, 0.1, 0.3, 1.7, 1e-3, 0.0, float("nan")]) for _ in range(N)])
    explicit = rng.random() < 0.5
    ishape = tuple([ext + 1] * ndims) if (explicit or any(c == ext for c in commons)) else tuple([ext] * ndims)
    return dict(N=N, shapes=shapes, arrs=arrs, commons=commons, fact=fact, weights=weights, ishape=ishape,
                ignore=rng.random() < 0.5, fmt=rng.choice(["nan", "tuple", "plain0"]))


def build_dims(iindex, arrs, commons):
    dims = []
    for a, com in zip(arrs, commons):
        if a.ndim <= 2:
            dims.append(iindex.from_array(a, common=com) if (com is not None or a.size) else iindex({}, 0, a.shape))
        else:
            # from_array handles 1-D/2-D; build 3-D directly from the dense array
            com3 = com if com is not None else 0
            ents = {}
            for hc in itertools.product(*[range(e) for e in a.shape[1:]]):
                col = a[(slice(None),) + hc]
                for v in sorted(set(col.tolist())):
                    if v != com3:
                        ents[(int(v),) + hc] = numpy.nonzero(col == v)[0].astype(numpy.uint32)
            dims.append(iindex(ents, com3, a.shape))
    return dims


HISTORY_OPS = ["difference_update-whole-entry", "difference_update-part", "del", "pop", "setitem-shorter", "union_update-common-rows"]


def gen_history_op(rng, dims):
    """One legitimate IN-PLACE change of a multi-axis dimension, as a JSON-able record (None when there is nothing to change)."""
    cands = [k for k, d in enumerate(dims) if len(d.shape) >= 2 and len(d) > 0]
    if not cands:
        return None
    k = rng.choice(cands)
    d = dims[k]
    key = rng.choice(sorted(dict.keys(d)))
    rows = [int(x) for x in d[key]]
    op = rng.choice(HISTORY_OPS)
    if op in ("difference_update-part", "setitem-shorter") and len(rows) < 2:
        op = "difference_update-whole-entry"
    rec = {"dim": k, "op": op, "key": [int(x) for x in key]}
    if op == "difference_update-part":
        rec["rows"] = sorted(rng.sample(rows, rng.randint(1, len(rows) - 1)))
    elif op == "setitem-shorter":
        rec["rows"] = sorted(rng.sample(rows, rng.randint(1, len(rows) - 1)))
    elif op == "union_update-common-rows":
        used = set()
        for kk, rr in dict.items(d):
            if tuple(kk[1:]) == tuple(key[1:]):
                used.update(int(x) for x in rr)
        free = [r for r in range(d.shape[0]) if r not in used]
        if not free:
            rec["op"] = "difference_update-whole-entry"
        else:
            rec["rows"] = sorted(rng.sample(free, rng.randint(1, len(free))))
    return rec


def apply_history_op(dims, rec):
    d = dims[rec["dim"]]
    key = tuple(rec["key"])
    arr = lambda xs: numpy.array(xs, dtype=numpy.uint32)
    op = rec["op"]
    if op == "difference_update-whole-entry":
        d.difference_update({key: d[key]})
    elif op == "difference_update-part":
        d.difference_update({key: arr(rec["rows"])})
    elif op == "del":
        del d[key]
    elif op == "pop":
        d.pop(key)
    elif op == "setitem-shorter":
        d[key] = arr(rec["rows"])
    elif op == "union_update-common-rows":
        d.union_update({key: arr(rec["rows"])})


def history_blocks(ccube, cube, dims, c, agg):
    """[(block j, observed, cube over the dims sliced at j NOW)] for the index cube `cube` over `dims`."""
    res = call(cube, agg, c, c["fmt"])
    out = []
    for j in itertools.product(*[range(e) for d in dims for e in d.shape[1:]]):
        pos, sub = 0, []
        for d in dims:
            n = len(d.shape) - 1
            hc = j[pos:pos + n]
            pos += n
            sub.append(d.sliced(*hc) if hc else d)
        want = call(ccube(sub, interacting_shape=c["ishape"]), agg, c, c["fmt"])
        out.append((j, block(res, j), want))
    return out


def call(cube, agg, c, fmt):
    rma = float("nan") if fmt == "nan" else ((0, False) if fmt == "tuple" else 0)
    kw = dict(ignore_missing=c["ignore"], return_missing_as=rma)
    if agg == "count":
        return cube.count(weights=c["weights"], **kw)
    return getattr(cube, agg)(c["fact"], weights=c["weights"], **kw)


def same(a, b):
    if isinstance(a, tuple):
        return len(a) == len(b) and all(same(x, y) for x, y in zip(a, b))
    a, b = numpy.asarray(a), numpy.asarray(b)
    if a.shape != b.shape:
        return False
    if a.dtype.kind in "fc" or b.dtype.kind in "fc":
        return bool(numpy.allclose(a, b, rtol=1e-12, atol=0, equal_nan=True))
    return bool(numpy.array_equal(a, b))


def block(res, j):
    if isinstance(res, tuple):
        return tuple(r[j] for r in res)
    return res[j]


def run(ctx):
    catii = ctx.import_catii()
    from catii import ccube, iindex, xcube
    thorough = ctx.tier == "thorough"
    ncases = 2500 if thorough else 400
    ctx.rule = ("random dimension lists (1-3 dims, each 1-, 2- or 3-axis with extra extents 1..4, >=1 multi-axis; N 0..12; commons "
                "library-chosen/frequent/rare/absent; explicit or minimal interacting shape; weights none / small dyadic / spanning 12 orders of magnitude "
                "with decimals; report formats NaN, (0, False), plain 0); for each: ccube.product, xcube.product, output "
                "shape and EVERY block of count/valid_count/sum/mean in both cube types vs the aggregate over the dims sliced at that block. "
                "A case is distinct by (shapes, data, commons); non-trivial when it has >= 2 sub-cubes")
    ctx.trusted = list(core.STD_TRUSTED) + [
        "assumption tied by run-time comparison only: each aggregate's reduce() acts block-wise (commutes with selecting a block of the stacked regions)",
        "index-cube slices: IIndex slices1d is compared with the specification slices `slices_of_index` on every case (W2)"]
    pr = ctx.prove("C13.v")
    ctx.assumptions = ["Print Assumptions: " + a for a in pr["assumptions"]]
    ctx.coverage["print_assumptions"] = pr["assumptions"]

    prod_cases, arr_cases, shape_cases = [], [], []
    meta = []
    oracle_fail = []
    dist = {"subcubes": {}, "ndims": {}, "axes": {}, "xcube_array_form": {}}
    blocks_compared = 0
    for ci in range(ncases):
        c = gen_case(ctx.rng, thorough)
        dims = build_dims(iindex, c["arrs"], c["commons"])
        # a RELATION between arguments: the very same index object (and dense array) listed as two dimensions of one cube
        # (a memo keyed by id(dim), or a generator shared by two positions, only shows then)
        if len(dims) >= 1 and ctx.rng.random() < 0.2 and numpy.prod([e for s in c["shapes"] for e in s] + [e for e in c["shapes"][0]], dtype=int) <= (48 if thorough else 24):
            k = ctx.rng.randrange(len(dims))
            pos = ctx.rng.randrange(len(dims) + 1)
            dims.insert(pos, dims[k])
            for key in ("shapes", "arrs", "commons"):
                c[key].insert(pos, c[key][k if k < pos else k])
            c["ishape"] = tuple(list(c["ishape"])[:pos] + [c["ishape"][k if k < pos else k - 0]] + list(c["ishape"])[pos:])
            c["same_object_twice"] = True
            dist["same_object_twice"] = dist.get("same_object_twice", {})
            dist["same_object_twice"]["yes"] = dist["same_object_twice"].get("yes", 0) + 1
        nsub = int(numpy.prod([e for s in c["shapes"] for e in s], dtype=int))
        dist["subcubes"][nsub] = dist["subcubes"].get(nsub, 0) + 1
        dist["ndims"][len(dims)] = dist["ndims"].get(len(dims), 0) + 1
        for s in c["shapes"]:
            dist["axes"][len(s) + 1] = dist["axes"].get(len(s) + 1, 0) + 1
        key = (tuple(c["shapes"]), tuple(a.tobytes() for a in c["arrs"]), tuple(c["commons"]))
        if nsub >= 2:
            ctx.nontrivial.add(hash(key))
        cc = ccube(dims, interacting_shape=c["ishape"])
        dense = [d.to_array() if d.ndim <= 2 else a for d, a in zip(dims, c["arrs"])]
        # the array cube gets the same dense content in another FORM in a good share of the cases: another integer
        # dtype that holds it, Fortran order / transposed store / strided view / read-only (a 3-axis dimension laid out
        # in Fortran order is what exposes a flattening that assumes C order)
        xdense, form_tags = [], []
        seen = {}
        for d_, a in zip(dims, dense):
            if id(d_) in seen:                       # the same object twice for the array cube as well
                b, tag = seen[id(d_)]
            else:
                b, tag = forms.int_array(ctx.rng, a, p=0.45)
                seen[id(d_)] = (b, tag)
            xdense.append(b)
            form_tags.append(tag)
            dist["xcube_array_form"][tag.split("/")[-1]] = dist["xcube_array_form"].get(tag.split("/")[-1], 0) + 1
        c["xforms"] = form_tags
        xc = xcube(xdense, interacting_shape=c["ishape"])
        # (a) real product of the index cube
        real = []
        for combo in cc.product():
            real.append(lst(["(%s, %s)" % (core.zlist(list(dm["coords"])), idx_lit(dm["data"])) for dm in combo]))
        prod_cases.append("(%s, %s)" % (lst([idx_lit(d) for d in dims]), lst(real)))
        # (b) real product of the array cube
        flat = [[e for co in nc if co is not None for e in co] for nc in xc.product]
        hss = lst([core.zlist(list(s)) for s in c["shapes"]])
        arr_cases.append("(%s, %s, %s)" % (hss, lst([core.zlist(j) for j in flat]), core.zlist(list(xc.shape[:len(xc.scaffold_shape)]))))
        meta.append({"case": ci, "shapes": [list(s) for s in c["shapes"]], "N": c["N"], "commons": c["commons"], "interacting_shape": list(c["ishape"])})
        # (c) shapes and (d) blocks
        for agg in AGGS:
            for kind, cube in (("ccube", cc), ("xcube", xc)):
                try:
                    res = call(cube, agg, c, c["fmt"])
                except Exception as e:  # both cube types must be total here
                    oracle_fail.append({"case": ci, "cube": kind, "aggregate": agg, "error": repr(e), "input": describe(c)})
                    continue
                r0 = res[0] if isinstance(res, tuple) else res
                rest = list(c["ishape"]) + ([] if (agg == "count" or c["fact"].ndim == 1) else [c["fact"].shape[1]])
                shape_cases.append("(%s, %s, %s)" % (hss, core.zlist(rest), core.zlist(list(numpy.asarray(r0).shape))))
                for j in itertools.product(*[range(e) for s in c["shapes"] for e in s]):
                    # split j per dimension and slice
                    pos, sub = 0, []
                    for d, a, s in zip(dims, dense, c["shapes"]):
                        hc = j[pos:pos + len(s)]
                        pos += len(s)
                        if kind == "ccube":
                            sub.append(d.sliced(*hc) if hc else d)
                        else:
                            # the reference sub-cube is built from the ORDINARY form (C-contiguous copy of the column)
                            sub.append(numpy.ascontiguousarray(a[(slice(None),) + hc]) if hc else a)
                    subcube = (ccube if kind == "ccube" else xcube)(sub, interacting_shape=c["ishape"])
                    want = call(subcube, agg, c, c["fmt"])
                    got = block(res, j)
                    blocks_compared += 1
                    if not same(got, want):
                        oracle_fail.append({"case": ci, "cube": kind, "aggregate": agg, "block": list(j),
                                            "observed_block": repr(got), "sliced_cube_result": repr(want), "input": describe(c)})
        # HISTORY on the dimension objects (seeded c13h: slices1d cached its buckets on the index and an entry removed through
        # dict.pop survived in the cache): after the evaluations above, change a multi-axis dimension IN PLACE through
        # legitimate index operations and evaluate again - the kept cube and a freshly built one - against the cube over
        # the dimensions sliced NOW
        if not c.get("same_object_twice") and ctx.rng.random() < 0.35:
            hist = []
            for _round in range(ctx.rng.choice([1, 2, 2, 3])):
                rec = gen_history_op(ctx.rng, dims)
                if rec is None:
                    break
                try:
                    apply_history_op(dims, rec)
                except Exception as e:
                    oracle_fail.append({"case": ci, "cube": "ccube", "aggregate": "-", "error": "in-place %s raised %r" % (rec["op"], e),
                                        "input": describe(c), "history": hist + [rec]})
                    break
                hist.append(rec)
                dist.setdefault("history_ops", {})
                dist["history_ops"][rec["op"]] = dist["history_ops"].get(rec["op"], 0) + 1
                for which, cube in (("kept", cc), ("fresh", ccube(dims, interacting_shape=c["ishape"]))):
                    for agg in AGGS:
                        try:
                            hb = history_blocks(ccube, cube, dims, c, agg)
                        except Exception as e:
                            oracle_fail.append({"case": ci, "cube": "ccube", "aggregate": agg, "error": repr(e), "input": describe(c), "history": list(hist),
                                                "cube_object": which})
                            continue
                        for j, got, want in hb:
                            blocks_compared += 1
                            if not same(got, want):
                                oracle_fail.append({"case": ci, "cube": "ccube", "aggregate": agg, "block": list(j), "cube_object": which,
                                                    "observed_block": repr(got), "sliced_cube_result": repr(want), "input": describe(c),
                                                    "history": list(hist),
                                                    "how": "build the index dimensions, evaluate once, apply `history` in place, evaluate again"})
        ctx.evaluations += 1
        if ci < 3:
            ctx.samples.append({"shapes": [list(s) for s in c["shapes"]], "N": c["N"], "commons": c["commons"],
                                "dims": [idx_json(d) for d in dims], "subcubes": nsub})
    ctx.coverage["distribution"] = {k: {str(a): b for a, b in sorted(v.items())} for k, v in dist.items()}
    ctx.coverage["blocks_compared_with_sliced_cube"] = blocks_compared

    prelude = "From Catii Require Import IIndex.Model Cube.Scaffold Cube.ScaffoldCheck."
    r1 = core.run_cases("c13prod", prelude, prod_cases, "list iindex * list (list (list Z * iindex))", "check_index_product", None, shard_size=40)
    r2 = core.run_cases("c13arr", prelude, arr_cases, "list (list Z) * list (list Z) * list Z", "check_array_product", None, shard_size=200)
    r3 = core.run_cases("c13shape", prelude, shape_cases, "list (list Z) * list Z * list Z", "check_shape", None, shard_size=2000)
    ctx.coverage["coq_cases"] = {"index_product": r1.total, "array_product": r2.total, "shapes": r3.total}
    ctx.coverage["traces_validated_against_impl"] = r1.total + r2.total + r3.total
    disagree = {"index_product": r1.failing, "array_product": r2.failing, "shapes": r3.failing}
    errs = r1.errors + r2.errors + r3.errors

    if oracle_fail:
        f = oracle_fail[0]
        ctx.report("c13:block-differs", "a block of the stacked result differs from the cube over the sliced dimensions (%s %s)" % (f["cube"], f["aggregate"]),
                   {"failing": oracle_fail[:5], "count": len(oracle_fail)})
    elif not pr["ok"] or any(disagree.values()) or errs:
        what = []
        if not pr["ok"]:
            what.append("Properties/C13.v no longer compiles: " + pr["log"][-800:])
        for k, v in disagree.items():
            if v:
                what.append("correspondence suite %s: %d disagreeing cases (first: %s)" % (k, len(v), meta[v[0]] if k != "shapes" else v[0]))
        if errs:
            what.append("correspondence shards failed to evaluate: " + errs[0][1][-600:])
        ctx.report("c13:not-shown", "; ".join(what), {"disagreeing": {k: v[:10] for k, v in disagree.items()},
                   "search": "%d blocks compared with the sliced-dimension cube on the real code: no failing input" % blocks_compared}, found_input=False)


def describe(c):
    return {"N": c["N"], "shapes": [list(s) for s in c["shapes"]], "arrays": [a.tolist() for a in c["arrs"]], "commons": c["commons"],
            "fact": [[None if x != x else x for x in row] for row in numpy.atleast_2d(c["fact"]).tolist()],
            "fact_shape": list(c["fact"].shape),
            "weights": None if c["weights"] is None else [None if x != x else x for x in c["weights"].tolist()],
            "interacting_shape": list(c["ishape"]), "ignore_missing": c["ignore"], "format": c["fmt"],
            "xcube_array_forms": c.get("xforms")}


def replay(ctx, path):
    r = json.load(open(path))
    ctx.import_catii()
    from catii import xcube
    ctx.level = "exploration"
    ctx.rule = "replay of recorded failing blocks (array-cube form of the input)"
    bad = 0
    for f in r.get("failing", []):
        i = f["input"]
        arrs = [numpy.array(a, dtype=int).reshape([i["N"]] + s) for a, s in zip(i["arrays"], i["shapes"])]
        fact = numpy.array([[float("nan") if x is None else x for x in row] for row in i["fact"]]).reshape(i["fact_shape"])
        w = None if i["weights"] is None else numpy.array([float("nan") if x is None else x for x in i["weights"]])
        c = dict(fact=fact, weights=w, ignore=i["ignore_missing"])
        if f.get("history") and "block" in f:
            from catii import ccube, iindex
            c.update(fmt=i["format"], ishape=tuple(i["interacting_shape"]))
            dims = build_dims(iindex, arrs, i["commons"])
            kept = ccube(dims, interacting_shape=c["ishape"])
            for agg in AGGS:
                call(kept, agg, c, c["fmt"])
            for rec in f["history"]:
                apply_history_op(dims, rec)
            cube = kept if f.get("cube_object") == "kept" else ccube(dims, interacting_shape=c["ishape"])
            for j, got, want in history_blocks(ccube, cube, dims, c, f["aggregate"]):
                ok = same(got, want)
                if not ok or list(j) == f["block"]:
                    print("after the history, block", j, "ok" if ok else "DIFFERS", got, want)
                bad += 0 if ok else 1
            ctx.evaluations += 1
            continue
        xarrs = [forms.reform(a, t) for a, t in zip(arrs, i.get("xcube_array_forms") or [""] * len(arrs))]
        xc = xcube(xarrs, interacting_shape=tuple(i["interacting_shape"]))
        res = call(xc, f["aggregate"], c, i["format"])
        if "block" in f:
            j = tuple(f["block"])
            pos, sub = 0, []
            for a, s in zip(arrs, i["shapes"]):
                hc = j[pos:pos + len(s)]
                pos += len(s)
                sub.append(a[(slice(None),) + hc] if hc else a)
            want = call(xcube(sub, interacting_shape=tuple(i["interacting_shape"])), f["aggregate"], c, i["format"])
            ok = same(block(res, j), want)
            print("block", j, "ok" if ok else "DIFFERS", block(res, j), want)
            bad += 0 if ok else 1
        ctx.evaluations += 1
    ctx.nontrivial.update(range(max(2, ctx.evaluations)))
    if bad:
        ctx.report("c13:block-differs", "replayed block still differs", {"failing": r["failing"]})
