"""C05 - results are independent of which category is stored as common.

Proof : Properties/C05.v  (C05_shift_common: the index-cube model over dimensions re-encoded with the index model's
        shift_common v - any v inside the extents - or with the automatic shift_common() returns the same cells in
        every report format; via shift_common_dense (C06) and ffunc_A_direct (C03)).
Tie W2: for every generated cube, EVERY dimension is re-encoded with the real `iindex.shift_common(v)` for every
        v in 0..extent-1 (explicit shape) and for one value outside the data (v = extent: inferred shape, the overlapping
        block is compared, the extra cells must be missing), and again after the real `shift_common()`; every output of
        the real ccube must equal the output for the original encoding (model-free), the exact per-cell oracle, and - INSIDE
        Coq - the model FFuncs.ccube_report evaluated on the real re-encoded dimensions (AggCheck.agg_check_any).
"""
from .. import core
from .. import cube_aggs as ca

THEOREMS = ["C05_shift_common", "C05_shift_common_auto", "C05_encoding_independent", "C05_dimension_of_index"]
FORMATS = (("nan",), ("nan",), ("pair", 0), ("pair", -3), ("plain", 0))
HOW = ("case_from_json(case); dims = cube_aggs.build_dims; replace dims[d] by dims[d].copy() after .shift_common(v) [and .shift_common()]; "
       "ccube(dims', interacting_shape=exts or None).<aggregate>(...) must equal the output for the original dims on the common block "
       "and be missing outside it")


def pick_fmt(rng, c):
    while True:
        fmt = rng.choice(FORMATS)
        if not ca.is_shortcut(c, fmt):
            return fmt


def block_compare(c, base, var, fmt):
    """outputs over possibly different shapes: equal on the overlapping block, default (missing) outside it"""
    bs, vs = tuple(base["shape"]), tuple(var["shape"])
    if base.get("cells") is None or var.get("cells") is None:
        return "no output"
    if bs == vs:
        return ca.compare(c, var["cells"], base["cells"])
    import itertools
    from fractions import Fraction as Fr
    cols = c["K"] or 1
    empty = [Fr(fmt[1])] * cols if fmt[0] == "plain" else [None] * cols

    def flat(cell, shape):
        u = 0
        for x, e in zip(cell, shape):
            u = u * e + x
        return u
    union = tuple(max(a, b) for a, b in zip(bs, vs))
    got, want = [], []
    for cell in itertools.product(*[range(e) for e in union]):
        inb = all(x < e for x, e in zip(cell, bs))
        inv = all(x < e for x, e in zip(cell, vs))
        want.append(base["cells"][flat(cell, bs)] if inb else empty)
        got.append(var["cells"][flat(cell, vs)] if inv else empty)
    return ca.compare(c, got, want)


def run(ctx):
    thorough = ctx.tier == "thorough"
    rng = ctx.rng
    ctx.rule = ("the C03 generator restricted to >= 1 dimension (aggregate x 1-3 dims x fact/weight forms x policy x format), stored "
                "common frequent/rare/absent; for every dimension d and every v in 0..extent-1 the real d.copy().shift_common(v) replaces "
                "d (explicit shape), v = extent replaces it under an inferred shape, and each re-encoded dimension is re-normalised with "
                "the real shift_common(); a case = one (re-encoded cube, call) literal; non-trivial when N > 0 and the new common differs "
                "from the stored one")
    ctx.trusted = list(core.STD_TRUSTED) + [
        "as C03 (NumPy primitives modelled); IIndex/OpsA.shift_common is the model of iindex.shift_common (tied by property C06)",
        "the re-encoded dimensions handed to the Coq model are the entries of the REAL shifted iindex objects (dict order kept)"]
    pr = ctx.prove("C05.v")
    ctx.assumptions = ["Print Assumptions: " + a for a in pr["assumptions"]] + [
        "C05_shift_common: well-formed 1-D indexes over N rows (is1d), listed values, stored and new commons inside the extents (covers); "
        "a new common beyond an explicit extent raises IndexError (outside the property); under an inferred shape the cube grows by "
        "missing cells (C05_extra_cells_missing)"]
    ctx.coverage["print_assumptions"] = pr["assumptions"]
    catii = ctx.import_catii()
    S = ca.Suite(ctx, catii)
    n_cubes = n_var = 0

    def variant(c, fmt, base, dims, d, newdim, tag, explicit):
        nonlocal n_var
        n_var += 1
        commons = list(c["commons"])
        commons[d] = int(newdim.common)
        c2 = dict(c, commons=commons, shape_mode="explicit" if explicit else "inferred")
        dims2 = list(dims)
        dims2[d] = newdim
        n0 = len(S.lits)
        rc, _ = S.call(c2, fmt, dims=dims2, which="c", tag=tag)
        if len(S.lits) > n0 and c["N"] > 0 and commons[d] != c["commons"][d]:
            ctx.nontrivial.add(S.lits[-1])
        if "exc" in rc:
            return
        if "cells" in base and not any(f["case"] == ca.case_json(c2) for f in S.found[-1:]):
            diff = block_compare(c, base, rc, fmt)
            if diff:
                S.fail(c2, fmt, "reencode", "dimension %d re-encoded (%s, common %d -> %d): %s" % (d, tag, c["commons"][d], commons[d], diff),
                       {"original_commons": c["commons"], "dimension": d, "tag": tag})

    def one(c):
        nonlocal n_cubes
        n_cubes += 1
        fmt = pick_fmt(rng, c)
        c = dict(c, shape_mode="explicit")
        dims = ca.build_dims(catii, c)
        base, _ = S.call(c, fmt, dims=dims, which="c", tag="original")
        S.count("kind:" + c["kind"])
        S.count("dims:%d" % len(c["exts"]))
        for d, e in enumerate(c["exts"]):
            for v in list(range(e)) + [e]:
                nd_ = dims[d].copy()
                nd_.shift_common(v)
                S.count("new-common:" + ("same" if v == c["commons"][d] else "in-data" if v in c["arrs"][d] else "absent" if v < e else "outside"))
                variant(c, fmt, base, dims, d, nd_, "shift_common(%d)" % v, explicit=v < e)
                auto = nd_.copy()
                auto.shift_common()
                variant(c, fmt, base, dims, d, auto, "shift_common(%d).shift_common()" % v, explicit=True)
        return base

    n_rand = 2000 if thorough else 260
    for i in range(n_rand):
        c = ca.gen_case(rng, nd=rng.choice([1, 2, 2, 2, 3]))
        base = one(c)
        if i < 2 and base.get("cells") is not None:
            ctx.samples.append({"case": ca.case_json(c), "ccube_cells_original_encoding": [[None if v is None else float(v) for v in row] for row in base["cells"][:12]]})
    ctx.coverage.update({"cubes": n_cubes, "re_encodings": n_var, "real_calls": S.calls, "calls_compared_in_coq": len(S.lits),
                         "distribution": dict(sorted(S.dist.items()))})
    if thorough:
        ctx.coverage["exhaustive"] = "every (dimension, v in 0..extent) re-encoding of every generated cube, one dimension at a time"
    ctx.evaluations = len(S.lits)
    res = core.run_cases("c05", ca.PRELUDE, S.lits, ca.CASE_TYPE, ca.CHECK_EXPR, ca.EXPLAIN_EXPR,
                         shard_size=2500 if thorough else 400)
    ca.conclude(ctx, "C05", pr, S, res, THEOREMS, HOW)


def replay(ctx, path):
    def rejudge(catii, c, fmt, it):
        orig = it.get("original_commons")
        if orig is None:
            res = ca.run_cube(catii, c, "c", fmt)
            return ca.judge(c, "c", fmt, res)
        c0 = dict(c, commons=orig, shape_mode="explicit")
        dims = ca.build_dims(catii, c0)
        base = ca.run_cube(catii, c0, "c", fmt, dims=dims)
        d = it["dimension"]
        nd_ = dims[d].copy()
        for step in it["tag"].split(")."):
            arg = step.split("(")[1].rstrip(")")
            nd_.shift_common(int(arg) if arg else None)
        dims2 = list(dims)
        dims2[d] = nd_
        var = ca.run_cube(catii, c, "c", fmt, dims=dims2)
        if "exc" in var:
            return "EXC " + var["exc"]
        return block_compare(c0, base, var, fmt) or ca.judge(c, "c", fmt, var)
    r, bad = ca.replay_inputs(ctx, path, rejudge)
    if bad:
        ctx.report(r.get("signature", "c05:replay"), "replayed failing input still fails", {"failing_inputs": bad})
