"""C05 - results are independent of which category is stored as common.

Proof : Properties/C05.v  (C05_shift_common: the index-cube model over dimensions re-encoded with the index model's
        shift_common v - any v inside the extents - or with the automatic shift_common() returns the same cells in
        every report format; via shift_common_dense (C06) and ffunc_A_direct (C03)).
Tie W2: for every generated cube, EVERY dimension is re-encoded with the real `iindex.shift_common(v)` for every
        v in 0..extent-1 (explicit shape) and for one value outside the data (v = extent: inferred shape, the overlapping
        block is compared, the extra cells must be missing), and again after the real `shift_common()`; every output of
        the real ccube must equal the output for the original encoding (model-free), the exact per-cell oracle, and - INSIDE
        Coq - the model FFuncs.ccube_report evaluated on the real re-encoded dimensions (AggCheck.agg_check_any).
        A second stream gives one or two dimensions an extra axis (N, C) (columns that are entirely the stored common or
        constant included): the real 2-D shift_common(v) / shift_common() is applied and every sub-cube block is compared
        with the original block, the oracle on that column, and the model on the really `sliced` one-axis dimensions.
"""
from .. import core
from .. import cube_aggs as ca

THEOREMS = ["C05_shift_common", "C05_shift_common_auto", "C05_encoding_independent", "C05_dimension_of_index"]
FORMATS = (("nan",), ("nan",), ("pair", 0), ("pair", -3), ("plain", 0))
HOW = ("case_from_json(case); dims = cube_aggs.build_dims; replace dims[d] by dims[d].copy() after .shift_common(v) [and .shift_common()]; "
       "ccube(dims', interacting_shape=exts or None).<aggregate>(...) must equal the output for the original dims on the common block "
       "and be missing outside it")


def pick_fmt(rng, c):
    while True:
        fmt = rng.choice(FORMATS)
        if c.get("unit") and c["kind"] == "valid_count" and fmt[0] == "plain":
            continue            # the plain-0 shortcut snaps weighted counts below 1e-8 to 0 (documented shortcut / exclusion)
        if not ca.is_shortcut(c, fmt):
            return fmt


def block_compare(c, base, var, fmt):
    """outputs over possibly different shapes: equal on the overlapping block, default (missing) outside it"""
    bs, vs = tuple(base["shape"]), tuple(var["shape"])
    if base.get("cells") is None or var.get("cells") is None:
        return "no output"
    exact = not c.get("float_stream")
    if bs == vs:
        return ca.compare(c, var["cells"], base["cells"], exact=exact)
    import itertools
    from fractions import Fraction as Fr
    cols = c["K"] or 1
    empty = [Fr(fmt[1])] * cols if fmt[0] == "plain" else [None] * cols

    def flat(cell, shape):
        u = 0
        for x, e in zip(cell, shape):
            u = u * e + x
        return u
    union = tuple(max(a, b) for a, b in zip(bs, vs))
    got, want = [], []
    for cell in itertools.product(*[range(e) for e in union]):
        inb = all(x < e for x, e in zip(cell, bs))
        inv = all(x < e for x, e in zip(cell, vs))
        want.append(base["cells"][flat(cell, bs)] if inb else empty)
        got.append(var["cells"][flat(cell, vs)] if inv else empty)
    return ca.compare(c, got, want, exact=exact)


# ---------------------------------------------------------------------------------------------
# dimensions with an extra axis (N, C): one independent sub-cube ("block") per column (C13)
# ---------------------------------------------------------------------------------------------
def widen(rng, c, catii):
    """Turn one (sometimes two) dimensions of the case into (N, C) dimensions.  Returns (dims, cols) where cols[d] is
    the list of dense columns of dimension d (one column for an ordinary dimension)."""
    import numpy
    nd = len(c["exts"])
    wide = {rng.randrange(nd)}
    if nd >= 2 and rng.random() < 0.25:
        wide.add(rng.randrange(nd))
    dims, cols = [], []
    for d in range(nd):
        e, cm, N = c["exts"][d], c["commons"][d], c["N"]
        if d not in wide:
            cols.append([list(c["arrs"][d])])
            dims.append(ca.build_index(catii, c["arrs"][d], cm, N))
            continue
        C = rng.choice([2, 2, 3])
        cs = [list(c["arrs"][d])]
        for _ in range(C - 1):
            r = rng.random()
            if r < 0.35:
                cs.append([cm] * N)                                   # a column that is entirely the stored common
            elif r < 0.5:
                v = rng.randrange(e)
                cs.append([v] * N)                                    # a constant column
            else:
                cs.append([rng.randrange(e) for _ in range(N)])
        rng.shuffle(cs)
        entries = {}
        for j, col in enumerate(cs):
            a = numpy.asarray(col, dtype=numpy.int64)
            for v in sorted(set(col)):
                if v != cm:
                    entries[(int(v), j)] = numpy.nonzero(a == v)[0].astype(numpy.uint32)
        dims.append(catii.iindex(entries, cm, (N, C)))
        cols.append(cs)
    return dims, cols


def dims_from_columns(catii, cols, commons, N):
    import numpy
    dims = []
    for cs, cm in zip(cols, commons):
        if len(cs) == 1:
            dims.append(ca.build_index(catii, cs[0], cm, N))
            continue
        entries = {}
        for j, col in enumerate(cs):
            a = numpy.asarray(col, dtype=numpy.int64)
            for v in sorted(set(col)):
                if v != cm:
                    entries[(int(v), j)] = numpy.nonzero(a == v)[0].astype(numpy.uint32)
        dims.append(catii.iindex(entries, cm, (N, len(cs))))
    return dims


def apply_tag(dim, tag):
    """'shift_common(2).shift_common()' / '2-D shift_common(2)' -> the calls, on a copy"""
    import re
    out = dim.copy()
    for arg in re.findall(r"shift_common\((\d*)\)", tag):
        out.shift_common(int(arg) if arg else None)
    return out


def run_blocks(catii, c, fmt, dims, exts):
    """ccube over dimensions with extra axes: {"exc"} or {"blocks": {scaffold index: result dict}, "shape"}"""
    import warnings
    import numpy
    args, kw = ca.call_args(c, fmt)
    try:
        with warnings.catch_warnings():
            warnings.simplefilter("ignore")
            with numpy.errstate(all="ignore"):
                cube = catii.ccube(dims, interacting_shape=tuple(exts))
                out = getattr(cube, c["kind"])(*args, **kw)
                scaffold = tuple(int(e) for e in cube.scaffold_shape)
                shape = tuple(int(e) for e in cube.interacting_shape)
    except Exception as e:
        return {"exc": type(e).__name__ + ": " + str(e)[:200]}
    ncells = 1
    for e in shape:
        ncells *= e
    blocks = {}
    for idx in numpy.ndindex(*scaffold):
        blk = tuple(numpy.asarray(o)[idx] for o in out) if isinstance(out, tuple) else numpy.asarray(out)[idx]
        cells, odd = ca.abstract_output(blk, fmt, ncells, c["K"] or 1)
        blocks[idx] = {"cells": cells, "shape": shape, "odd": odd}
    return {"blocks": blocks, "shape": shape, "scaffold": scaffold}


def block_case(c, cols, idx):
    """the one-axis case of the block with scaffold index idx"""
    arrs, k = [], 0
    for cs in cols:
        if len(cs) == 1:
            arrs.append(cs[0])
        else:
            arrs.append(cs[idx[k]])
            k += 1
    return dict(c, arrs=arrs)


def sliced_dims(dims, idx):
    out, k = [], 0
    for d in dims:
        if len(d.shape) == 1:
            out.append(d)
        else:
            out.append(d.sliced(int(idx[k])))
            k += 1
    return out


def run(ctx):
    thorough = ctx.tier == "thorough"
    rng = ctx.rng
    ctx.rule = ("the C03 generator restricted to >= 1 dimension (aggregate x 1-3 dims x fact/weight forms x policy x format), stored "
                "common frequent/rare/absent; for every dimension d and every v in 0..extent-1 the real d.copy().shift_common(v) replaces "
                "d (explicit shape), v = extent replaces it under an inferred shape, and each re-encoded dimension is re-normalised with "
                "the real shift_common(); a second stream widens one or two dimensions to (N, C), C in 2..3 (columns entirely the stored "
                "common / constant / random) and re-encodes those with the 2-D shift_common, every sub-cube block compared; "
                "a third stream uses ordinary decimal weights (0.9, 1.2, 1.3 ...) with a never-occurring category in every dimension (tolerance "
                "stream: missing cells exactly, values within 1e-9 of the grand total, judged by the exact oracle and against the original "
                "encoding, not in Coq); a scale stream (N in 30..120 rows, 2-3 lopsided dimensions - a dominant category of 60-90 % of the rows, "
                "rare categories of 1-3 rows - dyadic or decimal weights) re-encodes every dimension to every value incl. the rare and an "
                "absent one, so the dominant category becomes a stored entry; those calls go to Coq only while the literal stays small "
                "(theorems are size-independent), else they are judged by the exact oracle and against the original encoding only and "
                "counted as oracle_only_calls; a unit stream (cases whose facts / weights are multiplied by 2**-60..2**40 - exact - or 1e-5 / 1e-9 / 1e-11 - tolerance relative to the grand total of the scaled terms, no absolute floor), every dimension re-encoded as above; the FORM of every argument (fact / weight dtype, layout, container; how the iindex is built) varies in about "
                "60 % of the cases as in C03 (tags form:*); a case = one (re-encoded cube or block, call) literal; non-trivial when N > 0 and the new common differs "
                "from the stored one")
    ctx.trusted = list(core.STD_TRUSTED) + [
        "as C03 (NumPy primitives modelled); IIndex/OpsA.shift_common is the model of iindex.shift_common (tied by property C06)",
        "the re-encoded dimensions handed to the Coq model are the entries of the REAL shifted iindex objects (dict order kept)"]
    pr = ctx.prove("C05.v")
    ctx.assumptions = ["Print Assumptions: " + a for a in pr["assumptions"]] + [
        "C05_shift_common: well-formed 1-D indexes over N rows (is1d), listed values, stored and new commons inside the extents (covers); "
        "a new common beyond an explicit extent raises IndexError (outside the property); under an inferred shape the cube grows by "
        "missing cells (C05_extra_cells_missing)"]
    ctx.coverage["print_assumptions"] = pr["assumptions"]
    catii = ctx.import_catii()
    S = ca.Suite(ctx, catii)
    n_cubes = n_var = 0

    def variant(c, fmt, base, dims, d, newdim, tag, explicit):
        nonlocal n_var
        n_var += 1
        commons = list(c["commons"])
        commons[d] = int(newdim.common)
        c2 = dict(c, commons=commons, shape_mode="explicit" if explicit else "inferred")
        dims2 = list(dims)
        dims2[d] = newdim
        n0 = len(S.lits)
        rc, _ = S.call(c2, fmt, dims=dims2, which="c", tag=tag, to_coq=ca.literal_is_small(c))
        if len(S.lits) > n0 and c["N"] > 0 and commons[d] != c["commons"][d]:
            ctx.nontrivial.add(S.lits[-1])
        if "exc" in rc:
            return
        if "cells" in base and not any(f["case"] == ca.case_json(c2) for f in S.found[-1:]):
            diff = block_compare(c, base, rc, fmt)
            if diff:
                S.fail(c2, fmt, "reencode", "dimension %d re-encoded (%s, common %d -> %d): %s" % (d, tag, c["commons"][d], commons[d], diff),
                       {"original_commons": c["commons"], "dimension": d, "tag": tag})

    def one(c):
        nonlocal n_cubes
        n_cubes += 1
        fmt = pick_fmt(rng, c)
        c = dict(c, shape_mode="explicit")
        dims = ca.build_dims(catii, c)
        base, _ = S.call(c, fmt, dims=dims, which="c", tag="original", to_coq=ca.literal_is_small(c))
        S.count("kind:" + c["kind"])
        S.count("dims:%d" % len(c["exts"]))
        for d, e in enumerate(c["exts"]):
            for v in list(range(e)) + [e]:
                nd_ = dims[d].copy()
                nd_.shift_common(v)
                S.count("new-common:" + ("same" if v == c["commons"][d] else "in-data" if v in c["arrs"][d] else "absent" if v < e else "outside"))
                variant(c, fmt, base, dims, d, nd_, "shift_common(%d)" % v, explicit=v < e)
                auto = nd_.copy()
                auto.shift_common()
                variant(c, fmt, base, dims, d, auto, "shift_common(%d).shift_common()" % v, explicit=True)
        return base

    n_wide = n_blocks = 0

    def one_wide(c):
        """a cube with an (N, C) dimension: every block of every re-encoding against the original, the oracle, the model"""
        nonlocal n_wide, n_blocks, n_var
        n_wide += 1
        fmt = pick_fmt(rng, c)
        c = dict(c, shape_mode="explicit", xdtype="int64")
        dims, cols = widen(rng, c, catii)
        exts = list(c["exts"])
        base = run_blocks(catii, c, fmt, dims, exts)
        S.calls += 1

        def judge_blocks(res, dims_used, exts_used, tag, d=None, commons=None):
            nonlocal n_blocks
            cc = dict(c, commons=commons or c["commons"], exts=list(exts_used))
            if "exc" in res:
                S.fail(cc, fmt, "c", "EXC " + res["exc"], {"tag": tag, "columns": cols, "dimension": d, "original_commons": c["commons"], "exts_used": list(exts_used)})
                return
            for idx, blk in res["blocks"].items():
                n_blocks += 1
                cb = block_case(cc, cols, idx)
                bad = ca.judge(cb, "c", fmt, blk)
                if bad:
                    S.fail(cb, fmt, "c", "block %s: %s" % (list(idx), bad), {"tag": tag, "columns": cols, "dimension": d, "block": list(idx), "original_commons": c["commons"], "exts_used": list(exts_used)})
                    continue
                if "blocks" in base and tag != "original":
                    diff = block_compare(cb, base["blocks"][idx], blk, fmt)
                    if diff:
                        S.fail(cb, fmt, "reencode", "block %s, dimension %d re-encoded (%s): %s" % (list(idx), d, tag, diff),
                               {"tag": tag, "columns": cols, "dimension": d, "block": list(idx), "original_commons": c["commons"], "exts_used": list(exts_used)})
                        continue
                sd = sliced_dims(dims_used, idx)
                ents = [(ca.index_entries(x), int(x.common)) for x in sd]
                S.lits.append(ca.case_lit(cb, fmt, ents, blk["shape"], blk["shape"], blk, None))
                S.metas.append({"case": ca.case_json(cb), "format": list(fmt), "tag": tag, "dims": [[e, cm] for e, cm in ents]})
                if c["N"] > 0 and tag != "original":
                    ctx.nontrivial.add(S.lits[-1])

        judge_blocks(base, dims, exts, "original")
        for d, e in enumerate(c["exts"]):
            if len(dims[d].shape) == 1:
                continue
            for v in list(range(e)) + [e]:
                for auto in (False, True):
                    n_var += 1
                    nd_ = dims[d].copy()
                    nd_.shift_common(v)
                    if auto:
                        nd_.shift_common()
                    S.count("wide-new-common:" + ("same" if int(nd_.common) == c["commons"][d] else "other"))
                    dims2 = list(dims)
                    dims2[d] = nd_
                    exts2 = list(exts)
                    if v >= e and not auto:
                        exts2[d] = e + 1                   # a value outside the data: the cube grows by missing cells
                    commons = list(c["commons"])
                    commons[d] = int(nd_.common)
                    res = run_blocks(catii, c, fmt, dims2, exts2)
                    S.calls += 1
                    judge_blocks(res, dims2, exts2, "2-D shift_common(%d)%s" % (v, ".shift_common()" if auto else ""), d, commons)

    n_rand = 6000 if thorough else 900
    for i in range(n_rand):
        c = ca.gen_case(rng, nd=rng.choice([1, 2, 2, 2, 3]))
        base = one(c)
        if i < 2 and base.get("cells") is not None:
            ctx.samples.append({"case": ca.case_json(c), "ccube_cells_original_encoding": [[None if v is None else float(v) for v in row] for row in base["cells"][:12]]})
    for i in range(1500 if thorough else 220):
        one_wide(ca.gen_case(rng, nd=rng.choice([1, 1, 2, 2, 3])))
    ctx.coverage.update({"cubes_with_an_extra_axis": n_wide, "blocks_judged": n_blocks})
    calls0 = S.calls
    n_dec = 2500 if thorough else 300
    for i in range(n_dec):
        one(ca.decimal_case(rng, kind=rng.choice(["mean", "mean", "mean", "valid_count", "sum", "count"]), nd=rng.choice([1, 1, 2, 2, 3]), absent=True))
    n_dec_calls = S.calls - calls0
    for i in range(600 if thorough else 60):
        one(ca.int_weights_case(rng))
    for i in range(400 if thorough else 40):
        one(ca.int_weights_case(rng, kind=ca.KINDS[i % 4] if i % 2 else "count", scalar=True))
    for i in range(3000 if thorough else 260):
        rc_ = ca.relations_case(rng)
        if i % 4:
            rc_["rel"]["scenario"] = "shift-in-place"
        ca.run_relations(S, rc_, pick_fmt(rng, rc_))
    for i in range(1200 if thorough else 110):
        for uc, ff, wf in ca.unit_variants(rng, None):
            if not uc["exts"]:
                break
            if ff == 1 and wf == 1 and i % 3:
                continue
            S.count("unit:fact x %g, weight x %g" % (float(ff), float(wf)))
            one(uc)
    n_scale = 900 if thorough else 70
    for i in range(n_scale):
        one(ca.scale_case(rng, decimal=(i % 3 == 2)))
    ctx.coverage.update({"scale_cubes": n_scale, "oracle_only_calls": S.oracle_only})
    ctx.coverage.update({"decimal_weight_cubes": n_dec, "decimal_weight_calls_judged_by_oracle": n_dec_calls})
    ctx.coverage.update({"cubes": n_cubes, "re_encodings": n_var, "real_calls": S.calls, "calls_compared_in_coq": len(S.lits),
                         "distribution": dict(sorted(S.dist.items()))})
    if thorough:
        ctx.coverage["reencoding_coverage"] = "every (dimension, v in 0..extent) re-encoding of every generated cube, one dimension at a time"
    ctx.evaluations = len(S.lits) + S.oracle_only
    shard = 2500 if thorough else 400
    S.spread(shard)
    res = core.run_cases("c05", ca.PRELUDE, S.lits, ca.CASE_TYPE, ca.CHECK_EXPR, ca.EXPLAIN_EXPR, shard_size=shard)
    ca.conclude(ctx, "C05", pr, S, res, THEOREMS, HOW)


def replay(ctx, path):
    def rejudge(catii, c, fmt, it):
        orig = it.get("original_commons")
        if orig is None or it.get("tag") in (None, "original") and not it.get("columns"):
            res = ca.run_cube(catii, c, "c", fmt)
            return ca.judge(c, "c", fmt, res)
        d = it.get("dimension")
        if it.get("columns"):                       # a cube with an (N, C) dimension: judge the recorded block
            cols = it["columns"]
            dims = dims_from_columns(catii, cols, orig, c["N"])
            exts_used = it.get("exts_used") or list(c["exts"])
            dims2 = list(dims)
            if d is not None and it["tag"] != "original":
                dims2[d] = apply_tag(dims[d], it["tag"])
            res = run_blocks(catii, c, fmt, dims2, exts_used)
            if "exc" in res:
                return "EXC " + res["exc"]
            out = []
            base = run_blocks(catii, dict(c, commons=orig), fmt, dims, exts_used) if it["tag"] != "original" else None
            for idx, blk in res["blocks"].items():
                if it.get("block") is not None and list(idx) != list(it["block"]):
                    continue
                cb = block_case(dict(c, exts=list(exts_used)), cols, idx)
                b = ca.judge(cb, "c", fmt, blk)
                if not b and base is not None and "blocks" in base:
                    b = block_compare(cb, base["blocks"][idx], blk, fmt)
                if b:
                    out.append("block %s: %s" % (list(idx), b))
            return "; ".join(out[:3]) or None
        c0 = dict(c, commons=orig, shape_mode="explicit")
        dims = ca.build_dims(catii, c0)
        base = ca.run_cube(catii, c0, "c", fmt, dims=dims)
        dims2 = list(dims)
        dims2[d] = apply_tag(dims[d], it["tag"])
        var = ca.run_cube(catii, c, "c", fmt, dims=dims2)
        if "exc" in var:
            return "EXC " + var["exc"]
        return block_compare(c0, base, var, fmt) or ca.judge(c, "c", fmt, var)
    r, bad = ca.replay_inputs(ctx, path, rejudge)
    if bad:
        ctx.report(r.get("signature", "c05:replay"), "replayed failing input still fails", {"failing_inputs": bad})
