"""C08 - the sorted-set kernels compute exact set algebra.

Proof:  Properties/C08.v (theorems about SetOps/Kernels.v, the index-level transcription of
        set_operations.pyx) is rebuilt and its Print Assumptions captured.
Tie W2: the REAL kernels and wrappers (plain build of the working-tree .pyx, in-process) are run on
        * every ordered pair of subsets of {0..5} ({0..7} thorough) and of the boundary universe
          {0, 1, 2^31, 2^32-2, 2^32-1}, kernels and wrappers (wrappers also with None operands and,
          on a subset, with the copy flags),
        * random long strictly increasing pairs in all overlap patterns,
        * every list of <= 3 subsets of {0..3} / of the boundary universe, random lists of 4-6 arrays
          and a few long ones for the k-way union,
        and what they returned is compared with the model INSIDE Coq (SetOps/Check.v: check_row,
        check_bin, check_many_row, check_many).
Oracle: Python sets (sorted(set(a) & set(b)) ...), the documented None conventions; used to turn a
        disagreement / a broken proof into a concrete failing input, never for the tie itself.

The generators, the encoder to Gallina literals and the Coq driver are shared with c09.py.
"""
import collections
import json
import os
import time

from .. import core
from .. import impl_kernels as ik

M32 = 2 ** 32
B = [0, 1, 2 ** 31, 2 ** 32 - 2, 2 ** 32 - 1]
PRELUDE = "From Catii Require Import SetOps.Kernels SetOps.Check."
MANY = ik.MANY
OP_NAMES = ik.OP_NAMES
KERNEL_OF = {0: "intersect", 1: "union", 2: "difference", 3: "intersect", 4: "union", 5: "difference", MANY: "union_many"}
IE_MSG = "IndexError (bounds-checked rebuild)"


# --------------------------------------------------------------------------
# generators (ctx.rng is the only source of randomness)
# --------------------------------------------------------------------------

def make_pool(rng, size):
    """A strictly increasing pool of candidate values; heavy use of values near 0 and near 2^32-1."""
    kind = rng.choice(["dense0", "densemax", "mid", "mixed", "wide", "wide_ends"])
    if kind == "dense0":
        pool = list(range(size))
    elif kind == "densemax":
        pool = list(range(M32 - size, M32))
    elif kind == "mid":
        lo = 2 ** 31 - size // 2
        pool = list(range(lo, lo + size))
    elif kind == "mixed":
        a = size // 3 + 1
        pool = list(range(a)) + list(range(2 ** 31 - a // 2, 2 ** 31 - a // 2 + a)) + list(range(M32 - a, M32))
    elif kind == "wide":
        pool = sorted(set(rng.randrange(M32) for _ in range(size)))
    else:
        pool = sorted(set([0, 1, M32 - 2, M32 - 1] + [rng.randrange(M32) for _ in range(size)]))
    return kind, pool


def pick(rng, pool, n):
    return sorted(rng.sample(pool, max(0, min(n, len(pool)))))


PATTERNS = ["disjoint_lr", "disjoint_rl", "touch_lr", "touch_rl", "nested_r_in_l", "nested_l_in_r", "interleaved",
            "alternating", "identical", "one_left", "one_right", "subset_r_of_l", "subset_l_of_r", "empty_left", "empty_right"]


def gen_pair(rng, maxlen=60):
    """(pattern, pool kind, L, R): two strictly increasing lists of uint32 values."""
    n1, n2 = rng.randint(0, maxlen), rng.randint(0, maxlen)
    kind, pool = make_pool(rng, n1 + n2 + rng.randint(3, 30))
    pat = rng.choice(PATTERNS)
    if pat in ("disjoint_lr", "disjoint_rl", "touch_lr", "touch_rl"):
        cut = rng.randint(1, len(pool) - 1)
        a = pick(rng, pool[:cut], max(1, min(n1, maxlen - 1)))
        b = pick(rng, pool[cut:], max(1, min(n2, maxlen - 1)))
        if pat.startswith("touch"):
            b = [a[-1]] + b            # max(a) == min(b): the ranges share exactly one end point
        L, R = (a, b) if pat.endswith("lr") else (b, a)
    elif pat in ("nested_r_in_l", "nested_l_in_r"):
        outer = pick(rng, pool, max(2, n1))
        inner = pick(rng, [v for v in pool if outer[0] <= v <= outer[-1]], n2)
        L, R = (outer, inner) if pat == "nested_r_in_l" else (inner, outer)
    elif pat == "interleaved":
        L, R = pick(rng, pool, n1), pick(rng, pool, n2)
    elif pat == "alternating":
        L, R = pool[0::2][:maxlen], pool[1::2][:maxlen]
        if rng.random() < 0.5:
            L, R = R, L
    elif pat == "identical":
        L = pick(rng, pool, n1)
        R = list(L)
    elif pat in ("one_left", "one_right"):
        other = pick(rng, pool, n2)
        one = [rng.choice(other if (other and rng.random() < 0.6) else pool)]
        L, R = (one, other) if pat == "one_left" else (other, one)
    elif pat in ("subset_r_of_l", "subset_l_of_r"):
        big = pick(rng, pool, n1)
        small = pick(rng, big, rng.randint(0, len(big)))
        L, R = (big, small) if pat == "subset_r_of_l" else (small, big)
    elif pat == "empty_left":
        L, R = [], pick(rng, pool, n2)
    else:
        L, R = pick(rng, pool, n1), []
    return pat, kind, L, R


def gen_lopsided(rng, quick):
    """Long-versus-short operands: skip-ahead / bisection shortcuts in a merge kernel only engage for a large length
    ratio or a long run, and their off-by-one mistakes sit at positions 64*k, at the last element of the short
    operand, at the first/last element of the long one.  -> list of (L, R)."""
    out = []
    for ell in ([65, 130, 260] if quick else [64, 65, 66, 96, 129, 200, 257, 300, 520]):
        kind, pool = make_pool(rng, ell * rng.choice([1, 2, 3]) + 8)
        long_ = pick(rng, pool, ell)
        outside = [v for v in pool if v not in set(long_)] or [long_[-1] + 1 if long_[-1] + 1 < M32 else long_[0] - 1]
        shorts = [[long_[-1]], [long_[0]], [long_[ell // 2]], [long_[0], long_[-1]],
                  [long_[i] for i in range(0, ell, 64)], [long_[i] for i in range(63, ell, 64)],
                  sorted({rng.choice(outside), long_[-1]}), sorted({rng.choice(outside), long_[64 % ell]}),
                  sorted(set(rng.sample(outside, min(2, len(outside))))),
                  sorted(set(rng.sample(long_, 3)) | {long_[-1]})]
        if ell > 64:
            shorts += [[long_[64]], [long_[63]], [long_[1], long_[64]]]
        for sh in shorts:
            sh = [v for v in sh if 0 <= v < M32]
            out.append((long_, sh))
            out.append((sh, long_))
    return out


def gen_many(rng):
    """A list of 4-6 strictly increasing arrays (some empty) of length 0..12 over a small or boundary-heavy universe."""
    k = rng.randint(4, 6)
    kind = rng.choice(["small", "boundary", "pool"])
    if kind == "small":
        pool = list(range(rng.randint(3, 16)))
    elif kind == "boundary":
        pool = [0, 1, 2, 3, 2 ** 31 - 1, 2 ** 31, 2 ** 31 + 1, M32 - 4, M32 - 3, M32 - 2, M32 - 1]
    else:
        pool = make_pool(rng, 30)[1]
    arrays = []
    for _ in range(k):
        n = 0 if rng.random() < 0.2 else rng.randint(0, 12)
        arrays.append(pick(rng, pool, n))
    return arrays


def gen_many_long(rng):
    k = rng.randint(3, 5)
    pool = make_pool(rng, rng.randint(300, 600))[1]
    return [pick(rng, pool, rng.randint(150, 230)) for _ in range(k)]


def c08_suites(ctx, wrappers=True):
    """The C08 input suites as a runner payload (also the sorted part of C09, there without wrappers)."""
    quick = ctx.tier == "quick"
    rng = ctx.rng
    small = list(range(6 if quick else 8))
    ops = [0, 1, 2, 3, 4, 5] if wrappers else [0, 1, 2]
    suites = []
    for uname, U in (("small", small), ("boundary", B)):
        suites.append({"kind": "bin_rows", "name": "bin/" + uname, "U": U, "ops": ops, "none": True})
        if wrappers:
            suites.append({"kind": "bin_rows", "name": "bin/" + uname + "/copyflags", "U": U, "ops": [4, 5], "none": True,
                           "copy": True, "stride": 3 if uname == "small" else 1})
    n_pairs = 300 if quick else 1200
    cases, meta = [], []
    for _ in range(n_pairs):
        pat, kind, L, R = gen_pair(rng)
        for op in ops:
            cases.append([op, L, R, False])
        meta.append((pat, kind))
    suites.append({"kind": "bin_explicit", "name": "bin/random", "cases": cases, "patterns": dict(collections.Counter(m[0] for m in meta)),
                   "pools": dict(collections.Counter(m[1] for m in meta))})
    # the same kind of pairs handed over in another FORM (non-contiguous uint32 views, read-only arrays)
    for form in ("strided", "column", "readonly"):
        fc = []
        for _ in range(60 if quick else 300):
            pat, kind, L, R = gen_pair(rng, maxlen=24)
            for op in ops:
                fc.append([op, L, R, False])
        suites.append({"kind": "bin_explicit", "name": "bin/form-" + form, "cases": fc, "form": form,
                       "patterns": {"form:" + form: len(fc)}, "pools": {}})
    # both operands as views of ONE buffer with the same start address (contiguous / stride 2), or the same object twice
    sc = []
    for _ in range(80 if quick else 400):
        n = rng.randint(1, 24)
        kind, pool = make_pool(rng, 3 * n + 8)
        c = pick(rng, pool, n)
        above = [v for v in pool if v > c[-1]]
        how = rng.choice(["same-length", "same-length", "shorter", "longer", "same-object"])
        if how == "same-object":
            sv = list(c)
        else:
            sv = c[0::2]
            want = {"same-length": len(c), "shorter": len(sv), "longer": len(c) + rng.randint(1, 4)}[how]
            sv = sv + sorted(rng.sample(above, min(len(above), max(0, want - len(sv)))))
        L, R = (c, sv) if rng.random() < 0.5 else (sv, c)
        for op in ops:
            sc.append([op, L, R, False])
    suites.append({"kind": "bin_explicit", "name": "bin/form-sharedbuf", "cases": sc, "form": "sharedbuf",
                   "patterns": {"form:sharedbuf": len(sc)}, "pools": {}})
    lop = gen_lopsided(rng, quick)
    suites.append({"kind": "bin_explicit", "name": "bin/lopsided", "cases": [[op, L, R, False] for L, R in lop for op in ops],
                   "patterns": {"long-vs-short": len(lop)}, "pools": {}})
    # BOTH operands long (a threshold on min(len), seeded c09h: above 4096 the output buffer was capped at the overlap
    # width hi - lo + 1 computed in uint32, which wraps to 0 when both operands span 0 .. 2^32-1)
    lb = []
    for ends in (["full-full", "full-full", "full-inner"] if quick else ["full-full"] * 4 + ["full-inner", "inner-full", "inner-inner", "low-high"]):
        n1 = rng.choice([4097, 4098, 4100, 4500, 5000]) if ends == "full-full" else rng.choice([4096, 4097, 4300])
        n2 = rng.choice([4097, 4099, 4200, 4800])
        base_pool = sorted(set(rng.randrange(1, M32 - 1) for _ in range(3000)) | set(range(5, 2500)) | set(range(M32 - 2600, M32 - 3)))
        a, b = pick(rng, base_pool, n1 - 2), pick(rng, base_pool, n2 - 2)
        fa, fb = {"full-full": (True, True), "full-inner": (True, False), "inner-full": (False, True), "inner-inner": (False, False),
                  "low-high": (False, False)}[ends]
        a = ([0] + a + [M32 - 1]) if fa else a
        b = ([0] + b + [M32 - 1]) if fb else b
        if ends == "low-high":
            a, b = [v for v in a if v < 2 ** 31][:4200] + [2 ** 31], [2 ** 31] + [v for v in b if v > 2 ** 31][:4200]
        lb.append((a, b))
    suites.append({"kind": "bin_explicit", "name": "bin/long-both", "cases": [[op, L, R, False] for L, R in lb for op in ops],
                   "patterns": {"both-operands-above-4096": len(lb)}, "pools": {}})
    suites.append({"kind": "many_rows", "name": "many/small", "U": list(range(4)), "maxk": 3})
    suites.append({"kind": "many_rows", "name": "many/boundary", "U": B, "maxk": 3})
    many = [gen_many(rng) for _ in range(300 if quick else 1000)]
    many += [gen_many_long(rng) for _ in range(4 if quick else 12)]
    suites.append({"kind": "many_explicit", "name": "many/random", "cases": many})
    return suites


# --------------------------------------------------------------------------
# what the runner observed -> uniform per-case view and Gallina literals
# --------------------------------------------------------------------------

def norm_entry(e, sub=None):
    """runner entry -> tuple (returned uint32 array) | None (returned None) | dict (exc / bad / asan / skipped)."""
    if isinstance(e, int):
        if e >= 0:
            return sub[e]
        if e == -1:
            return None
        return {"exc": "IndexError", "msg": IE_MSG}
    if "ret" in e:
        return tuple(e["ret"])
    if e.get("none"):
        return None
    return e


def zl(x):
    """Z literal; hexadecimal above 16 bits (Coq interprets long decimal numerals slowly)."""
    x = int(x)
    if x < 0:
        return "(%d)" % x
    return "0x%x" % x if x >= 65536 else "%d" % x


def zls(xs):
    return "[" + "; ".join(zl(x) for x in xs) + "]"


def obs_lit(ent):
    if ent is None:
        return "ONone"
    if isinstance(ent, tuple):
        return "(ORet %s)" % zls(ent)
    if ent.get("exc") == "IndexError" or "asan" in ent:
        return "OIndexError"
    return "OOther"      # other exception, wrong type/dtype/ndim, call not executed: never matches the model


def bin_lit(op, l, r, ent):
    return "(%d, %s, %s, %s)" % (op, core.optlit(l, zls), core.optlit(r, zls), obs_lit(ent))


def many_lit(arrays, ent):
    return "([%s], %s)" % ("; ".join(zls(a) for a in arrays), obs_lit(ent))


def jsonable(ent):
    return list(ent) if isinstance(ent, tuple) else ent


def increasing(t):
    return all(t[i] < t[i + 1] for i in range(len(t) - 1))


def mask_of(idx, t):
    """Bit mask of the strictly increasing tuple t over the universe indexed by idx (value -> position), else None."""
    m, prev = 0, -1
    for v in t:
        i = idx.get(v)
        if i is None or i <= prev:
            return None
        m |= 1 << i
        prev = i
    return m


def code_of_entry(idx, ent):
    """Observation code of the compact encodings, or None when the observation needs the explicit form."""
    if ent is None:
        return -1
    if isinstance(ent, tuple):
        return mask_of(idx, ent)
    if ent.get("exc") == "IndexError":
        return -2
    return None


def sub_of(U, m):
    """Python twin of Check.v's sub_of_mask / operand_of_code (only used to NAME the cases of a failing compact literal)."""
    return None if m < 0 else tuple(u for i, u in enumerate(U) if (m >> i) & 1)


def obs_of(U, c):
    if c >= 0:
        return sub_of(U, c)
    return None if c == -1 else {"exc": "IndexError", "msg": IE_MSG} if c == -2 else {"bad": "other"}


def case_key(variant, suite, op, l=None, r=None, arrays=None):
    return (variant, suite, op, arrays) if op == MANY else (variant, suite, op, l, r)


def ref_cases(ref):
    """The explicit single calls a (compact) literal stands for."""
    k = ref["kind"]
    base = {"variant": ref["variant"], "suite": ref["suite"], "copy": ref.get("copy", False)}
    if k == "bin":
        return [dict(base, op=ref["op"], l=ref["l"], r=ref["r"], observed=ref["observed"])]
    if k == "many":
        return [dict(base, op=MANY, arrays=ref["arrays"], observed=ref["observed"])]
    U = ref["U"]
    if k == "row":
        return [dict(base, op=ref["op"], l=sub_of(U, ref["cl"]), r=sub_of(U, ref["start"] + i), observed=obs_of(U, c)) for i, c in enumerate(ref["codes"])]
    if k == "ops":
        return [dict(base, op=ref["op0"] + i, l=sub_of(U, ref["cl"]), r=sub_of(U, ref["cr"]), observed=obs_of(U, c)) for i, c in enumerate(ref["codes"])]
    if k == "mrow":
        pre = tuple(sub_of(U, m) for m in ref["prefix"])
        return [dict(base, op=MANY, arrays=pre + (sub_of(U, ref["start"] + i),), observed=obs_of(U, c)) for i, c in enumerate(ref["codes"])]
    if k == "mcomp":
        return [dict(base, op=MANY, arrays=tuple(sub_of(U, m) for m in ref["masks"]), observed=obs_of(U, ref["code"]))]
    raise ValueError(k)


def key_of_case(d):
    return case_key(d["variant"], d["suite"], d["op"], d.get("l"), d.get("r"), d.get("arrays"))


class Tie:
    """Collects the case literals (deduplicated) and evaluates the checkers of SetOps/Check.v on them inside Coq."""
    KINDS = collections.OrderedDict([
        ("row", ("row_case", "check_row", "explain_row")),
        ("ops", ("ops_case", "check_ops", "explain_ops")),
        ("bin", ("bin_case", "check_bin", "explain_bin")),
        ("mrow", ("many_row", "check_many_row", "explain_many_row")),
        ("mcomp", ("many_compact", "check_many_compact", "explain_many_compact")),
        ("many", ("many_case", "check_many", "explain_many")),
    ])

    def __init__(self, tag):
        self.tag = tag
        self.lits = {k: [] for k in self.KINDS}
        self.index = {k: {} for k in self.KINDS}
        self.refs = {k: [] for k in self.KINDS}
        self.cases_covered = 0
        self.failing = []        # (kind, literal, refs)
        self.errors = []         # (kind, shard, tail of the coqc output)
        self.explain = {}
        self.stats = {}

    def add(self, lit, ref, ncases=1):
        kind = ref["kind"]
        i = self.index[kind].get(lit)
        if i is None:
            i = len(self.lits[kind])
            self.index[kind][lit] = i
            self.lits[kind].append(lit)
            self.refs[kind].append([])
        self.refs[kind][i].append(ref)
        self.cases_covered += ncases

    CTOR = {"row": "CRow", "ops": "COps", "bin": "CBin", "mrow": "CManyRow", "mcomp": "CManyCompact", "many": "CMany"}
    SHARD_CHARS = 10000   # Coq's elaboration of long list literals is superlinear: small shards, many processes

    def run(self):
        """One batch of shards for all kinds (any_case), balanced by literal size; fills failing / errors / stats."""
        items = [(k, i) for k in self.KINDS for i in range(len(self.lits[k]))]
        if not items:
            return self
        items.sort(key=lambda ki: -len(self.lits[ki[0]][ki[1]]))
        total = sum(len(self.lits[k][i]) for k, i in items)
        nshards = max(1, min(len(items), -(-total // self.SHARD_CHARS)))
        size = -(-len(items) // nshards)
        # deal the size-sorted literals round-robin: shard s holds items s, s+nshards, s+2*nshards, ...
        order = [items[s + j * nshards] for s in range(nshards) for j in range(size) if s + j * nshards < len(items)]
        lits = ["%s %s" % (self.CTOR[k], self.lits[k][i]) for k, i in order]
        t0 = time.time()
        res = core.run_cases(self.tag, PRELUDE, lits, "any_case", "check_any", "explain_any", shard_size=size)
        self.stats = {"seconds": round(time.time() - t0, 1), "shards": -(-len(lits) // size), "literals_per_shard": size,
                      "literal_chars": total, "shards_failed": len(res.errors),
                      "literals": {k: len(self.lits[k]) for k in self.KINDS if self.lits[k]}, "disagree": {}}
        for gi in res.failing:
            k, i = order[gi]
            self.failing.append((k, self.lits[k][i], self.refs[k][i]))
            self.stats["disagree"][k] = self.stats["disagree"].get(k, 0) + 1
        for sh, tail in res.errors:
            self.errors.append(("shard", sh, tail[-1500:]))
        if res.explain:
            self.explain = {"explain_any on the first disagreeing literals": res.explain[-4000:]}
        return self


def _segments(ents, code_fn):
    """Split a row of observations into maximal runs that have a compact code, and the single ones that do not:
    yields ("seg", first position, [codes]) and ("one", position, entry)."""
    seg, first = [], 0
    for i, e in enumerate(ents):
        c = code_fn(e)
        if c is not None:
            if not seg:
                first = i
            seg.append(c)
            continue
        if seg:
            yield ("seg", first, seg)
            seg = []
        yield ("one", i, e)
    if seg:
        yield ("seg", first, seg)


def _row_code(e):
    return e if (isinstance(e, int) and not isinstance(e, bool)) else None


def encode(suites, results, tie, variant):
    """Turn what the runner observed into Gallina literals: compact forms where inputs and result are subsets of a
    universe (checked here: a returned array gets a code only if it is exactly a strictly increasing selection of
    the universe), explicit bin_case / many_case literals otherwise."""
    for suite, sres in zip(suites, results):
        name, kind = suite["name"], suite["kind"]
        base = {"variant": variant, "suite": name}
        if kind == "bin_rows":
            U = suite["U"]
            sub = ik.subsets_of(U)
            Ulit = zls(U)
            copy = bool(suite.get("copy"))
            for op, cl, start, ents in sres["rows"]:
                l = None if cl < 0 else sub[cl]
                for what, i, x in _segments(ents, _row_code):
                    if what == "seg":
                        tie.add("(%d, %s, %s, %s, %s)" % (op, Ulit, zl(cl), zl(start + i), zls(x)),
                                dict(base, kind="row", op=op, copy=copy, U=U, cl=cl, start=start + i, codes=x), ncases=len(x))
                    else:
                        r = None if start + i < 0 else sub[start + i]
                        ent = norm_entry(x)
                        tie.add(bin_lit(op, l, r, ent), dict(base, kind="bin", op=op, copy=copy, l=l, r=r, observed=ent))
        elif kind == "bin_explicit":
            cases, ress = suite["cases"], sres["results"]
            i = 0
            while i < len(cases):
                j = i + 1
                while (j < len(cases) and cases[j][0] == cases[j - 1][0] + 1 and cases[j][1] == cases[i][1] and cases[j][2] == cases[i][2]
                       and not (len(cases[j]) > 3 and cases[j][3])):
                    j += 1
                op0, l, r = cases[i][0], cases[i][1], cases[i][2]
                copy0 = bool(cases[i][3]) if len(cases[i]) > 3 else False
                l = None if l is None else tuple(l)
                r = None if r is None else tuple(r)
                ents = [norm_entry(e) for e in ress[i:j]]
                if not copy0 and (l is None or increasing(l)) and (r is None or increasing(r)):
                    U = sorted(set(l or ()) | set(r or ()))
                    idx = {v: k for k, v in enumerate(U)}
                    cl = -1 if l is None else mask_of(idx, l)
                    cr = -1 if r is None else mask_of(idx, r)
                    Ulit = zls(U)
                    for what, k, x in _segments(ents, lambda e: code_of_entry(idx, e)):
                        if what == "seg":
                            tie.add("(%s, %s, %s, %d, %s)" % (Ulit, zl(cl), zl(cr), op0 + k, zls(x)),
                                    dict(base, kind="ops", U=U, cl=cl, cr=cr, op0=op0 + k, codes=x), ncases=len(x))
                        else:
                            tie.add(bin_lit(op0 + k, l, r, x), dict(base, kind="bin", op=op0 + k, copy=False, l=l, r=r, observed=x))
                else:
                    for k, ent in enumerate(ents):
                        tie.add(bin_lit(op0 + k, l, r, ent), dict(base, kind="bin", op=op0 + k, copy=copy0, l=l, r=r, observed=ent))
                i = j
        elif kind == "many_rows":
            U = suite["U"]
            sub = ik.subsets_of(U)
            Ulit = zls(U)
            ent = norm_entry(sres["empty"])
            tie.add(many_lit([], ent), dict(base, kind="many", arrays=(), observed=ent))
            for prefix, start, ents in sres["rows"]:
                for what, i, x in _segments(ents, _row_code):
                    if what == "seg":
                        tie.add("(%s, %s, %s, %s)" % (Ulit, zls(prefix), zl(start + i), zls(x)),
                                dict(base, kind="mrow", U=U, prefix=list(prefix), start=start + i, codes=x), ncases=len(x))
                    else:
                        arrays = tuple(sub[m] for m in prefix) + (sub[start + i],)
                        ent = norm_entry(x)
                        tie.add(many_lit(arrays, ent), dict(base, kind="many", arrays=arrays, observed=ent))
        elif kind == "many_explicit":
            for arrays, e in zip(suite["cases"], sres["results"]):
                arrays = tuple(tuple(a) for a in arrays)
                ent = norm_entry(e)
                code = None
                if all(increasing(a) for a in arrays):
                    U = sorted(set().union(*arrays))
                    idx = {v: k for k, v in enumerate(U)}
                    code = code_of_entry(idx, ent)
                if code is not None:
                    masks = [mask_of(idx, a) for a in arrays]
                    tie.add("(%s, %s, %s)" % (zls(U), zls(masks), zl(code)), dict(base, kind="mcomp", U=U, masks=masks, code=code))
                else:
                    tie.add(many_lit(arrays, ent), dict(base, kind="many", arrays=arrays, observed=ent))


def iter_cases(suites, results, variant):
    """Every single call as  ("bin", name, op, copy, l, r, ent, key)  or  ("many", name, arrays, ent, key);
    l, r, arrays are tuples (or None), ent as norm_entry, key as case_key."""
    for suite, sres in zip(suites, results):
        name, kind = suite["name"], suite["kind"]
        if kind == "bin_rows":
            sub = ik.subsets_of(suite["U"])
            copy = bool(suite.get("copy"))
            for op, cl, start, ents in sres["rows"]:
                l = None if cl < 0 else sub[cl]
                for i, e in enumerate(ents):
                    cr = start + i
                    r = None if cr < 0 else sub[cr]
                    yield ("bin", name, op, copy, l, r, norm_entry(e, sub), (variant, name, op, l, r))
        elif kind == "bin_explicit":
            for case, e in zip(suite["cases"], sres["results"]):
                l = None if case[1] is None else tuple(case[1])
                r = None if case[2] is None else tuple(case[2])
                yield ("bin", name, case[0], bool(case[3]) if len(case) > 3 else False, l, r, norm_entry(e), (variant, name, case[0], l, r))
        elif kind == "many_rows":
            sub = ik.subsets_of(suite["U"])
            yield ("many", name, (), norm_entry(sres["empty"]), (variant, name, MANY, ()))
            for prefix, start, ents in sres["rows"]:
                pre = tuple(sub[x] for x in prefix)
                for i, e in enumerate(ents):
                    arrays = pre + (sub[start + i],)
                    yield ("many", name, arrays, norm_entry(e, sub), (variant, name, MANY, arrays))
        elif kind == "many_explicit":
            for arrays, e in zip(suite["cases"], sres["results"]):
                arrays = tuple(tuple(a) for a in arrays)
                yield ("many", name, arrays, norm_entry(e), (variant, name, MANY, arrays))


def describe_case(d, lit=None):
    out = {"variant": d.get("variant"), "suite": d.get("suite"), "op": OP_NAMES.get(d.get("op"), d.get("op"))}
    if "arrays" in d:
        out["arrays"] = [list(a) for a in d["arrays"]]
    else:
        out["l"] = jsonable(d.get("l"))
        out["r"] = jsonable(d.get("r"))
    if d.get("copy"):
        out["copy_flags"] = True
    out["observed"] = jsonable(d.get("observed"))
    if lit is not None:
        out["coq_case"] = lit[:600]
    return out


def disagreements(tie, wrong_keys, limit=25):
    """Failing Coq cases that the property oracle does not account for, named concretely: compact literals are
    expanded to the explicit calls they stand for and those are evaluated once more (check_bin / check_many)."""
    unacc = []
    for (k, lit, refs) in tie.failing:
        if not any(key_of_case(d) in wrong_keys for ref in refs for d in ref_cases(ref)):
            unacc.append((k, lit, refs))
    if not unacc:
        return []
    out = []
    exp = Tie("expand")
    for (k, lit, refs) in unacc[:limit]:
        if k in ("bin", "many"):
            out.append(describe_case(ref_cases(refs[0])[0], lit))
            continue
        for d in ref_cases(refs[0]):
            if "arrays" in d:
                exp.add(many_lit(d["arrays"], d["observed"]), dict(d, kind="many"))
            else:
                exp.add(bin_lit(d["op"], d["l"], d["r"], d["observed"]), dict(d, kind="bin"))
    if exp.cases_covered:
        exp.run()
        found = [describe_case(ref_cases(refs[0])[0], lit) for (_k, lit, refs) in exp.failing]
        out += found
        if exp.errors or not found:
            out += [{"compact_literal_that_disagrees": lit[:600], "kind": k, "suite": refs[0]["suite"]} for (k, lit, refs) in unacc[:limit] if k not in ("bin", "many")]
    if len(unacc) > limit:
        out.append({"further_disagreeing_literals_not_expanded": len(unacc) - limit})
    return out


# --------------------------------------------------------------------------
# the property oracle (no model): Python sets and the documented None conventions
# --------------------------------------------------------------------------

def oracle_bin(op, l, r):
    """Expected result as a tuple (strictly increasing) or None."""
    if op in (0, 3):
        if l is None or r is None:
            return None
        res = tuple(sorted(set(l) & set(r)))
    elif op in (1, 4):
        if l is None and r is None:
            return None
        res = tuple(sorted(set(l or ()) | set(r or ())))
    else:
        if l is None:
            return None
        res = tuple(sorted(set(l) - set(r or ())))
    if op >= 3 and not res:
        return None
    return res


def oracle_many(arrays):
    return tuple(sorted(set().union(*arrays)))


def judge_bin(op, l, r, ent):
    """None if the observed result is exactly the mathematical one, else the failure signature."""
    exp = oracle_bin(op, l, r)
    if isinstance(ent, dict):
        return "kernel:raised" if "exc" in ent else KERNEL_OF[op] + ":wrong-result"
    if ent == exp:
        return None
    if op >= 3 and ((ent is None) != (exp is None)):
        return "wrapper:none-convention"
    return KERNEL_OF[op] + ":wrong-result"


def judge_many(arrays, ent):
    if isinstance(ent, dict):
        return "kernel:raised" if "exc" in ent else "union_many:wrong-result"
    return None if ent == oracle_many(arrays) else "union_many:wrong-result"


def branch_of(l, r, sorted_inputs=True):
    if l is None or r is None:
        return "none_operand"
    if not l or not r:
        return "empty_shortcut"
    if l[0] > r[-1] or r[0] > l[-1]:
        return "no_overlap_shortcut"
    if not sorted_inputs:
        return "main_loop"
    return "main_loop/" + ("left_exhausted_first" if l[-1] < r[-1] else "right_exhausted_first" if l[-1] > r[-1] else "both_exhausted_together")


class Shrinker:
    """Greedy element/array deletion while the oracle still rejects what the implementation returns."""

    def __init__(self, so):
        self.r = ik.Runner(so)

    def bin(self, op, l, r, copy):
        def bad(l, r):
            ent = self.r.call_bin(op, self.r.arr(None if l is None else list(l)), self.r.arr(None if r is None else list(r)), copy)
            return judge_bin(op, l, r, ent) is not None, ent
        cur = [l, r]
        progress = True
        while progress:
            progress = False
            for side in (0, 1):
                a = cur[side]
                if a is None:
                    continue
                for i in range(len(a)):
                    cand = list(cur)
                    cand[side] = a[:i] + a[i + 1:]
                    if bad(cand[0], cand[1])[0]:
                        cur = cand
                        progress = True
                        break
                if progress:
                    break
        return cur[0], cur[1], bad(cur[0], cur[1])[1]

    def many(self, arrays):
        def bad(arrays):
            ent = self.r.call_many([self.r.arr(list(a)) for a in arrays])
            return judge_many(arrays, ent) is not None, ent
        cur = list(arrays)
        progress = True
        while progress:
            progress = False
            for j in range(len(cur)):
                cand = cur[:j] + cur[j + 1:]
                if bad(cand)[0]:
                    cur, progress = cand, True
                    break
            if progress:
                continue
            for j in range(len(cur)):
                for i in range(len(cur[j])):
                    cand = list(cur)
                    cand[j] = cur[j][:i] + cur[j][i + 1:]
                    if bad(cand)[0]:
                        cur, progress = cand, True
                        break
                if progress:
                    break
        return tuple(cur), bad(cur)[1]


def failing_record(case, sig):
    if case[0] == "bin":
        _, name, op, copy, l, r, ent, _k = case
        return {"op": OP_NAMES[op], "l": jsonable(l), "r": jsonable(r), "copy_flags": copy, "expected": jsonable(oracle_bin(op, l, r)),
                "observed": jsonable(ent), "suite": name, "signature": sig}
    _, name, arrays, ent, _k = case
    return {"op": MANY, "arrays": [list(a) for a in arrays], "expected": list(oracle_many(arrays)), "observed": jsonable(ent),
            "suite": name, "signature": sig}


def case_size(case):
    if case[0] == "bin":
        return len(case[4] or ()) + len(case[5] or ())
    return sum(len(a) for a in case[2]) + len(case[2])


WHAT = {
    "intersect:wrong-result": "intersection of two strictly increasing uint32 arrays is not the mathematical intersection",
    "union:wrong-result": "union of two strictly increasing uint32 arrays is not the strictly increasing mathematical union",
    "difference:wrong-result": "difference of two strictly increasing uint32 arrays is not the mathematical difference",
    "wrapper:none-convention": "wrapper returns None / an array against the documented convention (None iff absent operand or empty result)",
    "union_many:wrong-result": "set_union_merge_many does not return the strictly increasing union of its arrays",
    "kernel:raised": "a kernel or wrapper raised on a valid input (strictly increasing uint32 arrays / None)",
}


def record_proof(ctx, pr, prop):
    ctx.assumptions = ["Print Assumptions: " + a for a in pr["assumptions"]] + [
        "arrays are 1-D C-contiguous numpy uint32 arrays of length < 2^31 (the kernels' C int counters); elements compared as Z in the model",
    ]
    ctx.coverage["print_assumptions"] = list(pr["assumptions"])
    ctx.coverage["proof_ok"] = bool(pr["ok"])
    if pr["ok"] and not all(a.startswith("Closed under the global context") for a in pr["assumptions"]):
        ctx.notes.append("some theorem of Properties/%s.v is not closed under the global context: %s" % (prop, pr["assumptions"]))


# --------------------------------------------------------------------------
# run
# --------------------------------------------------------------------------

def run(ctx):
    ctx.rule = ("exhaustive: every ordered pair of subsets of {0..5} (quick) / {0..7} (thorough) and of {0,1,2^31,2^32-2,2^32-1} for the 3 kernels "
                "and the 3 wrappers (wrappers also with None operands; union/difference also with copy flags on a subset), every list of <=3 subsets "
                "of {0..3} and of the boundary universe for set_union_merge_many; random: strictly increasing pairs of length 0..60 in 15 overlap "
                "patterns over 6 value pools (near 0, near 2^31, near 2^32-1, wide), random lists of 4-6 arrays of length 0..12 and 3-5 arrays of "
                "length ~200.  One evaluation = one call of the real function compared with the model inside Coq.  A case is identified by "
                "(function, left array, right array) resp. (function, list of arrays); it is non-trivial when the call reaches the merge loop "
                "(both operands non-empty with overlapping ranges) resp. when >= 2 arrays of the list are non-empty; distinct ids are counted.")
    ctx.trusted = list(core.STD_TRUSTED) + [
        "SetOps/Check.v decoders of the compact case encodings (sub_of_mask, operand_of_code, obs_of_code, row_bad, ops_bad, many_row_bad, many_of_compact) and obs_eqb",
        "SetOps/Kernels.v is a hand transcription of set_operations.pyx (tied to the code only by this differential comparison)",
        "NumPy calls outside the loops (empty, asarray, concatenate, cumsum, slicing) are modelled by their value",
    ]
    phases = ctx.coverage.setdefault("phase_seconds", {})
    t = time.time()
    pr = ctx.prove("C08.v")
    record_proof(ctx, pr, "C08")
    phases["prove"] = round(time.time() - t, 1)

    t = time.time()
    ctx.import_catii()
    from catii import set_operations as so
    suites = c08_suites(ctx)
    result = ik.execute(so, {"suites": suites})
    results = result["suites"]
    phases["build_and_run_implementation"] = round(time.time() - t, 1)
    t = time.time()
    tie = Tie("c08")
    encode(suites, results, tie, "plain")

    # ---- property oracle over every generated case + statistics (cheap; independent of Coq) ----
    wrong = collections.defaultdict(list)
    wrong_keys = set()
    branches = collections.Counter()
    per_suite = collections.Counter()
    many_stats = collections.Counter()
    n = 0
    samples = {}
    for case in iter_cases(suites, results, "plain"):
        n += 1
        per_suite[case[1]] += 1
        if case[0] == "bin":
            _, name, op, copy, l, r, ent, keys = case
            sig = judge_bin(op, l, r, ent)
            br = branch_of(l, r)
            branches["%s:%s" % (OP_NAMES[op], br)] += 1
            if br.startswith("main_loop"):
                ctx.nontrivial.add((op, l, r))
                if name not in samples and len(l) + len(r) >= 4:
                    samples[name] = {"suite": name, "op": OP_NAMES[op], "l": list(l), "r": list(r), "observed": jsonable(ent), "branch": br}
        else:
            _, name, arrays, ent, keys = case
            sig = judge_many(arrays, ent)
            ne = sum(1 for a in arrays if a)
            many_stats["nonempty_arrays=%d" % ne] += 1
            if sum(len(a) for a in arrays) != len(set().union(*arrays)):
                many_stats["value_shared_between_arrays"] += 1
            if any(a and a[-1] == M32 - 1 for a in arrays):
                many_stats["contains_2^32-1"] += 1
            if ne >= 2:
                ctx.nontrivial.add((MANY, arrays))
                if name not in samples and ne >= 3:
                    samples[name] = {"suite": name, "op": MANY, "arrays": [list(a) for a in arrays], "observed": jsonable(ent)}
        if sig:
            wrong[sig].append(case)
            wrong_keys.add(keys)
    ctx.evaluations = n
    ctx.samples = list(samples.values())[:6]
    phases["encode_and_oracle"] = round(time.time() - t, 1)

    t = time.time()
    tie.run()
    phases["coq_comparison"] = round(time.time() - t, 1)
    ctx.coverage.update({
        "exhaustive": True,
        "exhaustive_scope": "subset-pair enumerations (bin/small, bin/boundary, copyflags) and k-way lists of <=3 subsets are complete; the random suites are samples",
        "cases_per_suite": dict(per_suite),
        "branch_counts": dict(branches),
        "kway_stats": dict(many_stats),
        "random_pair_patterns": next(s["patterns"] for s in suites if s["name"] == "bin/random"),
        "random_pair_pools": next(s["pools"] for s in suites if s["name"] == "bin/random"),
        "coq_tie": tie.stats,
        "cases_compared_inside_coq": tie.cases_covered,
        "model_disagreements": len(tie.failing),
        "coq_case_shards_failed": len(tie.errors),
        "oracle_wrong": {k: len(v) for k, v in wrong.items()},
        "inputs_mutated_by_the_code": len(result["mutated_inputs"]),
        "implementation": "plain build (gcc -O2) of the working-tree set_operations.pyx, in-process, imported from the harness snapshot",
        "tie": "W2 differential, compared inside Coq (check_row / check_bin / check_many_row / check_many of SetOps/Check.v)",
    })
    if result["mutated_inputs"]:
        ctx.notes.append("the code modified its input arrays: %s" % json.dumps(result["mutated_inputs"][:3]))
    if tie.cases_covered != n:
        ctx.notes.append("encoder covered %d cases but %d were generated" % (tie.cases_covered, n))

    # ---- verdict ----
    shr = Shrinker(so)
    failing_keys = set(key_of_case(d) for (_k, _l, refs) in tie.failing[:200] for ref in refs for d in ref_cases(ref))
    for sig in sorted(wrong):
        cs = sorted(wrong[sig], key=case_size)
        recs = [failing_record(c, sig) for c in cs[:20]]
        c0 = cs[0]
        try:
            if c0[0] == "bin":
                l, r, ent = shr.bin(c0[2], c0[4], c0[5], c0[3])
                small = failing_record(("bin", c0[1] + " (shrunk)", c0[2], c0[3], l, r, ent, None), sig)
            else:
                arrays, ent = shr.many(c0[2])
                small = failing_record(("many", c0[1] + " (shrunk)", arrays, ent, None), sig)
            if small not in recs:
                recs.insert(0, small)
        except Exception as e:  # noqa: BLE001 - shrinking is best effort
            ctx.notes.append("shrinking failed: %r" % (e,))
        ctx.report(sig, WHAT[sig], {"failing_inputs": recs, "count": len(cs),
                                    "how": "catii.set_operations.<op>(numpy uint32 arrays) on the plain build vs Python sets",
                                    "coq_literal_holding_first_input_disagrees_with_model": c0[-1] in failing_keys})
    dis = disagreements(tie, wrong_keys)
    if dis or tie.errors or not pr["ok"] or tie.cases_covered != n:
        what = []
        if not pr["ok"]:
            what.append("proof obligation no longer checks: Properties/C08.v or its dependency cone")
        if dis:
            what.append("correspondence: %d case(s) where the code and the model of SetOps/Kernels.v differ although the set oracle accepts the code's result" % len(dis))
        if tie.errors:
            what.append("correspondence shards failed to evaluate (%d): %s" % (len(tie.errors), tie.errors[0][2][-400:]))
        if tie.cases_covered != n:
            what.append("encoder covered %d of %d cases" % (tie.cases_covered, n))
        ctx.report("c08:not-shown", "; ".join(what), {
            "broken": [] if pr["ok"] else [{"obligation": "Properties/C08.v", "log": pr["log"][-2500:], "missing": pr.get("missing")}],
            "disagreeing_cases": dis[:40], "explain": tie.explain, "shard_errors": tie.errors[:3],
            "search": "Python set oracle over all %d generated cases (exhaustive small scope + random) found %s" % (
                n, "no failing input" if not wrong else "failing inputs only for: " + ", ".join(sorted(wrong)))}, found_input=False)


def replay(ctx, path):
    r = json.load(open(path))
    ctx.import_catii()
    from catii import set_operations as so
    run1 = ik.Runner(so)
    bad = collections.defaultdict(list)
    n = 0
    for c in r.get("failing_inputs", []):
        n += 1
        if c.get("op") == MANY:
            arrays = tuple(tuple(a) for a in c["arrays"])
            ent = run1.call_many([run1.arr(list(a)) for a in arrays])
            sig = judge_many(arrays, ent)
            print("%s(%s) = %s, expected %s%s" % (MANY, [list(a) for a in arrays], jsonable(ent), list(oracle_many(arrays)), "  <-- WRONG" if sig else ""))
            if sig:
                bad[sig].append(failing_record(("many", "replay", arrays, ent, None), sig))
        else:
            op = [k for k, v in OP_NAMES.items() if v == c["op"]][0]
            l = None if c["l"] is None else tuple(c["l"])
            rr = None if c["r"] is None else tuple(c["r"])
            copy = bool(c.get("copy_flags"))
            la, ra = run1.arr(None if l is None else list(l)), run1.arr(None if rr is None else list(rr))
            form = (c.get("suite") or "").partition("bin/form-")[2]
            if form == "sharedbuf":
                la, ra = run1.shared(l, rr)
            elif form:
                la, ra = run1.reform(la, form), run1.reform(ra, form)
            ent = run1.call_bin(op, la, ra, copy)
            sig = judge_bin(op, l, rr, ent)
            print("%s(%s, %s%s) = %s, expected %s%s" % (c["op"], jsonable(l), jsonable(rr), ", copy flags" if copy else "", jsonable(ent),
                                                      jsonable(oracle_bin(op, l, rr)), "  <-- WRONG" if sig else ""))
            if sig:
                bad[sig].append(failing_record(("bin", "replay", op, copy, l, rr, ent, None), sig))
    ctx.evaluations = n
    ctx.level = "exploration"
    ctx.nontrivial.update(range(max(2, n)))
    ctx.rule = "replay of recorded failing inputs"
    ctx.samples = r.get("failing_inputs", [])[:3] or ["(no recorded failing input: the replay file names a proof obligation / disagreeing cases)"]
    if not r.get("failing_inputs"):
        print("replay file holds no failing input (kind=%s); re-run the full check: ./check C08" % r.get("kind"))
    for sig, recs in bad.items():
        ctx.report(sig, "replayed failing input still fails: " + WHAT.get(sig, sig), {"failing_inputs": recs})
