"""C03 - index cube, array cube and direct group-by agree on the shared aggregates.

Proof : Properties/C03.v  (ffunc_A_direct for count / valid_count / sum / mean: the index-cube model - corner values,
        fill, marginal differencing of every region, reduce - equals the per-cell specification on the rows of each
        cell; xfunc_A_direct with stride_bijection for the array-cube model; hidden_values_irrelevant; C03_agree).
Tie W2: every call is run on the real `ccube` (real iindex dimensions) and the real `xcube` (the equivalent dense arrays
        in every integer dtype, or what `to_array` returns), and both outputs are compared INSIDE Coq with the models
        FFuncs.ccube_report / XCube.xcube_report and with Direct.direct (Cube/AggCheck.v: agg_check_any).
Oracle: harness/cube_aggs.oracle - textbook per-cell computation in exact Fractions, no model.
"""
import json

from .. import core
from .. import cube_aggs as ca

# C03 is about values and missing cells: NaN and (sentinel, False) formats; C04 runs the formats against each other
FORMATS = (("nan",), ("nan",), ("pair", 0), ("pair", -3), ("plain", 0))
THEOREMS = ["C03_ffunc_direct", "C03_xfunc_direct", "C03_stride_bijection", "C03_hidden_values_irrelevant", "C03_agree"]
HOW = ("case_from_json(case) -> cube_aggs.run_cube(catii, case, 'c'|'x', format) (ccube over cube_aggs.build_index dimensions / "
       "xcube over the dense arrays) and compare with cube_aggs.oracle(case)")


def pick_fmt(rng, c):
    while True:
        fmt = rng.choice(FORMATS)
        if c.get("unit") and c["kind"] == "valid_count" and fmt[0] == "plain":
            continue            # the plain-0 shortcut snaps weighted counts below 1e-8 to 0 (documented shortcut / exclusion)
        if not ca.is_shortcut(c, fmt):
            return fmt


def run(ctx):
    thorough = ctx.tier == "thorough"
    rng = ctx.rng
    ctx.rule = ("structured cube calls: aggregate in count/valid_count/sum/mean x 0-3 dimensions (extents 1-4, one dominating / uniform / "
                "absent categories, stored common frequent/rare/absent) x N in 0..8 x fact NaN-marked or (values, validity), 1 column or "
                "(N,K) K in 1..3, int64/float64, missing share 0/15/30/60/100 % x weights None/scalar/scalar pair/array/pair with zeros "
                "and missing x ignore_missing x dense arrays for xcube in int8..uint64 or iindex.to_array() x explicit/inferred shape; "
                "values hidden under False validity = NaN/inf/-inf/1.5e300/0/same.  Streams: random; boundary (extent products 255/256/257/"
                "65535/65536/65537 and first-dimension-wide shapes, rows in the last cells; sparse evaluation beyond 1024 cells); "
                "zero-dimension; dtype sweep; weight-spread (one or two rows weigh 2**20..2**40 next to 0.25..7, all dyadic, exact); "
                "int-weights (integer weights 0..250 whose sums cross 128/256, handed over in narrow integer dtypes); decimal-weights "
                "(0.9, 1.2, 1.3 ... with absent categories; tolerance); scale (N in 30..120 rows, 2-3 lopsided dimensions: a dominant "
                "category, rare categories of 1-3 rows; dyadic or decimal weights; facts with a few missing rows); many-columns (one "
                "dimension of 23..40 categories, 12..14 fact columns); float (arbitrary doubles; tolerance 1e-9 of the grand total).  "
                "Dyadic cases are compared exactly by the oracle AND inside Coq while the literal stays within a few hundred numbers (the "
                "theorems are size-independent); larger and inexact cases are judged by the exact oracle and cube against cube only and "
                "counted as oracle_only_calls.  In about 60 % of the cases the FORM of every argument varies with the content unchanged "
                "(harness/forms.py; tags form:* in the distribution): facts float64/int64 in C / Fortran / strided / negative-stride / "
                "read-only / transposed layouts, float32 when exact, narrow signed ints when unweighted and the sums fit, nested lists; "
                "validity arrays as bool (any layout) / uint8 / list; weights float64 / float32 / every integer dtype holding them / list, "
                "any layout; scalar weights (bare and in the pair form) as Python float / int, numpy.float64 / float32, 0-d array and NumPy integer scalars of every dtype incl. narrow ones whose product with the row count exceeds the dtype; xcube arrays in every integer "
                "dtype and layout; iindex dimensions from the constructor (row-id column views, NumPy-scalar N) or from_array on narrow "
                "dtypes; interacting_shape entries as NumPy scalars of every integer dtype (signed and unsigned, any number of dimensions), N as a NumPy scalar, NumPy-scalar commons (a common-at-dtype-max stream: uint8 255 / int8 127 / uint16 65535 / int16 32767 with an inferred shape).  Not generated (outside the quantifier or documented; notes FORM "
                "FINDINGS): unsigned / overflowing narrow facts, a weights tuple of numbers, interacting_shape as a list, a NumPy-scalar iindex common together with xcube(d.to_array()).  A case = one (call, format) "
                "literal, non-trivial when N > 0 and the cube has >= 1 dimension or a fact/weight")
    ctx.trusted = list(core.STD_TRUSTED) + [
        "SetOps: set_intersect_merge_np on increasing inputs = inter_spec (property C08); extra axes of a dimension (C13)",
        "NumPy primitives modelled, not verified: bincount (weights/minlength), boolean-mask selection and sum over axis 0, astype "
        "(wrap modulo 2^bits), NEP-50 promotion of narrow array * int64 scalar, isnan/isclose on exact values; binary64 sums of the "
        "dyadic inputs are exact, a mean is one correctly rounded division (compared within 2^-45 relative)",
        "harness/cube_aggs.py: abstraction of the three report formats to (Fraction | missing) per cell and column",
        "cubes beyond 1024 cells: the index-cube side is compared with the right-hand side of theorem ffunc_A_direct "
        "(hypotheses dim_wf_b / covers_b checked per case) instead of the tabulated model"]
    pr = ctx.prove("C03.v")
    ctx.assumptions = ["Print Assumptions: " + a for a in pr["assumptions"]] + [
        "ffunc_A_direct: 0 <= N, well-formed one-axis dimensions over N rows (dim_wf), every listed value and the common in [0, extent) "
        "(covers); count is called without a fact, the others with one; fact and weight arrays have N rows",
        "xfunc_A_direct: every dense value in [0, extent), prod extents <= 2^32-1 (else the code raises TypeError: modelled)",
        "weights are exact rationals (negative weights and isclose tolerances are outside the model, DESIGN 3)"]
    ctx.coverage["print_assumptions"] = pr["assumptions"]
    catii = ctx.import_catii()
    S = ca.Suite(ctx, catii)

    def one(c, tag):
        return one_fmt(c, tag, pick_fmt(rng, c))

    def one_fmt(c, tag, fmt):
        S.count("stream:" + tag)
        S.count("kind:" + c["kind"])
        S.count("weights:" + c["wkind"])
        S.count("dims:%d" % len(c["exts"]))
        if c["fact"] is not None:
            S.count("fact:%s/%s/%s" % (c["fform"], c["fdtype"], "1col" if c["K"] is None else "K%d" % c["K"]))
        S.count("xdtype:" + c["xdtype"])
        n0 = len(S.lits)
        rc, rx = S.call(c, fmt, tag=tag, to_coq=ca.literal_is_small(c))
        if len(S.lits) > n0 and c["N"] > 0 and (c["exts"] or c["fact"] is not None or c["wkind"] != "none"):
            ctx.nontrivial.add(S.lits[-1])
        # the two cubes against each other, without oracle or model
        if rc and rx and rc.get("cells") is not None and rx.get("cells") is not None and tuple(rc["shape"]) == tuple(rx["shape"]):
            d = ca.cells_agree(c, rc["cells"], rx["cells"], exact=not c.get("float_stream"))
            if d and not any(f["case"] == ca.case_json(c) for f in S.found[-2:]):
                S.fail(c, fmt, "c", "ccube and xcube differ: " + d)
        return rc, rx

    n_rand = 60000 if thorough else 4500
    for i in range(n_rand):
        c = ca.gen_case(rng)
        rc, rx = one(c, "random")
        if i < 3 and rc and rc.get("cells") is not None:
            ctx.samples.append({"case": ca.case_json(c), "ccube_cells": [[None if v is None else float(v) for v in row] for row in rc["cells"][:12]]})
    shapes = list(ca.BOUNDARY_SHAPES) + list(ca.EXTRA_BOUNDARY_SHAPES)
    for rep in range(30 if thorough else 3):
        for shp in shapes:
            one(ca.boundary_case(rng, shape=shp, kind=ca.KINDS[(rep + len(shp)) % 4] if rep else None), "boundary")
    for rep in range(10 if thorough else 2):
        for dt in ca.INT_DTYPES + ("to_array",):
            for mode in ("explicit", "inferred"):
                one(ca.dtype_sweep_case(rng, dt, mode), "dtype-sweep")
    for rep in range(40 if thorough else 8):
        for kind in ca.KINDS:
            one(ca.zero_dim_case(rng, kind), "zero-dim")
    for i in range(3000 if thorough else 250):
        one(ca.spread_case(rng), "weight-spread")
    for i in range(6000 if thorough else 400):
        one(ca.decimal_case(rng, absent=(i % 2 == 0)), "decimal-weights")
    for i in range(3000 if thorough else 260):
        rc_ = ca.relations_case(rng)
        ca.run_relations(S, rc_, pick_fmt(rng, rc_))
    for i in range(3000 if thorough else 260):
        base = None
        for uc, ff, wf in ca.unit_variants(rng):
            S.count("unit:fact x %g, weight x %g" % (float(ff), float(wf)))
            if uc.get("float_stream"):
                one(uc, "unit")
                continue
            fmt_u = ("nan",) if base is None else base[0]
            rc, rx = one_fmt(uc, "unit", fmt_u)
            if base is None:
                base = (fmt_u, rc, rx)
            else:
                for w_, r0, r1 in (("c", base[1], rc), ("x", base[2], rx)):
                    if r0 and r1 and r0.get("cells") is not None and r1.get("cells") is not None:
                        bad = ca.unit_law(uc, r0["cells"], r1["cells"], ff, wf)
                        if bad and not any(f["case"] == ca.case_json(uc) for f in S.found[-2:]):
                            S.fail(uc, fmt_u, w_, "unit law: " + bad)
    for i in range(2500 if thorough else 200):
        one(ca.int_weights_case(rng), "int-weights")
    for i in range(2000 if thorough else 160):
        one(ca.int_weights_case(rng, kind=ca.KINDS[i % 4] if i % 2 else "count", scalar=True), "int-scalar-weight")
    for i in range(300 if thorough else 30):
        one(ca.max_common_case(rng), "common-at-dtype-max")
    for i in range(1500 if thorough else 120):
        one(ca.scale_case(rng, decimal=(i % 3 == 2)), "scale")
    for i in range(30 if thorough else 3):
        one(ca.many_columns_case(rng, kind="sum" if i == 0 else None), "many-columns")
    n_float = 15000 if thorough else 600
    for i in range(n_float):
        one(ca.float_case(rng), "float")

    for i in range(24 if thorough else 4):
        ca.run_big(S, ca.big_params(rng, i), [("nan",), ("pair", -3)])
    ctx.coverage["oracle_only_calls"] = S.oracle_only
    ctx.coverage.update({"real_calls": S.calls, "calls_compared_in_coq": len(S.lits), "float_stream_calls": n_float,
                         "distribution": dict(sorted(S.dist.items()))})
    ctx.evaluations = len(S.lits) + S.oracle_only
    shard = 2000 if thorough else 120
    S.spread(shard)
    res = core.run_cases("c03", ca.PRELUDE, S.lits, ca.CASE_TYPE, ca.CHECK_EXPR, ca.EXPLAIN_EXPR, shard_size=shard)
    ca.conclude(ctx, "C03", pr, S, res, THEOREMS, HOW)


def replay(ctx, path):
    def rejudge(catii, c, fmt, it):
        which = {"ccube": "c", "xcube": "x"}.get(it.get("cube"), "cx")
        out = []
        for w in which:
            res = ca.run_cube(catii, c, w, fmt)
            want = None
            if c["shape_mode"] == "inferred":
                want = ca.inferred_shapes(c)[0 if w == "c" else 1]
            b = ca.judge(c, w, fmt, res, shape_expected=want)
            if b:
                out.append("%scube: %s" % (w, b))
        return "; ".join(out) or None
    r, bad = ca.replay_inputs(ctx, path, rejudge)
    if bad:
        ctx.report(r.get("signature", "c03:replay"), "replayed failing input still fails", {"failing_inputs": bad})
