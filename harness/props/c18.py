"""C18 - array-cube-only statistics (stddev, quantile, min, max, covariance, corrcoef) equal the
per-cell textbook statistic.

Proofs : coq/theories/Properties/C18.v over the model coq/theories/Cube/XStats.v (exact rationals).
Tie W2 : generated small cubes are run through the real xcube in both report formats; the input and
         both reports are written as Gallina literals and recomputed by the model inside Coq
         (Cube/XStatsCheck.v `check_case`; exact comparison where the double result is exact,
         1e-9 relative otherwise; masks exactly).
Oracle : harness/xstats_oracle.py - textbook statistic over the rows whose category tuple is the
         cell (fractions / math), judges every case directly on the implementation.
"""
import json
import math
import warnings
from fractions import Fraction

from .. import core
from .. import forms as formlib
from .. import xstats_oracle as orc

KINDS = ("stddev", "quantile", "min", "max", "covariance", "corrcoef")
KIND_CODE = {"stddev": 1, "quantile": 2, "min": 3, "max": 4, "covariance": 5, "corrcoef": 6}
PROBS = (0.0, 0.25, 0.5, 0.75, 1.0, 0.1)
DYADIC_P = (0.0, 0.25, 0.5, 0.75, 1.0)
TOL = 1e-9
OFFSETS = (10 ** 6, 10 ** 8, 1700000000, 2 ** 40, -10 ** 9, 2 ** 30)
# units <= 1 only: the comparison's absolute part is scaled DOWN with the unit (case_tol); for units above 1 it would stay at 1e-9
# while the rounding noise of an exactly-zero covariance grows with the unit (false alarm of the thorough tier, DESIGN 0.4);
# large magnitudes are covered by the offset stream and the weight scales
UNIT_POW2 = (-40, -30, -20, -10, -5, -1)
UNIT_DEC = (1e-5, 1e-9, 1e-3)
WPOWS = (-60, -40, -20, 20, 40)
OFFSET_KINDS = ("stddev", "quantile", "covariance", "corrcoef")
EPOCH0 = 1577836800  # 2020-01-01T00:00:00, datetime facts are EPOCH0 + small second offsets


# ----------------------------------------------------------------------------------------------
# generation
# ----------------------------------------------------------------------------------------------

def gen_case(rng, kind):
    N = rng.choice([1, 2, 3, 4, 5, 6, 7, 8, 9, 10, 10])
    nd = rng.choice([0, 1, 1, 1, 2, 2, 2, 3])
    if nd == 3:
        exts = [rng.randint(1, 2) for _ in range(3)]
    else:
        exts = [rng.randint(1, 3) for _ in range(nd)]
    # a few cells get most rows so that cells with 0..4 rows all occur
    dims = []
    for e in exts:
        if rng.random() < 0.3:
            fav = rng.randrange(e)
            dims.append([fav if rng.random() < 0.6 else rng.randrange(e) for _ in range(N)])
        else:
            dims.append([rng.randrange(e) for _ in range(N)])
    if kind in ("covariance", "corrcoef"):
        K = rng.choice([2, 3, 3])
    elif kind in ("min", "max"):
        K = None
    else:
        K = rng.choice([None, None, None, 2])
    ncol = 1 if K is None else K
    if kind in ("min", "max"):
        ftype = rng.choice(["float", "int", "datetime"])
    else:
        ftype = rng.choice(["float", "float", "float", "int"])
    den = 1 if ftype != "float" else rng.choice([1, 2, 4])
    span = rng.choice([2, 4, 8])
    fact = [[rng.randint(-span, span) / den for _ in range(ncol)] for _ in range(N)]
    # 'large offset' stream: facts whose per-cell mean is large compared with their spread (timestamps,
    # balances, ids).  Every value offset + k*unit/den is exactly representable in float64, so the exact
    # model / oracle give the true statistic.  The two-pass code itself rounds the per-cell mean to
    # ulp(offset)/2, an absolute variance error of about n*ulp(offset)^2/4: negligible up to 1.7e9 with a unit
    # spread; for 2^40 the spread unit is 2^10 so that the error stays far below the 1e-9 tolerance.
    # 'compact integer' content: scores 0..200 / -120..120 with integer frequency weights 1..5, so that when BOTH are
    # handed over as narrow integer arrays (see choose_forms) value*weight lies beyond the dtype
    compact = kind in ("stddev", "quantile", "covariance") and rng.random() < 0.15
    if compact:
        ftype, den = "int", 1
        lo, hi = rng.choice([(0, 200), (-120, 120), (0, 120)])
        fact = [[float(rng.randint(lo, hi)) for _ in range(ncol)] for _ in range(N)]
    offset, unit = 0, 1
    if kind in OFFSET_KINDS and not compact and rng.random() < 0.3:
        offset = rng.choice(OFFSETS)
        unit = 1024 if abs(offset) >= 2 ** 38 else 1
        fact = [[float(offset) + x * unit for x in row] for row in fact]
    # fact UNIT stream: the same facts in another unit - every column times an exact power of two 2^-40..2^-1 (everything
    # stays exact: the statistic must scale exactly, correlation must be bit-identical) or a decimal unit 1e-3 / 1e-5 / 1e-9
    # (the rounded products ARE the input; not for correlation, where a constant non-dyadic column has a rounding-noise
    # variance and NumPy's entry - mathematically undefined, not compared - differs from the exact model's); the factor
    # is global or chosen per column.  Not combined with the offset stream (the tolerance is relative to the unit).
    funit = None
    if ftype == "float" and not compact and offset == 0 and rng.random() < 0.3:
        pool = [2.0 ** e for e in UNIT_POW2] * 2 + ([] if kind == "corrcoef" else list(UNIT_DEC))
        if ncol > 1 and rng.random() < 0.5:
            funit = [rng.choice(pool) for _ in range(ncol)]
        else:
            funit = [rng.choice(pool)] * ncol
        fact = [[x * funit[k] for k, x in enumerate(row)] for row in fact]
    pm = rng.choice([0.0, 0.1, 0.25, 0.5])
    fvalid = [[rng.random() >= pm for _ in range(ncol)] for _ in range(N)]
    if kind in ("covariance", "corrcoef") and rng.random() < 0.3:
        # different missing patterns per column: one column loses exactly the rows another keeps
        a, b = rng.sample(range(ncol), 2)
        for r in range(N):
            if rng.random() < 0.3:
                fvalid[r][a], fvalid[r][b] = False, True
    allvalid = all(all(v) for v in fvalid)
    if ftype == "int":
        fform = "pair" if (not allvalid or rng.random() < 0.5) else "plain"
    else:
        fform = rng.choice(["nan", "pair"])
    hidden = [[rng.choice([float("nan"), float("inf"), -1e300, 12345.0, 0.0]) if ftype == "float"
               else rng.choice([-99999, 0, 77777]) for _ in range(ncol)] for _ in range(N)]
    if kind in ("stddev", "quantile", "covariance"):
        wkind = rng.choice(["none", "none", "arr", "arr", "pair"])
    else:
        wkind = "none"
    w = wvalid = whidden = None
    if wkind != "none":
        pool = [0.5, 1.0, 2.0, 0.25, 1.5, 3.0, 4.0] if rng.random() < 0.6 else [0.5, 1.0, 2.0, 4.0]
        w = [rng.choice(pool) for _ in range(N)]
        if compact:
            w = [float(rng.randint(1, 5)) for _ in range(N)]
        elif kind == "stddev" and rng.random() < 0.3:
            w = [0.0 if rng.random() < 0.25 else x for x in w]
        pw = rng.choice([0.0, 0.0, 0.15, 0.3])
        wvalid = [rng.random() >= pw for _ in range(N)]
        whidden = [rng.choice([float("nan"), 1e300, 0.0, 7.0]) for _ in range(N)]
    # weight-SCALE stream: every weighted statistic here is a ratio of weighted sums, so multiplying the weights by
    # 2^e (exact in float64; the exact model / oracle see the scaled weights too) must change nothing; 'all' rescales
    # every row, 'stratum' only the rows of one cell (a tiny / huge stratum next to ordinary ones)
    wpow, wpow_kind = 0, None
    if wkind != "none" and not compact and rng.random() < 0.3:
        wpow = rng.choice(WPOWS)
        wpow_kind = rng.choice(["all", "all", "stratum"])
        if wpow_kind == "stratum" and N:
            r0 = rng.randrange(N)
            rows = [r for r in range(N) if all(d[r] == d[r0] for d in dims)]
        else:
            rows = range(N)
        for r in rows:
            w[r] = w[r] * 2.0 ** wpow
    p = rng.choice(PROBS + (round(rng.random(), 3), rng.random()))
    case = {"kind": kind, "N": N, "exts": exts, "dims": dims, "dimdtype": rng.choice(["int64", "int64", "int8", "uint8", "int32"]),
            "K": K, "ftype": ftype, "fform": fform, "offset": offset, "funit": funit, "fact": fact, "fvalid": fvalid, "fhidden": hidden,
            "wkind": wkind, "w": w, "wvalid": wvalid, "whidden": whidden, "wpow": wpow, "wpow_kind": wpow_kind,
            "ign": rng.random() < 0.5, "p": p,
            "sentinel": rng.choice([0, 0, -7, 3]) if ftype != "float" else rng.choice([0, 0.0, -7.0, 2.5])}
    fix_zero_weight_cells(case)
    case["compact"] = compact
    case["forms"] = choose_forms(rng, case)
    return case


# ----------------------------------------------------------------------------------------------
# the FORM of the arguments (dtype, memory layout, container) - the content, hence the Gallina literal and the
# oracle, is untouched.  Choices are stored in the case (replay / shrink rebuild exactly the same arrays).
# Integer-dtype weights for covariance and interacting_shape as NumPy UNSIGNED scalars are generated since the repairs
# F26 / F25.  Not generated because the code does not take them (outside the quantifier): interacting_shape as a
# list; weights of shape (N, 1); an (N, 1) fact for min / max (one-column facts only); datetime64 units other than [s] (the sentinel of the
# (values, validity) report is unit-relative).
# ----------------------------------------------------------------------------------------------

LAYOUTS_1D = ["strided", "readonly", "negstride", "list"]
LAYOUTS_2D = ["fortran", "transposed-store", "strided", "readonly", "negstride", "list"]


def _integral(xs):
    return all(math.isfinite(x) and float(x) == int(x) for x in xs)


def _f32_exact(np, xs):
    return all(math.isfinite(x) and float(np.float32(x)) == float(x) for x in xs)


def choose_forms(rng, case):
    import numpy as np
    F = {}
    kind, N, K = case["kind"], case["N"], case["K"]
    ncol = 1 if K is None else K
    valid_vals = [case["fact"][r][k] for r in range(N) for k in range(ncol) if case["fvalid"][r][k]]
    allvalid = len(valid_vals) == N * ncol
    weighted = case["wkind"] != "none"
    valid_w = [case["w"][r] for r in range(N) if case["wvalid"][r]] if weighted else []
    narrow_pair = case.get("compact") and weighted and rng.random() < 0.7
    # facts
    if case["ftype"] != "datetime":
        can_int = N > 0 and _integral(valid_vals) and (case["fform"] in ("pair", "plain") or allvalid)
        if narrow_pair and can_int and case["wkind"] == "pair" or (narrow_pair and can_int and all(case["wvalid"])):
            cands = [d for d in formlib.int_dtypes_holding([int(x) for x in valid_vals] + [int(x) for x in valid_w])
                     if d in ("int8", "uint8", "int16", "uint16")]
            if cands:
                F["fact_dtype"] = F["w_dtype"] = cands[0] if rng.random() < 0.7 else rng.choice(cands)
        if "fact_dtype" not in F and rng.random() < 0.4:
            opts = []
            if can_int:
                opts += formlib.int_dtypes_holding([int(x) for x in valid_vals] or [0])
            if case["ftype"] == "float" and _f32_exact(np, valid_vals):
                opts += ["float32", "float32"]
            if case["ftype"] == "int":
                opts += ["float64"]
            if opts:
                F["fact_dtype"] = rng.choice(opts)
    if rng.random() < 0.35:
        F["fact_layout"] = rng.choice(LAYOUTS_1D if K is None else LAYOUTS_2D)
        if case["ftype"] == "datetime" and F["fact_layout"] == "list":
            F["fact_layout"] = "readonly"          # a list of datetime.datetime objects is not a datetime64 fact
    if kind in ("min", "max") and str(F.get("fact_dtype", "")).startswith(("int", "uint")):
        case["sentinel"] = int(case["sentinel"])   # an integer result array cannot hold the sentinel 2.5 ...
        if F["fact_dtype"].startswith("uint") and case["sentinel"] < 0:
            case["sentinel"] = 3                   # ... nor an unsigned one the sentinel -7 (NumPy raises OverflowError)
    if K is None and kind in ("stddev", "quantile") and rng.random() < 0.15:
        F["fact_col"] = True                                   # shape (N, 1): "several columns", one of them
    # weights
    if weighted:
        if "w_dtype" not in F and rng.random() < 0.4:
            opts = []
            if N > 0 and _integral(valid_w) and (case["wkind"] == "pair" or all(case["wvalid"])):
                opts += formlib.int_dtypes_holding([int(x) for x in valid_w] or [0])
            if _f32_exact(np, valid_w):
                opts += ["float32"]
            if opts:
                F["w_dtype"] = rng.choice(opts)
        if rng.random() < 0.35:
            F["w_layout"] = rng.choice(LAYOUTS_1D)
    # dimension arrays: any integer dtype that holds the values, any layout, lists
    F["dim_dtypes"] = [rng.choice(formlib.int_dtypes_holding(d or [0])) if rng.random() < 0.6 else case["dimdtype"] for d in case["dims"]]
    F["dim_layouts"] = [rng.choice(LAYOUTS_1D) if rng.random() < 0.3 else "c" for _ in case["dims"]]
    # scalars
    if rng.random() < 0.3:
        F["shape_form"] = rng.choice(["int64", "int32", "int8", "intp", "uint8", "uint8", "uint16", "uint32", "uint64"])
    if kind == "quantile" and rng.random() < 0.4:
        opts = ["float64", "array0d"]
        if float(np.float32(case["p"])) == case["p"]:
            opts.append("float32")
        if case["p"] in (0.0, 1.0):
            opts += ["int", "int8", "uint8"]
        F["p_form"] = rng.choice(opts)
    return F


def apply_layout(np, a, kind):
    if kind in (None, "c"):
        return a
    if kind == "list":
        return a.tolist()
    if kind == "fortran":
        return np.asfortranarray(a)
    if kind == "transposed-store":
        return np.transpose(np.ascontiguousarray(np.transpose(a)))
    if kind == "strided":
        big = np.zeros((a.shape[0] * 2,) + a.shape[1:], dtype=a.dtype)
        big[::2] = a
        if a.dtype.kind == "f":
            big[1::2] = np.nan
        return big[::2]
    if kind == "negstride":
        return a[::-1].copy()[::-1]
    b = a.copy()
    b.setflags(write=False)
    return b


def form_tags(case):
    F = case.get("forms") or {}
    tags = []
    for k in ("fact_dtype", "fact_layout", "w_dtype", "w_layout", "shape_form", "p_form"):
        if F.get(k):
            tags.append("%s=%s" % (k, F[k]))
    if F.get("fact_col"):
        tags.append("fact (N,1)")
    for d in F.get("dim_dtypes", []):
        tags.append("dim_dtype=%s" % d)
    for l in F.get("dim_layouts", []):
        if l != "c":
            tags.append("dim_layout=%s" % l)
    if F.get("fact_dtype") and F.get("fact_dtype") == F.get("w_dtype") and F["fact_dtype"] in ("int8", "uint8", "int16", "uint16"):
        tags.append("narrow fact x narrow weights (same dtype), products beyond the dtype: %s"
                    % any(not (-(2 ** (8 * (1 if "8" in F["fact_dtype"] else 2) - (0 if F["fact_dtype"][0] == "u" else 1))) <= int(x[0]) * int(wt)
                               < 2 ** (8 * (1 if "8" in F["fact_dtype"] else 2) - (0 if F["fact_dtype"][0] == "u" else 1)))
                          for x, wt in zip(case["fact"], case["w"])))
    return tags


def fix_zero_weight_cells(case):
    """a weighted variance is undefined when the valid weights of the cell sum to zero: keep zero
    weights, but never a whole cell of them"""
    if case["wkind"] == "none" or case["kind"] != "stddev":
        return
    for cell in orc.cell_tuples(case["exts"]):
        R = orc.rows_of(case, cell)
        for k in range(1 if case["K"] is None else case["K"]):
            V = [r for r in R if case["fvalid"][r][k] and case["wvalid"][r]]
            if V and sum(case["w"][r] for r in V) == 0:
                case["w"][V[0]] = 1.0


# ----------------------------------------------------------------------------------------------
# 'huge' stream: more rows than any internal block size (N in 65 537 .. 150 000); oracle only, no Coq literal
# ----------------------------------------------------------------------------------------------

HUGE_BLOCK = 1 << 16


def gen_huge(rng, kind, ftype="float", weighted=False, ign=None):
    """compact, replayable description of a huge case; `expand_huge` rebuilds the full case from it"""
    matrix = kind in ("covariance", "corrcoef")
    nd = rng.choice([0, 1, 1, 2, 2])
    return {"seed": rng.randrange(1 << 30), "kind": kind, "ftype": ftype,
            "N": rng.randint(HUGE_BLOCK + 1, 90000 if matrix else 150000),
            "exts": [rng.randint(2, 4) for _ in range(nd)] if nd < 2 else [rng.randint(2, 3), rng.randint(2, 4)],
            "K": 2 if matrix else None,
            "wkind": rng.choice(["arr", "pair"]) if weighted else "none",
            "ign": (rng.random() < 0.5) if ign is None else ign,
            "nmiss": rng.randint(2, 5), "p": rng.choice(PROBS + (round(rng.random(), 3),)),
            "dimdtype": rng.choice(["int64", "int8", "uint8", "int32"])}


def expand_huge(h):
    import random
    rng = random.Random(h["seed"])
    N, exts, K, ftype = h["N"], h["exts"], h["K"], h["ftype"]
    ncol = 1 if K is None else K
    dims = [[rng.randrange(e) for _ in range(N)] for e in exts]
    den = 4 if ftype == "float" else 1
    fact = [[rng.randint(-32, 32) / den for _ in range(ncol)] for _ in range(N)]
    fvalid = [[True] * ncol for _ in range(N)]
    # a handful of missing rows: at least one in the first 65536-row block and one beyond it, so that the cell of a
    # missing row always has (tens of thousands of) valid rows in OTHER blocks
    miss = [rng.randrange(HUGE_BLOCK), rng.randrange(HUGE_BLOCK, N)] + [rng.randrange(N) for _ in range(h["nmiss"] - 2)]
    for r in miss:
        fvalid[r][rng.randrange(ncol)] = False
    fform = "pair" if ftype == "int" else rng.choice(["nan", "pair"])
    hidden = [[(rng.choice([float("nan"), float("inf"), -1e300, 12345.0]) if ftype == "float" else rng.choice([-99999, 77777]))
               if not fvalid[r][k] else 0 for k in range(ncol)] for r in range(N)]
    w = wvalid = whidden = None
    if h["wkind"] != "none":
        w = [rng.choice([0.5, 1.0, 2.0, 4.0]) for _ in range(N)]
        wvalid = [True] * N
        for r in (rng.randrange(HUGE_BLOCK), rng.randrange(HUGE_BLOCK, N)):
            if rng.random() < 0.5:
                wvalid[r] = False
        whidden = [7.0 if v else rng.choice([float("nan"), 1e300, 0.0, 7.0]) for v in wvalid]
    return {"kind": h["kind"], "N": N, "exts": exts, "dims": dims, "dimdtype": h["dimdtype"], "K": K, "ftype": ftype,
            "fform": fform, "offset": 0, "fact": fact, "fvalid": fvalid, "fhidden": hidden, "wkind": h["wkind"], "w": w,
            "wvalid": wvalid, "whidden": whidden, "wpow": 0, "wpow_kind": None, "ign": h["ign"], "p": h["p"],
            "sentinel": 0 if ftype != "float" else -7.0, "huge": h}


def huge_plan(rng, tier):
    """every statistic once per quick run (min/max under PROPAGATION for float, int and datetime facts - the rule that a
    block-wise reduction can get wrong - plus one under ignore), three rounds in the thorough tier"""
    plan = []
    for _ in range(1 if tier == "quick" else 3):
        mm = [rng.choice(["min", "max"]) for _ in range(4)]
        plan += [gen_huge(rng, mm[0], "float", ign=False), gen_huge(rng, mm[1], "int", ign=False),
                 gen_huge(rng, mm[2], "datetime", ign=False), gen_huge(rng, mm[3], rng.choice(["float", "int", "datetime"]), ign=True),
                 gen_huge(rng, "stddev", rng.choice(["float", "int"]), weighted=rng.random() < 0.5),
                 gen_huge(rng, "quantile", "float", weighted=False), gen_huge(rng, "quantile", "float", weighted=True),
                 gen_huge(rng, "covariance", "float", weighted=rng.random() < 0.5), gen_huge(rng, "corrcoef", "float")]
    return plan


def is_pow2(x):
    return x > 0 and math.frexp(x)[0] == 0.5


def unit_factors(case):
    """per output entry of ONE cell (column k, or matrix entry (i, j)): the factor by which the reported number (variance
    for stddev) scales when column k is multiplied by funit[k]"""
    u = case.get("funit")
    ncol = 1 if case["K"] is None else case["K"]
    if not u:
        u = [1.0] * ncol
    u = [Fraction(x) for x in u]
    kind = case["kind"]
    if kind == "stddev":
        return [x * x for x in u]
    if kind == "covariance":
        return [a * b for a in u for b in u]
    if kind == "corrcoef":
        return [Fraction(1)] * (ncol * ncol)
    return u


def case_tol(case, coq=False):
    """1e-9 relative; for facts in a small unit the absolute part of `|a-b| <= tol*(1+|b|)` is scaled to the (largest)
    unit of the result so that the comparison stays meaningful"""
    u = case.get("funit")
    if abs(case.get("offset") or 0) >= 2 ** 38:
        # facts around 2^40: the two-pass code rounds the per-cell mean to ulp(2^40)/2 = 2^-13, which leaves rounding noise of up to
        # ~1e-8 in a covariance whose textbook value is exactly 0 (no relative slack there): false alarm under seed 1 (DESIGN 0.4)
        return Fraction(1, 10 ** 6)
    if not u:
        return Fraction(1, 10 ** 9)
    if case["kind"] == "corrcoef":
        f = max(Fraction(x) for x in u) ** 4 if coq else Fraction(1)     # Coq compares q^2 c_ii c_jj with c_ij^2
    else:
        f = max(unit_factors(case))
    return Fraction(1, 10 ** 9) * min(Fraction(1), f)


def exact_expected(case):
    """is the double result of the real code the exact rational result (dyadic inputs)?"""
    k = case["kind"]
    if k in ("min", "max"):
        return True
    if case.get("funit") and not all(is_pow2(x) for x in case["funit"]):
        return False
    if k == "quantile" and case["p"] in DYADIC_P:
        if case["wkind"] == "none":
            return True
        return all(x > 0 and math.frexp(x)[0] == 0.5 for x in case["w"])
    return False


def with_fractions(case):
    """oracle view of a case: exact rationals for every double"""
    c = dict(case)
    c["fact"] = [[Fraction(x) for x in row] for row in case["fact"]]
    return c


# ----------------------------------------------------------------------------------------------
# running the implementation
# ----------------------------------------------------------------------------------------------

def build_args(np, case, wscale=None):
    N, K = case["N"], case["K"]
    F = case.get("forms") or {}
    ddt = F.get("dim_dtypes") or [case["dimdtype"]] * len(case["dims"])
    dly = F.get("dim_layouts") or ["c"] * len(case["dims"])
    dims = [apply_layout(np, np.array(d, dtype=ddt[i]), dly[i]) for i, d in enumerate(case["dims"])]
    ft = case["ftype"]
    shape = (N,) if K is None else (N, K)
    fv = np.array(case["fvalid"], dtype=bool).reshape(shape)
    if ft == "float":
        vals = np.array(case["fact"], dtype=float).reshape(shape)
        hid = np.array(case["fhidden"], dtype=float).reshape(shape)
    elif ft == "int":
        vals = np.array([[int(x) for x in r] for r in case["fact"]], dtype=np.int64).reshape(shape)
        hid = np.array(case["fhidden"], dtype=np.int64).reshape(shape)
    else:
        vals = (np.array([[int(x) for x in r] for r in case["fact"]], dtype=np.int64).reshape(shape) + EPOCH0).astype("datetime64[s]")
        hid = (np.array(case["fhidden"], dtype=np.int64).reshape(shape) + EPOCH0).astype("datetime64[s]")
    fdt = F.get("fact_dtype")
    if fdt and ft != "datetime":
        with np.errstate(all="ignore"):
            if fdt.startswith(("int", "uint")):
                hid = np.full(shape, np.iinfo(fdt).max, dtype=fdt)       # something the dtype can hold under validity False
                v0 = vals.copy()
                v0[~fv] = 0
                vals = v0.astype(fdt)
            else:
                vals, hid = vals.astype(fdt), hid.astype(fdt)
    fly = F.get("fact_layout")
    col = (lambda a: a.reshape(N, 1)) if F.get("fact_col") else (lambda a: a)
    if case["fform"] == "plain" or (case["fform"] == "nan" and vals.dtype.kind in "iu"):
        farg = apply_layout(np, col(vals), fly)
    elif case["fform"] == "nan":
        farg = vals.copy()
        farg[~fv] = np.datetime64("NaT") if ft == "datetime" else float("nan")
        farg = apply_layout(np, col(farg), fly)
    else:
        v2 = vals.copy()
        v2[~fv] = hid[~fv]
        farg = (apply_layout(np, col(v2), fly), apply_layout(np, col(fv.copy()), fly if fly != "strided" else "negstride"))
    warg = None
    if case["wkind"] != "none":
        wv = np.array(case["wvalid"], dtype=bool)
        wa = np.array(case["w"], dtype=float)
        if wscale is not None:
            wa = wa * wscale
        wdt = F.get("w_dtype") if wscale is None else None
        wly = F.get("w_layout") if wscale is None else None
        if case["wkind"] == "arr":
            wa = wa.copy()
            wa[~wv] = float("nan")
            if wdt:
                wa = wa.astype(wdt)                         # integer dtypes are only chosen when every weight is valid
            warg = apply_layout(np, wa, wly)
        else:
            wa = wa.copy()
            with np.errstate(all="ignore"):
                if wdt and wdt.startswith(("int", "uint")):
                    wa[~wv] = 0
                    wa = wa.astype(wdt)
                    wa[~wv] = np.iinfo(wdt).max
                else:
                    wa[~wv] = np.array(case["whidden"], dtype=float)[~wv]
                    if wdt:
                        wa = wa.astype(wdt)
            warg = (apply_layout(np, wa, wly), apply_layout(np, wv.copy(), wly if wly != "strided" else "readonly"))
    return dims, farg, warg


def call(catii, np, case, fmt, wscale=None):
    """fmt 'nan' | 'pair'.  Returns the raw return value of the xcube method."""
    dims, farg, warg = build_args(np, case, wscale)
    F = case.get("forms") or {}
    shape = tuple(case["exts"])
    if F.get("shape_form"):
        shape = tuple(np.dtype(F["shape_form"]).type(e) for e in shape)
    cube = catii.xcube(dims, interacting_shape=shape)
    kind = case["kind"]
    kw = {"ignore_missing": case["ign"]}
    pf, p = F.get("p_form"), case["p"]
    if pf == "array0d":
        p = np.array(p)
    elif pf == "int":
        p = int(p)
    elif pf:
        p = np.dtype(pf).type(p)
    if fmt == "pair":
        kw["return_missing_as"] = (case["sentinel"], False)
    if kind in ("min", "max"):
        return getattr(cube, kind)(farg, **kw)
    if kind == "quantile":
        return cube.quantile(farg, p, weights=warg, **kw)
    return getattr(cube, kind)(farg, weights=warg, **kw)


def abstract(np, case, fmt, rv):
    """the report as a flat list of ('miss',) | ('val', Fraction) | ('bad', text), C order; plus format errors"""
    errs = []
    if fmt == "pair":
        vals, valid = rv
        vals = np.asarray(vals).reshape(-1)
        valid = np.asarray(valid).reshape(-1)
    else:
        vals = np.asarray(rv).reshape(-1)
        valid = None
    out = []
    isdt = vals.dtype.kind == "M"
    for i in range(vals.size):
        v = vals[i]
        if isdt:
            nonfinite = bool(np.isnat(v))
            num = None if nonfinite else Fraction(int(v.astype("datetime64[s]").astype(np.int64)) - EPOCH0)
        elif vals.dtype.kind in "iu":
            nonfinite, num = False, Fraction(int(v))
        else:
            fv = float(v)
            nonfinite = math.isnan(fv) or math.isinf(fv)
            num = None if nonfinite else Fraction(fv)
        if valid is None:
            if nonfinite and (isdt or math.isnan(float(v))):
                out.append(("miss",))
            elif nonfinite:
                out.append(("bad", repr(float(v))))
            else:
                out.append(("val", num))
        else:
            if not bool(valid[i]):
                out.append(("miss",))
                s = case["sentinel"]
                same = (num is not None and ((num == Fraction(s)) if not isdt else (num + EPOCH0 == Fraction(int(s)))))
                if not same:
                    errs.append("cell %d is missing but its value is %r, not the sentinel %r" % (i, v, s))
            elif nonfinite:
                out.append(("bad", str(v)))
            else:
                out.append(("val", num))
    if case["kind"] == "stddev":
        out = [("val", c[1] ** 2) if c[0] == "val" else c for c in out]
    return out, errs


def run_impl(catii, np, case):
    """{'nan': cells | None, 'pair': cells | None, 'exc': {fmt: text}, 'fmt_errs': [...], 'scale': text|None}"""
    res = {"exc": {}, "fmt_errs": [], "scale": None}
    with warnings.catch_warnings():
        warnings.simplefilter("ignore")
        with np.errstate(all="ignore"):
            for fmt in ("nan", "pair"):
                try:
                    rv = call(catii, np, case, fmt)
                    res[fmt], errs = abstract(np, case, fmt, rv)
                    res["fmt_errs"] += errs
                except Exception as e:  # the property's domain contains no rejected input
                    res[fmt] = None
                    res["exc"][fmt] = "%s: %s" % (type(e).__name__, e)
            if case["kind"] == "quantile" and case["wkind"] != "none" and res["nan"] is not None and all(x > 0 for x in case["w"]):
                c = case.get("wscale", 2.0)
                try:
                    r2, _ = abstract(np, case, "nan", call(catii, np, case, "nan", wscale=c))
                    for i, (a, b) in enumerate(zip(res["nan"], r2)):
                        if a[0] != b[0] or (a[0] == "val" and abs(a[1] - b[1]) > Fraction(TOL) * (1 + abs(a[1]))):
                            res["scale"] = "cell %d: %r with weights w, %r with weights %g*w" % (i, a, b, c)
                            break
                except Exception as e:
                    res["scale"] = "raised with rescaled weights: %s" % e
            # metamorphic: the same facts in the unit 1 (power-of-two units only: exact) must give exactly the same report
            # up to the unit - bit-identical correlation, covariance x f_i f_j, variance x f^2, quantile / min / max x f
            u = case.get("funit")
            res["unit"] = None
            if u and all(is_pow2(x) for x in u) and res["nan"] is not None:
                c0 = dict(case)
                c0["funit"] = None
                c0["fact"] = [[x / u[k] for k, x in enumerate(row)] for row in case["fact"]]
                c0["forms"] = {k: v for k, v in (case.get("forms") or {}).items() if k != "fact_dtype"}
                try:
                    r0, _ = abstract(np, c0, "nan", call(catii, np, c0, "nan"))
                    fac = unit_factors(case)
                    for i, (a, b) in enumerate(zip(res["nan"], r0)):
                        f = fac[i % len(fac)]
                        if a[0] != b[0] or (a[0] == "val" and a[1] != b[1] * f):
                            res["unit"] = ("output cell %d: %r for the facts in units %r, %r for the same facts in unit 1 (expected factor %s)"
                                           % (i, a, u, b, f))
                            break
                except Exception as e:
                    res["unit"] = "raised for the same facts in unit 1: %s" % e
    return res


# ----------------------------------------------------------------------------------------------
# the property, judged directly on the implementation
# ----------------------------------------------------------------------------------------------

def judge_case(case, res):
    """list of (signature, text) property violations of this case (empty = fine)"""
    bad = []
    kind = case["kind"]
    if res["exc"]:
        fmt, text = sorted(res["exc"].items())[0]
        if case["ftype"] == "datetime" and fmt == "nan" and "datetime" in text:
            bad.append(("minmax:datetime-nan-format-raises", "%s of a datetime64 fact with the default NaN report raises %s" % (kind, text)))
        else:
            bad.append(("%s:raised" % kind, "%s raised in the %s format: %s" % (kind, fmt, text)))
        return bad
    exp = orc.expected(with_fractions(case))
    for fmt in ("nan", "pair"):
        got = res[fmt]
        if len(got) != len(exp):
            bad.append(("%s:shape" % kind, "%d output cells, expected %d" % (len(got), len(exp))))
            return bad
        for i, (e, g) in enumerate(zip(exp, got)):
            why = orc.judge(e, g, case_tol(case))
            if why:
                sig = "%s:value" % kind
                if e[0] == "miss":
                    sig = "%s:missing-cell-reported-valid" % kind
                    if kind == "stddev":
                        sig = "stddev:lt2-valid-not-missing"
                    if kind == "quantile" and case["wkind"] != "none" and not case["ign"]:
                        sig = "wquantile:propagate-ignores-missing"
                elif g[0] == "miss":
                    sig = "%s:valid-cell-reported-missing" % kind
                bad.append((sig, "%s format, output cell %d: %s" % (fmt, i, why)))
                break
    # the two formats describe the same missing cells and the same values
    if not bad:
        for i, (a, b) in enumerate(zip(res["nan"], res["pair"])):
            if exp[i][0] == "skip" and kind in ("covariance", "corrcoef"):
                continue
            if a[0] != b[0] or (a[0] == "val" and a[1] != b[1]):
                bad.append(("%s:formats-disagree" % kind, "output cell %d: NaN format %r, (values, validity) format %r" % (i, a, b)))
                break
    if not bad and res["fmt_errs"]:
        bad.append(("%s:sentinel" % kind, res["fmt_errs"][0]))
    if not bad and res["scale"]:
        bad.append(("wquantile:not-scale-invariant", res["scale"]))
    if not bad and res.get("unit"):
        bad.append(("%s:not-unit-invariant" % kind, res["unit"]))
    return bad


def shrink(catii, np, case, sig):
    """drop rows / dimensions while the same violation class persists"""
    def fails(c):
        try:
            return any(s == sig for s, _ in judge_case(c, run_impl(catii, np, c)))
        except Exception:
            return False
    cur = case
    changed = True
    while changed:
        changed = False
        for r in range(cur["N"] - 1, -1, -1):
            if cur["N"] <= 1:
                break
            c = json.loads(json.dumps(cur))
            c["N"] -= 1
            for key in ("fact", "fvalid", "fhidden", "w", "wvalid", "whidden"):
                if c[key] is not None:
                    del c[key][r]
            for d in c["dims"]:
                del d[r]
            if fails(c):
                cur, changed = c, True
        for d in range(len(cur["exts"]) - 1, -1, -1):
            c = json.loads(json.dumps(cur))
            del c["exts"][d]
            del c["dims"][d]
            if fails(c):
                cur, changed = c, True
    return cur


# ----------------------------------------------------------------------------------------------
# Coq literals
# ----------------------------------------------------------------------------------------------

def q(x):
    return core.qlit(Fraction(x))


def ocell(c):
    return "OMiss" if c[0] == "miss" else ("OBad" if c[0] == "bad" else "(OVal %s)" % core.qlit(c[1]))


def wq_perms(np, case):
    """NumPy's own tie-break: `seg.argsort()` of every cell's segment (per column), as a literal.
    The weighted quantile depends on the order argsort gives to tied values, which NumPy does not
    specify; the model takes the permutation as a parameter and checks that it sorts the segment."""
    if case["kind"] != "quantile" or case["wkind"] == "none":
        return "[]"
    ncol = 1 if case["K"] is None else case["K"]
    cols = []
    for k in range(ncol):
        per_cell = []
        for cell in orc.cell_tuples(case["exts"]):
            R = orc.rows_of(case, cell)
            a = np.array([case["fact"][r][k] if (case["fvalid"][r][k] and case["wvalid"][r]) else float("nan") for r in R], dtype=float)
            per_cell.append("[" + "; ".join(core.natlit(i) for i in a.argsort().tolist()) + "]")
        cols.append("[" + "; ".join(per_cell) + "]")
    return "[" + "; ".join(cols) + "]"


def case_literal(np, case, res):
    N = case["N"]
    ncol = 1 if case["K"] is None else case["K"]
    cats = "[" + "; ".join(core.zlist([case["dims"][d][r] for d in range(len(case["exts"]))]) for r in range(N)) + "]"
    cols = "[" + "; ".join(
        "[" + "; ".join(core.optlit(case["fact"][r][k] if case["fvalid"][r][k] else None, q) for r in range(N)) + "]"
        for k in range(ncol)) + "]"
    if case["wkind"] == "none":
        wts = "None"
    else:
        wts = "(Some [" + "; ".join(core.optlit(case["w"][r] if case["wvalid"][r] else None, q) for r in range(N)) + "])"
    tol = Fraction(0) if exact_expected(case) else case_tol(case, coq=True)
    outs = ["[" + "; ".join(ocell(c) for c in res[fmt]) + "]" for fmt in ("nan", "pair")]
    return "(%d, %s, %s, %s, %s, %s, %s, %s, %s, %s, %s)" % (
        KIND_CODE[case["kind"]], core.zlist(case["exts"]), cats, cols, wts, core.boollit(case["ign"]),
        q(case["p"]), core.qlit(tol), outs[0], outs[1], wq_perms(np, case))


def case_key(case):
    return json.dumps([case[k] for k in ("kind", "exts", "dims", "K", "ftype", "fform", "fact", "fvalid", "wkind", "w", "wvalid", "ign", "p")], default=str)


def features(case, res):
    """coverage bookkeeping: which of the situations the property text names occur in this case"""
    f = set()
    ncol = 1 if case["K"] is None else case["K"]
    sizes = set()
    for cell in orc.cell_tuples(case["exts"]):
        R = orc.rows_of(case, cell)
        sizes.add(min(len(R), 5))
        for k in range(ncol):
            V = [r for r in R if case["fvalid"][r][k] and orc.wvalid(case, r)]
            if len(V) == 1 and case["wkind"] != "none":
                f.add("single-valid-row cell with weights")
            if case["kind"] == "quantile" and 0 < len(V) < len(R):
                f.add("cell with a missing value beyond the quantile (NaN sorts last)")
    for s in sizes:
        f.add("cell with %s rows" % ("5+" if s == 5 else s))
    if ncol > 1 and len({tuple(case["fvalid"][r][k] for r in range(case["N"])) for k in range(ncol)}) > 1:
        f.add("columns with different missing patterns")
    return f


# ----------------------------------------------------------------------------------------------
# check
# ----------------------------------------------------------------------------------------------

def run(ctx):
    import numpy as np
    n_inputs = 1500 if ctx.tier == "quick" else 40000 // 6 * 1
    if ctx.tier == "thorough":
        n_inputs = 6700
    ctx.rule = ("per statistic (stddev, quantile, min, max, covariance, corrcoef): N<=10 rows, 0-3 dimensions of extent 1-3 "
                "(cells with 0..4+ rows), facts = dyadic rationals k/{1,2,4} as float64 / int64 / datetime64[s], NaN-marked or "
                "(values, validity) with garbage under False, one or 2-3 columns, weights none / array / (values, validity) from "
                "{0.25,0.5,1,1.5,2,3,4} (zeros for stddev), p in {0,1/4,1/2,3/4,1,0.1,random}, both missing policies, both report "
                "formats; about 30 % of the stddev / quantile / covariance / corrcoef cases are 'large offset' cases: every fact is offset + "
                "spread with offset in {1e6, 1e8, 1.7e9, 2^40, -1e9} (all inputs exactly representable; for 2^40 the spread unit is 2^10: "
                "offset/spread-unit <= 2^31, because the two-pass code's own rounding of the cell mean costs about n*ulp(offset)^2/4 of "
                "absolute variance error, which a unit spread at 2^40 would push above the 1e-9 tolerance); "
                "about 30 % of the weighted cases (stddev, weighted quantile, covariance) are weight-SCALE cases: all weights, or the weights of "
                "the rows of one cell ('tiny / huge stratum'), multiplied by 2^e, e in {-60,-40,-20,20,40} (exact in float64; the unchanged "
                "code has no absolute threshold on weight sums in these three statistics, so no scale is excluded); "
                "the FORM of the arguments varies with unchanged content (tags counted in coverage.forms): facts and weights as float64 / float32 "
                "(when exact) / every integer dtype that holds the values (about 15 % 'compact integer' cases: scores 0..200 with integer "
                "weights 1..5, mostly handed over as uint8 x uint8 / int8 / int16 with products beyond the dtype), C / Fortran / "
                "transposed / strided / negative-stride / read-only arrays and lists, (N,) vs (N,1) facts (stddev, quantile), dimension "
                "arrays in every integer dtype and layout, interacting_shape (signed AND unsigned NumPy scalars, F25) and probability as NumPy "
                "scalars, integer-dtype weight arrays and int lists for every weighted statistic incl. covariance (F26); NOT generated "
                "(outside the quantifier): interacting_shape as a list, (N,1) weights, (N,1) facts for min/max, datetime64 units other than [s]; "
                "about 30 % of the float-fact cases of every statistic are fact-UNIT cases: every column times a power of two 2^-40..2^-1 or a "
                "decimal unit 1e-3 / 1e-5 / 1e-9 (decimal not for correlation: rounding-noise variance of constant non-dyadic columns), "
                "globally or per column; compared with the model on the scaled input (absolute part of the tolerance scaled to the "
                "unit) AND, for power-of-two units, as a metamorphic relation on the implementation (same facts in unit 1: bit-identical "
                "correlation, covariance x f_i f_j, variance x f^2, quantile/min/max x f); offsets now include 2^30; "
                "plus a 'huge' stream judged by the model-free oracle ONLY (no Coq literal; counted in huge_cases_oracle_only): per round "
                "(1 quick, 3 thorough) nine cases with N in 65 537..150 000 rows (more than any 65536-row block), 0-2 dimensions of "
                "2-4 categories, 2-5 missing rows of which one lies in the first 65536-row block and one beyond it: min/max under "
                "propagation for float, int and datetime facts and once under ignore, stddev, unweighted and weighted quantile, "
                "covariance, correlation; a case is distinct by its whole input and non-trivial when some output cell is valid")
    ctx.trusted = list(core.STD_TRUSTED) + [
        "NumPy kernels modelled from their documentation, tied only by the correspondence: bincount, boolean-mask indexing, "
        "argsort (NaN last, insertion sort for n<=16), cumsum, digitize, diff, quantile/nanquantile(method=linear), cov, corrcoef, amin/amax",
        "sqrt is not modelled: the model returns the variance (the harness squares the reported stddev) and (cov_ij, cov_ii, cov_jj) for a correlation",
        "binary64 rounding is outside the model (exact rationals); inexact results are compared within 1e-9 relative",
        "astype(mintype) and the NumPy promotion in `dim * stride` are not modelled here (C03 stride_bijection); coordinates are computed in Z",
    ]
    pr = ctx.prove("C18.v")
    ctx.assumptions = ["Print Assumptions: " + a for a in pr["assumptions"]] + [
        "C18_stddev_spec / C18_formats_stddev (weighted): the weights of the cell's valid rows do not sum to 0 (the generator keeps zero "
        "weights but never a whole cell of them); C18_cov_spec (weighted): sum w <> 0 and sum w - sum w^2 / sum w <> 0 (cells where "
        "this fails are 'skip' for the oracle: the textbook statistic is undefined there)",
        "C18_quantile_lin / C18_quantile_spec / C18_wq_range: 0 <= p <= 1; C18_wq_range additionally strictly positive weights on the "
        "valid rows (the code clips negative weights to 0; cells with a weight <= 0 are 'skip' for the oracle); C18_wq_scale: c > 0",
        "C18_wq_* take the argsort result of the cell as a parameter and assume sort_perm_ok (a covering list of in-range indices that "
        "sorts the segment, NaN last): checked by Coq on NumPy's own argsort result for every weighted-quantile case (perms_ok)",
        "C18_group_spec: every category value lies inside its dimension's extent (`within`): dimension arrays are 1-D with values "
        "inside the given interacting_shape (scaffold axes are C13; the dtype/wrap arithmetic of the coordinates is C03)",
    ]
    ctx.coverage["print_assumptions"] = pr["assumptions"]

    catii = ctx.import_catii()
    cases, lits, results = [], [], []
    wrong = {}
    dist = {}
    feats = {}
    offs = {}
    wsc = {}
    formc = {}
    units = {}
    for i in range(n_inputs):
        for kind in KINDS:
            case = gen_case(ctx.rng, kind)
            res = run_impl(catii, np, case)
            bad = judge_case(case, res)
            key = (kind, case["wkind"], "K" if case["K"] else "1", "ign" if case["ign"] else "prop", case["ftype"], case["fform"], len(case["exts"]))
            dist[key] = dist.get(key, 0) + 1
            for f in features(case, res):
                feats[f] = feats.get(f, 0) + 1
            for tg in form_tags(case):
                formc[tg] = formc.get(tg, 0) + 1
            if case.get("funit"):
                fu = case["funit"]
                uk = "%s %s %s" % (kind, "per-column" if len(set(fu)) > 1 else "global",
                                   "2^%d" % round(math.log2(min(fu))) if all(is_pow2(x) for x in fu) else "decimal %g" % min(fu))
                units[uk] = units.get(uk, 0) + 1
            if case.get("wpow"):
                wk = "%s weights x 2^%d (%s)" % (kind, case["wpow"], case["wpow_kind"])
                wsc[wk] = wsc.get(wk, 0) + 1
            if case.get("offset"):
                ok = "%s offset %d%s" % (kind, case["offset"], "" if case["exts"] else " (zero-dimension cube)")
                offs[ok] = offs.get(ok, 0) + 1
            for sig, text in bad:
                wrong.setdefault(sig, []).append((case, text))
            if not res["exc"]:
                cases.append(case)
                lits.append(case_literal(np, case, res))
                results.append(res)
                if any(c[0] == "val" for c in res["nan"]):
                    ctx.nontrivial.add(hash(case_key(case)))
    # ---- huge stream: implementation + model-free oracle only (no Coq literal: 10^5 rows per case) ----
    nhuge = {}
    for h in huge_plan(ctx.rng, ctx.tier):
        case = expand_huge(h)
        res = run_impl(catii, np, case)
        for sig, text in judge_case(case, res):
            wrong.setdefault(sig, []).append((case, text))
        hk = "%s %s %s %s %dd" % (h["kind"], h["ftype"], "weighted" if h["wkind"] != "none" else "unweighted",
                                  "ignore" if h["ign"] else "propagate", len(h["exts"]))
        nhuge[hk] = nhuge.get(hk, 0) + 1
        if not res["exc"] and any(c[0] == "val" for c in res["nan"]):
            ctx.nontrivial.add(hash(json.dumps(h, sort_keys=True)))
        del case, res
    ctx.coverage["huge_cases_oracle_only"] = sum(nhuge.values())
    ctx.coverage["huge_cases"] = nhuge
    ctx.evaluations = n_inputs * len(KINDS) + sum(nhuge.values())
    ctx.coverage["input_distribution"] = {" ".join(map(str, k)): v for k, v in sorted(dist.items())}
    ctx.coverage["situations"] = feats
    ctx.coverage["large_offset_cases"] = dict(sorted(offs.items()))
    ctx.coverage["large_offset_total"] = sum(offs.values())
    ctx.coverage["weight_scale_cases"] = dict(sorted(wsc.items()))
    ctx.coverage["weight_scale_total"] = sum(wsc.values())
    ctx.coverage["forms"] = dict(sorted(formc.items()))
    ctx.coverage["fact_unit_cases"] = dict(sorted(units.items()))
    ctx.coverage["fact_unit_total"] = sum(units.values())
    ctx.samples = [{k: c[k] for k in ("kind", "exts", "dims", "fact", "fvalid", "wkind", "w", "wvalid", "ign", "p")} for c in cases[:3]]

    res = core.run_cases("c18", "From Catii Require Import Cube.XStats Cube.XStatsCheck.", lits, "case_t", "check_case",
                         "explain_case", shard_size=500 if ctx.tier == "quick" else 1500)
    ctx.coverage["coq_case_shards_failed"] = len(res.errors)
    ctx.coverage["model_disagreements"] = len(res.failing)

    # ---- verdict ----
    for sig, lst in sorted(wrong.items()):
        lst.sort(key=lambda ct: ct[0]["N"])          # prefer a small witness when one exists
        case, text = lst[0]
        small = case if case.get("huge") else shrink(catii, np, case, sig)
        r2 = run_impl(catii, np, small)
        t2 = [t for s, t in judge_case(small, r2) if s == sig]
        ctx.report(sig, (t2 or [text])[0], {
            "case": ({"huge": small["huge"], "note": "expand with harness.props.c18.expand_huge(case['huge']) (deterministic)"}
                     if small.get("huge") else small), "observed": {k: repr(r2.get(k)) for k in ("nan", "pair", "exc")},
            "expected": repr(orc.expected(with_fractions(small))), "count": len(lst),
            "how": "xcube(dims, interacting_shape=exts).%s(...) in both report formats vs the statistic of the rows of each cell" % small["kind"]})
    if not wrong and (res.failing or res.errors or not pr["ok"]):
        what = []
        if not pr["ok"]:
            what.append("proof obligation no longer checks: Properties/C18.v")
        if res.failing:
            what.append("correspondence suite c18: %d cases where the code and the model of Cube/XStats.v differ" % len(res.failing))
        if res.errors:
            what.append("correspondence shards failed to evaluate: %s" % (res.errors[0][1][-400:],))
        ctx.report("c18:not-shown", "; ".join(what), {
            "proof_log": "" if pr["ok"] else pr["log"][-2500:],
            "disagreeing_cases": [cases[i] for i in res.failing[:10]],
            "observed": [{k: repr(results[i].get(k)) for k in ("nan", "pair")} for i in res.failing[:10]],
            "explain": res.explain,
            "search": "%d generated cases judged by the per-cell oracle found no failing input" % len(cases)}, found_input=False)


def replay(ctx, path):
    import numpy as np
    r = json.load(open(path))
    catii = ctx.import_catii()
    ctx.level = "exploration"
    ctx.rule = "replay of a recorded failing input"
    todo = [r["case"]] if "case" in r else r.get("disagreeing_cases", [])
    ctx.evaluations = len(todo)
    ctx.nontrivial.update(range(max(2, len(todo))))
    for case in todo:
        if "huge" in case and "fact" not in case:
            case = expand_huge(case["huge"])
        res = run_impl(catii, np, case)
        bad = judge_case(case, res)
        print("%s exts=%s ign=%s weights=%s -> nan format %r ; pair format %r ; exc %r" % (
            case["kind"], case["exts"], case["ign"], case["wkind"], res.get("nan"), res.get("pair"), res["exc"]))
        print("  textbook per cell:", orc.expected(with_fractions(case)))
        for sig, text in bad:
            print("  STILL FAILS", sig, text)
            ctx.report(sig, "replayed failing input still fails: " + text,
                       {"case": {"huge": case["huge"]} if case.get("huge") else case})
