"""C01 - array -> inverted index -> array is lossless.

Proof  : Properties/C01.v (theorems about the executable model IIndex/FromArray.v + ToArray.v: totality
         under the documented contract, dense refinement and well-formedness of from_array for BOTH
         construction strategies, to_array = dense content in its three modes, and the composition).
Tie W2 : every generated case is run through the REAL from_array / to_array in a subprocess under
         RLIMIT_AS (harness/impl_c01.py; which construction path was taken is measured by
         sys.settrace) and through the model inside Coq (IIndex/C01Check.v): shape, dense content,
         wf_b of the real index, common-compatibility, cell values and dtype name of to_array, and
         the exception class on the rejected stream.
Oracle : to_array(from_array(a, ...)) == mapped a, element-wise, plain Python/NumPy, no model.
"""
import collections
import json
import os
import subprocess
import time

from .. import core

DT = {"int8": "D_int8", "int16": "D_int16", "int32": "D_int32", "int64": "D_int64",
      "uint8": "D_uint8", "uint16": "D_uint16", "uint32": "D_uint32", "uint64": "D_uint64"}
RANGES = {"int8": (-2 ** 7, 2 ** 7 - 1), "int16": (-2 ** 15, 2 ** 15 - 1), "int32": (-2 ** 31, 2 ** 31 - 1),
          "int64": (-2 ** 63, 2 ** 63 - 1), "uint8": (0, 2 ** 8 - 1), "uint16": (0, 2 ** 16 - 1),
          "uint32": (0, 2 ** 32 - 1), "uint64": (0, 2 ** 64 - 1)}
ERR = {"TypeError": "ETypeError", "ValueError": "EValueError", "KeyError": "EKeyError",
       "OverflowError": "EOverflow", "IndexError": "EIndexError"}

# value pools sitting on the dtype boundaries (each has >= 5 values so that the row-scan path,
# which needs >= 5 distinct values, can be reached from every pool)
POOLS = [
    [0, 1, 2, 3, 5], list(range(9)), [-1, 0, 1, 2, 7], [254, 255, 256, 0, 1], [65535, 65536, 3, 0, 1],
    [2 ** 31 - 1, 2 ** 31, 2 ** 31 + 1, 0, 5], [-2 ** 31, -2 ** 31 - 1, 5, 0, 1], [2 ** 40, 1, 2, 3, 4],
    [-2 ** 62, 2 ** 62, 0, 1, 2], [-128, -129, 127, 128, 0], [2 ** 63 - 1, -2 ** 63, 0, 1, -1],
    [2 ** 32 - 1, 2 ** 32, 0, 1, 2], [32767, 32768, -32768, -32769, 0], [2 ** 63 - 1, 2 ** 63 - 2, 2 ** 62, 0, 1],
    [-5, -4, -3, -2, -1, -100], list(range(100, 112)),
]
MAP_TARGETS = [[0, 1, 2, -3], [255, 256, -129, 7], [7], [65536, 65535, -1], [2 ** 40, 3], [-2 ** 62, 2 ** 62, 5],
               [2 ** 31, 2 ** 31 - 1, 0]]

# the five repaired defects of DESIGN section 5 and the strategy-switch boundary, always run first
CORPUS = [
    dict(tag="F1", shape=[5], data=[1, 2, 3, 1, 2], opts=dict(mapping=[[1, 7], [2, 7], [3, 9]], common=3), to=dict(dtype="int64")),
    dict(tag="F1-2d", shape=[3, 2], data=[1, 2, 2, 1, 3, 3], opts=dict(mapping=[[1, 7], [2, 7], [3, 9]], common=3), to=dict()),
    dict(tag="F2", shape=[105], data=[0] * 100 + [1, 2, 3, 4, 5], opts=dict(common=9), to=dict()),
    dict(tag="F3", shape=[105], data=[0] * 100 + [1, 2, 3, 4, 5], opts=dict(mapping=[[i, 1] for i in range(6)]), to=dict()),
    dict(tag="F4", shape=[3], data=[2 ** 31, 5, 5], opts=dict(), to=dict()),
    dict(tag="F4-40", shape=[3], data=[2 ** 40, 5, 5], opts=dict(), to=dict()),
    dict(tag="F4-2d", shape=[2, 2], data=[2 ** 33, 5, 5, 0], opts=dict(), to=dict(dtype="int64")),
    dict(tag="F5", shape=[3], data=[-1, 0, 3], opts=dict(), to=dict()),
    dict(tag="F5-map", shape=[4], data=[1, 2, 2, 1], opts=dict(), to=dict(mapping=[[1, -10], [2, 300]])),
    dict(tag="switch-80", shape=[80], data=[0] * 76 + [1, 2, 3, 4], opts=dict(), to=dict()),
    dict(tag="switch-79", shape=[79], data=[0] * 75 + [1, 2, 3, 4], opts=dict(), to=dict()),
    dict(tag="rowscan-2d", shape=[60, 2], data=[0] * 57 + [1, 2] + [0] * 57 + [3, 4, 0, 0], opts=dict(), to=dict()),
    dict(tag="rowscan-m2o", shape=[105], data=[0] * 100 + [1, 2, 3, 4, 5], opts=dict(mapping=[[0, 0], [1, 1], [2, 1], [3, 3], [4, 4], [5, 5]]), to=dict(dtype="int8")),
    dict(tag="int64-extremes", shape=[3], data=[-2 ** 63, 2 ** 63 - 1, 0], opts=dict(), to=dict()),
    dict(tag="empty-common", shape=[0], data=[], opts=dict(common=3), to=dict(), as_list=True),
    dict(tag="empty-2d", shape=[0, 3], data=[], opts=dict(common=-3), to=dict()),
    dict(tag="empty-mapping", shape=[0], data=[], opts=dict(mapping=[[3, 5], [4, -2]]), to=dict()),
    dict(tag="zero-cols", shape=[3, 0], data=[], opts=dict(common=4), to=dict()),
]


def fill_defaults(c):
    c.setdefault("opts", {})
    for k in ("counts", "common", "mapping"):
        c["opts"].setdefault(k, None)
    c.setdefault("to", {})
    for k in ("mapping", "dtype"):
        c["to"].setdefault(k, None)
    c.setdefault("valid", True)
    c.setdefault("kind", "corpus")
    c.setdefault("in_dtype", "int64")
    return c


def narrowest(vals, signed):
    names = ["int8", "int16", "int32", "int64"] if signed else ["uint8", "uint16", "uint32", "uint64"]
    for n in names:
        lo, hi = RANGES[n]
        if all(lo <= v <= hi for v in vals):
            return n
    return None


def in_np_range(vals):
    mn, mx = min(vals), max(vals)
    return -2 ** 63 <= mn and mx < 2 ** 64 and (mn >= 0 or mx < 2 ** 63)


def gen_case(rng, kind):
    pool = rng.choice(POOLS)
    if kind == "small":
        n = rng.choice([0, 0, 1, 1, 2, 3, 4, 5, 6, 7, 8, 9, 10, 11, 12])
        ncols = rng.choice([None, None, None, 1, 2, 3, 3, 0])
        width = 1 if ncols is None else ncols
        p = rng.choice([0.0, 0.1, 0.3, 0.6, 0.9, 1.0])
        base = rng.choice(pool)
        data = [rng.choice(pool) if rng.random() < p else base for _ in range(n * width)]
    elif kind == "sparse":
        # aimed at the row-scan path: >= 5 distinct values, len(counts) / uncommon_ratio >= 100
        n = rng.randint(80, 400)
        ncols = rng.choice([None, None, None, 1, 2, 2, 3])
        width = 1 if ncols is None else ncols
        cells = n * width
        d = rng.randint(5, min(len(pool), 9))
        vals = rng.sample(pool, d)
        base, others = vals[0], vals[1:]
        kmax = d * cells // 100
        r = rng.random()
        if r < 0.15:
            k = kmax                      # exactly on the switch
        elif r < 0.25:
            k = kmax + 1                  # just over it: where path
        else:
            k = rng.randint(d - 1, max(d - 1, kmax))
        k = max(d - 1, min(k, cells))
        pos = rng.sample(range(cells), k)
        data = [base] * cells
        for i, q in enumerate(pos):
            data[q] = others[i] if i < len(others) else rng.choice(others)
    else:  # dense-large: where path with many rows
        n = rng.randint(80, 300)
        ncols = rng.choice([None, None, 1, 2, 3])
        width = 1 if ncols is None else ncols
        p = rng.choice([0.2, 0.5, 0.9])
        base = rng.choice(pool)
        data = [rng.choice(pool) if rng.random() < p else base for _ in range(n * width)]
    shape = [n] if ncols is None else [n, ncols]
    c = dict(kind=kind, shape=shape, data=data, valid=True, in_dtype="int64")
    vals = sorted(set(data))
    # narrow input dtype now and then (col == value comparisons on int8/uint8/int32 arrays)
    if vals and rng.random() < 0.15:
        nd = narrowest(vals, rng.random() < 0.6 or min(vals) < 0)
        if nd:
            c["in_dtype"] = nd
    if not data and ncols is None and rng.random() < 0.5:
        c["as_list"] = True               # numpy.asarray([]) is a float64 array
    # the FORM of the argument (same values): memory layout / container; faults behind a contiguity assumption
    # (ravel(order="K"), .ravel() views, memcpy of a strided buffer) only show for these
    if data and rng.random() < 0.35:
        c["layout"] = rng.choice(["fortran", "transposed-store", "strided", "negstride", "colview", "readonly", "list"]
                                 if ncols is not None else ["strided", "negstride", "readonly", "list"])
    # ---- from_array options ----
    opts = dict(counts=None, common=None, mapping=None)
    cm = rng.choice(["omit", "omit", "in", "absent"])
    if cm == "in" and vals:
        opts["common"] = rng.choice(vals)
    elif cm == "absent" or (cm == "in" and not vals):
        opts["common"] = rng.choice([77, -77, 300, 2 ** 33, -2 ** 40, 9])
        while opts["common"] in vals:
            opts["common"] += 1
    extras = []
    rc = rng.random()
    if rc < 0.35:
        cnt = collections.Counter(data)
        items = [[k, v] for k, v in cnt.items()]
        if rc < 0.08:
            extras = [x for x in rng.sample(pool, min(2, len(pool))) if x not in cnt]
            items += [[x, 0] for x in extras]
        rng.shuffle(items)
        opts["counts"] = items
    dom = sorted(set(vals) | set(extras) | ({opts["common"]} if opts["common"] is not None else set()))
    mk = rng.choice(["none", "none", "none", "inj", "inj", "m2o", "m2o", "m2o", "all1"])
    if mk == "inj":
        if rng.random() < 0.3:
            cand = sorted(set(x for p_ in POOLS for x in p_))
            tg = rng.sample(cand, len(dom))
        else:
            tg = rng.sample(range(-5, 300), len(dom))
        opts["mapping"] = [[k, t] for k, t in zip(dom, tg)]
    elif mk == "m2o":
        tgs = rng.choice(MAP_TARGETS)
        opts["mapping"] = [[k, rng.choice(tgs)] for k in dom]
    elif mk == "all1":
        t = rng.choice([0, 7, -1, 256, 2 ** 40])
        opts["mapping"] = [[k, t] for k in dom]
    if opts["mapping"] is not None:
        rng.shuffle(opts["mapping"])
        # now and then a mapping that also covers values that never occur
        if rng.random() < 0.2:
            opts["mapping"] += [[x, rng.choice([0, 1, -200, 70000])] for x in (12345, -999) if x not in dom]
    c["opts"] = opts
    c["mk"], c["cm"] = mk, ("omit" if opts["common"] is None else ("in" if opts["common"] in vals else "absent"))
    # ---- rejected stream (from_array) ----
    if not data and opts["common"] is None and not opts["mapping"] and not opts["counts"]:
        c["valid"], c["reject"] = False, "no-values-no-common"
    elif opts["mapping"] and vals and rng.random() < 0.04:
        drop = rng.choice(vals)
        opts["mapping"] = [kv for kv in opts["mapping"] if kv[0] != drop]
        c["valid"], c["reject"] = False, "mapping-misses-a-value"
    # ---- final values of the index ----
    m1 = dict((k, v) for k, v in opts["mapping"]) if opts["mapping"] is not None else None

    def f1(v):
        return v if m1 is None else m1.get(v, 0)
    finals = set(f1(v) for v in vals)
    if opts["common"] is not None:
        finals.add(f1(opts["common"]))
    elif not data and opts["mapping"]:
        # no rows and no caller-chosen common: the library picks the common among the mapping's values
        # (the minimum, or - when counts are supplied - the first maximum of the mapped counts); the
        # explicit dtype chosen below must hold whichever it is (it is a value of the index)
        finals.update(v for _, v in opts["mapping"])
    finals = sorted(finals)
    # ---- to_array mode ----
    to = dict(mapping=None, dtype=None)
    mode = rng.choice(["dtype", "dtype", "default", "default", "mapping", "mapping"])
    if mode == "dtype" and finals:
        r = rng.random()
        cands = [d for d in RANGES if all(RANGES[d][0] <= v <= RANGES[d][1] for v in finals)]
        small = [d for d in RANGES if d not in cands]
        if r < 0.08 and small and c["valid"]:
            to["dtype"] = rng.choice(small)
            c["valid"], c["reject"] = False, "dtype-too-small"
        elif r < 0.55 and cands:
            to["dtype"] = narrowest(finals, rng.random() < 0.5) or rng.choice(cands)
        elif cands:
            to["dtype"] = "int64" if "int64" in cands else rng.choice(cands)
        else:
            mode = "default"
    elif mode == "mapping" and finals:
        style = rng.choice(["affine", "pool", "m2o", "neg"])
        if style == "affine":
            m2 = [[v, v * 3 - 1] for v in finals]
        elif style == "pool":
            cand = sorted(set(x for p_ in POOLS[:10] for x in p_ if -2 ** 63 <= x < 2 ** 63))
            m2 = [[v, rng.choice(cand)] for v in finals]
        elif style == "m2o":
            tgs = rng.choice(MAP_TARGETS)
            m2 = [[v, rng.choice(tgs)] for v in finals]
        else:
            m2 = [[v, -abs(v) - 1] for v in finals]
        rng.shuffle(m2)
        if rng.random() < 0.15:
            m2 += [[424242, rng.choice([5, -70000, 2 ** 33])]]        # an unused key widens the default dtype
        if rng.random() < 0.10 and c["valid"] and len(m2) > 1:
            m2.pop(rng.randrange(len(m2)))                            # .get(common, 0) or KeyError
            c["valid"], c["reject"] = False, "to-mapping-misses-a-value"
        to["mapping"] = m2
        if rng.random() < 0.3:
            outs = [v for _, v in m2]
            if all(-2 ** 63 <= v < 2 ** 63 for v in outs):
                to["dtype"] = "int64"
        if to["dtype"] is None and not in_np_range([v for _, v in m2]) and c["valid"]:
            c["valid"], c["reject"] = False, "no-integer-dtype-holds-the-mapping"
    else:
        mode = "default"
    if mode == "default" and finals and not in_np_range(finals) and c["valid"]:
        c["valid"], c["reject"] = False, "no-integer-dtype-holds-the-values"
    c["to"] = to
    c["mode"] = "dtype" if (to["dtype"] and not to["mapping"]) else ("mapping" if to["mapping"] else "default")
    if c["valid"] and (c["opts"]["counts"] is not None or c["opts"]["mapping"] is not None) and rng.random() < 0.35:
        # relations between calls: one or two EARLIER from_array calls on the same array that were handed the very same
        # counts / mapping dict objects, with another common value (omitted = None, a value of the data, an absent value)
        cands = [None] + [v for v in sorted(set(vals)) if v != c["opts"]["common"]][:6] + ([77777] if c["opts"]["mapping"] is None else [])
        c["prior"] = [rng.choice(cands) for _ in range(rng.choice([1, 1, 2]))]
    return c


# --------------------------------------------------------------------------
# running the implementation (subprocess under RLIMIT_AS)
# --------------------------------------------------------------------------
MEM_GB = 4


def run_impl(ctx, payload, tag, timeout=1500):
    """Like Ctx.run_py, with unique file names (safe from threads), single-threaded BLAS so that
    RLIMIT_AS is not eaten by thread arenas, and the progress marker parsed when the process dies."""
    snap = ctx.snapshot("plain")
    env = dict(os.environ)
    env.update({"PYTHONPATH": snap + os.pathsep + core.VERIF, "PYTHONHASHSEED": "0", "OPENBLAS_NUM_THREADS": "1",
                "OMP_NUM_THREADS": "1", "MKL_NUM_THREADS": "1"})
    inp = os.path.join(ctx.scratch, "c01-in-%s.json" % tag)
    outp = os.path.join(ctx.scratch, "c01-out-%s.json" % tag)
    json.dump(payload, open(inp, "w"))
    cmd = "ulimit -v %d; exec %s %s %s %s" % (MEM_GB * 1024 * 1024, core.PY, os.path.join(core.VERIF, "harness", "impl_c01.py"), inp, outp)
    try:
        p = subprocess.run(cmd, shell=True, env=env, cwd=ctx.scratch, stdout=subprocess.PIPE, stderr=subprocess.STDOUT, text=True, timeout=timeout)
        rc, out = p.returncode, p.stdout
    except subprocess.TimeoutExpired as e:
        rc, out = -9, (e.stdout or b"").decode() if isinstance(e.stdout, bytes) else (e.stdout or "")
    result = None
    if os.path.exists(outp):
        try:
            result = json.load(open(outp))
        except ValueError:
            result = None
    last = None
    for line in out.splitlines():
        if line.startswith("@"):
            try:
                last = int(line[1:])
            except ValueError:
                pass
    return rc, out, result, last


def run_all(ctx, cases, tag):
    """Run the cases in parallel batches; a batch whose process dies is re-run around the case that
    killed it (that case is recorded as having raised 'ProcessDied')."""
    import concurrent.futures
    nb = max(1, min(core.NPROC, len(cases) // 150 or 1))
    size = (len(cases) + nb - 1) // nb
    batches = [(k, cases[k * size:(k + 1) * size]) for k in range(nb) if cases[k * size:(k + 1) * size]]
    results = [None] * len(cases)
    lines = {"executed": set()}
    meta = {}

    def work(k, chunk):
        offset = k * size
        todo = list(range(len(chunk)))
        tries = 0
        while todo:
            tries += 1
            rc, out, res, last = run_impl(ctx, {"cases": [chunk[i] for i in todo]}, "%s-%d-%d" % (tag, k, tries))
            if res is not None and len(res.get("results", [])) == len(todo):
                for i, r in zip(todo, res["results"]):
                    results[offset + i] = r
                lines["executed"].update(res["lines"]["executed"])
                meta.update({kk: res["lines"][kk] for kk in ("from_array", "to_array", "where_lines", "rowscan_lines")})
                meta["path_lines_found"] = res.get("path_lines_found")
                return
            if last is None or tries > 60:
                # the process keeps dying (or died before its first progress mark): every case still to do is recorded as
                # having killed the process - an observation about the implementation, not a crash of the check
                for i in todo:
                    results[offset + i] = {"id": chunk[i].get("id"), "from": {"ok": False, "exc": "ProcessDied", "msg": "rc=%s %s" % (rc, out[-300:]), "path": None},
                                           "to": None, "oracle": {"ok": False, "why": "the process died (rc=%s) under RLIMIT_AS=%dGiB (batch abandoned after %d restarts)" % (rc, MEM_GB, tries)}}
                return
            killer = todo[last]
            results[offset + killer] = {"id": chunk[killer].get("id"), "from": {"ok": False, "exc": "ProcessDied", "msg": "rc=%s %s" % (rc, out[-300:]), "path": None},
                                        "to": None, "oracle": {"ok": False, "why": "the process died (rc=%s) under RLIMIT_AS=%dGiB" % (rc, MEM_GB)}}
            # everything before the killer is lost with the output file: re-run all but the killer
            todo = [i for i in todo if i != killer]
    with concurrent.futures.ThreadPoolExecutor(max_workers=nb) as ex:
        for f in [ex.submit(work, k, ch) for k, ch in batches]:
            f.result()
    meta["executed"] = sorted(lines["executed"])
    return results, meta


# --------------------------------------------------------------------------
# Gallina literals
# --------------------------------------------------------------------------
def zdict_lit(pairs):
    return "[" + "; ".join("(%s, %s)" % (core.zlit(k), core.zlit(v)) for k, v in pairs) + "]"


def rows_lit(flat, shape):
    n = shape[0]
    width = 1 if len(shape) == 1 else shape[1]
    return "[" + "; ".join(core.zlist(flat[i * width:(i + 1) * width]) for i in range(n)) + "]"


def arr_lit(flat, shape):
    return "(mk_arr %s %s)" % (rows_lit(flat, shape), core.zlist(shape[1:]))


def err_lit(exc):
    return "(Err %s)" % ERR.get(exc, "EOther")


def case_lit(c, r):
    o = c["opts"]
    opts = "(mk_opts %s %s %s)" % (core.optlit(o["counts"], zdict_lit), core.optlit(o["common"], core.zlit), core.optlit(o["mapping"], zdict_lit))
    fr = r["from"]
    strat = "RowScan" if fr.get("path") == "rowscan" else "Where"
    if fr["ok"]:
        ix = fr["index"]
        ents = "[" + "; ".join("((%s, %s), %s)" % (core.zlit(e[0]), core.zlist(e[1]), core.zlist(e[2])) for e in ix["entries"]) + "]"
        impl = "(Ok (mk_idx %s %s %s %s))" % (ents, core.zlit(ix["common"]), core.zlit(ix["shape"][0]), core.zlist(ix["shape"][1:]))
    else:
        impl = err_lit(fr["exc"])
    t = c["to"]
    tm = core.optlit(t["mapping"], zdict_lit)
    td = core.optlit(t["dtype"], lambda d: DT[d])
    to = r.get("to")
    if to is None:
        out = "(Err EOther)"
    elif to["ok"]:
        if to["dtype"] in DT and len(to["shape"]) in (1, 2):
            out = "(Ok (%s, %s))" % (arr_lit(to["flat"], to["shape"]), DT[to["dtype"]])
        else:
            out = "(Err EOther)"
    else:
        out = err_lit(to["exc"])
    return "mk_case %s %s %s %s %s %s %s" % (arr_lit(c["data"], c["shape"]), opts, strat, impl, tm, td, out)


# --------------------------------------------------------------------------
# verdicts
# --------------------------------------------------------------------------
def signature(r):
    fr, to = r["from"], r.get("to")
    if not fr["ok"]:
        if fr["exc"] in ("MemoryError", "ProcessDied"):
            return "from_array:memory"
        return "from_array:raises:" + fr["exc"]
    if to is not None and not to["ok"]:
        return "to_array:raises:" + to["exc"]
    if fr.get("validate", "ok") != "ok" and "well-formed" in (r["oracle"].get("why") or ""):
        return "from_array:not-well-formed"
    return "roundtrip:cells-differ"


def public_case(c):
    return {k: c[k] for k in ("shape", "data", "opts", "to", "in_dtype", "kind", "layout", "prior") if k in c} | ({"as_list": True} if c.get("as_list") else {})


def how_to(c):
    o, t = c["opts"], c["to"]
    kw = []
    if o["counts"] is not None:
        kw.append("counts=dict(%r)" % (o["counts"],))
    if o["common"] is not None:
        kw.append("common=%r" % o["common"])
    if o["mapping"] is not None:
        kw.append("mapping=dict(%r)" % (o["mapping"],))
    tk = []
    if t["mapping"] is not None:
        tk.append("mapping=dict(%r)" % (t["mapping"],))
    if t["dtype"] is not None:
        tk.append("dtype=%r" % t["dtype"])
    lay = c.get("layout")
    if c.get("prior"):
        kw.insert(0, "<after %d earlier from_array call(s) on `a` that were given the SAME counts / mapping dict objects, with common = %s>" % (
            len(c["prior"]), ", ".join("omitted" if p is None else repr(p) for p in c["prior"])))
    return "a = numpy.array(data, dtype=%r).reshape(shape)%s; iindex.from_array(a, %s).to_array(%s) must equal a mapped through the mapping(s)" % (
        c.get("in_dtype", "int64"), ("  # handed over in the form %r: harness/impl_c01.py with_layout" % lay) if lay else "", ", ".join(kw), ", ".join(tk))


def report_failures(ctx, cases, results, idxs, source):
    """Group failing valid cases by signature, shrink one per signature, report."""
    by_sig = collections.OrderedDict()
    for i in idxs:
        by_sig.setdefault(signature(results[i]), []).append(i)
    for sig, ii in by_sig.items():
        ii = sorted(ii, key=lambda i: len(cases[i]["data"]))
        i0 = ii[0]
        small, small_res = cases[i0], results[i0]
        if len(cases[i0]["data"]) > 6 and sig != "from_array:memory":
            try:
                rc, out, res, _ = run_impl(ctx, {"mode": "shrink", "case": cases[i0]}, "shrink-%d" % i0, timeout=300)
                if res and res.get("still_fails"):
                    small, small_res = res["shrunk"], res["result"]
            except Exception:  # shrinking is best-effort
                pass
        ctx.report("c01:" + sig, "%s (%s): %s" % (sig, source, small_res["oracle"]["why"]), {
            "failing_input": public_case(small), "observed": {k: small_res.get(k) for k in ("from", "to", "oracle")},
            "how": how_to(small), "other_failing_inputs": [public_case(cases[i]) for i in ii[1:4]], "count_in_this_run": len(ii)})


def gen_huge(rng):
    """More than 65 536 cells (block boundaries of chunked counting / scanning), judged by the oracle only:
    the Gallina literal of such an array would be far too large for vm_compute."""
    pool = rng.choice(POOLS)
    ncols = rng.choice([None, None, 2, 3])
    width = 1 if ncols is None else ncols
    n = rng.randint(65537 // width + 1, 150000 // width)
    kind = rng.choice(["skewed-tail", "sparse", "dense"])
    base = rng.choice(pool)
    others = [v for v in pool if v != base] or [base]
    cells = n * width
    if kind == "sparse":                       # row-scan path
        data = [base] * cells
        for q in rng.sample(range(cells), min(cells // 40, 3000)):
            data[q] = rng.choice(others)
    elif kind == "dense":
        data = [rng.choice(pool) if rng.random() < 0.5 else base for _ in range(cells)]
    else:                                      # the tail beyond the first 65 536 cells overturns the leader of the head
        a, b = base, others[0]
        head = [a if i % 2 == 0 else b for i in range(65536)]
        head[1] = a
        data = head + [b] * (cells - 65536)
    c = dict(kind="huge", shape=[n] if ncols is None else [n, ncols], data=data, valid=True, in_dtype="int64")
    if rng.random() < 0.5:
        c["layout"] = rng.choice(["fortran", "transposed-store", "strided", "readonly"] if ncols is not None else ["strided", "readonly"])
    opts = dict(counts=None, common=None, mapping=None)
    r = rng.random()
    vals = sorted(set(data))
    if r < 0.3:
        opts["common"] = rng.choice(vals)
    elif r < 0.45:
        opts["common"] = 424243
    if rng.random() < 0.4:
        tg = rng.sample(range(-5, 300), len(vals))
        if rng.random() < 0.5 and len(vals) > 2:
            tg[1] = tg[0]                      # many-to-one
        opts["mapping"] = [[k, t] for k, t in zip(vals + ([opts["common"]] if opts["common"] not in (None, *vals) else []), tg + [7])]
    c["opts"] = opts
    c["to"] = dict(mapping=None, dtype=rng.choice([None, "int64"]))
    c["mode"], c["cm"], c["mk"] = "huge", "huge", "huge"
    return c


def run(ctx):
    quick = ctx.tier == "quick"
    ctx.rule = ("integer arrays (1-D, 2-D incl. 0 rows / 0 columns) over value pools on the dtype boundaries "
                "(255/256, 65535/65536, 2^31+-1, 2^32, -128/-129, +-2^62, int64 extremes, negatives); kinds: small (N in 0..12), "
                "sparse (N in 80..400, >=5 distinct values, uncommon cells placed on / under / just over the strategy switch so that the "
                "row-scan path runs), dense-large (N in 80..300), each in ~35 % of the cases handed over in another FORM with the same content "
                "(Fortran-ordered / transposed store / strided or column view / negative stride / read-only / nested list), huge (65 537..150 000 cells, implementation + NumPy oracle only, no Coq literal); options: common omitted / in the data / absent, counts omitted / supplied "
                "shuffled / with unused keys, mapping none / injective / many-to-one / everything-to-one, to_array with explicit dtype / "
                "default dtype / mapping; plus a rejected stream (no values and no common, mapping missing a key, dtype too small) on which "
                "model and code must raise the same exception class.  A case is distinct/non-trivial per (input array, options, to_array "
                "arguments) when from_array succeeded")
    ctx.trusted = list(core.STD_TRUSTED) + [
        "model stands for (tied by the correspondence only): numpy.bincount/unique give ascending distinct values with multiplicities; "
        "numpy.where(col == v); ndarray.astype(uint32); set_operations.union = strictly increasing merge (C08); CPython dict insertion "
        "order; numpy.full / item assignment raise OverflowError for an out-of-range Python int (NumPy 2)",
        "the float-valued strategy switch of from_array is not modelled: the strategy is a free argument of the model and every theorem is "
        "proved for both values",
        "harness/impl_c01.py: abstraction of the real iindex into a Model.v record literal (entries in dict order) and of the output array",
    ]
    t0 = time.time()
    # ---- proofs ----
    pr = ctx.prove("C01.v")
    ctx.assumptions = ["Print Assumptions: " + a for a in pr["assumptions"]] + [
        "values are Python ints / NumPy integer arrays (property: 'values anywhere in int64'); row count <= 2^32 (uint32 row ids)",
        "explicit to_array dtype is one of the eight NumPy integer dtypes and holds every value of the index INCLUDING the common value",
    ]
    ctx.coverage["print_assumptions"] = pr["assumptions"]
    proof_ok = pr["ok"] and all(a == "Closed under the global context" for a in pr["assumptions"]) and len(pr["assumptions"]) > 0
    t_proof = time.time() - t0

    # ---- cases ----
    n_small, n_sparse, n_dense = (1000, 260, 90) if quick else (9000, 2400, 800)
    cases = [fill_defaults(dict(c)) for c in CORPUS]
    for kind, n in (("small", n_small), ("sparse", n_sparse), ("dense-large", n_dense)):
        for _ in range(n):
            cases.append(gen_case(ctx.rng, kind))
    for i, c in enumerate(cases):
        c["id"] = i
    t1 = time.time()
    results, meta = run_all(ctx, cases, "main")
    t_impl = time.time() - t1

    # ---- oracle on every valid case ----
    bad = [i for i, (c, r) in enumerate(zip(cases, results)) if c["valid"] and r["oracle"]["ok"] is not True]
    paths = collections.Counter()
    dist = collections.Counter()
    rejected = collections.Counter()
    for c, r in zip(cases, results):
        p = r["from"].get("path") or ("raised" if not r["from"]["ok"] else "unknown")
        paths[(c["kind"], p)] += 1
        dist[("common:" + c.get("cm", "corpus"), "mapping:" + c.get("mk", "corpus"), "counts:" + ("given" if c["opts"]["counts"] is not None else "none"),
              "to:" + c.get("mode", "corpus"), "ndim:%d" % len(c["shape"]))] += 1
        if not c["valid"]:
            rejected[(c.get("reject"), (r["from"].get("exc") if not r["from"]["ok"] else (r["to"] or {}).get("exc")) or "no exception")] += 1
        if r["from"]["ok"]:
            ctx.nontrivial.add((tuple(c["shape"]), tuple(c["data"]), json.dumps(c["opts"]), json.dumps(c["to"])))
    ctx.evaluations = len(cases)
    ctx.coverage["paths_taken"] = {"%s/%s" % k: v for k, v in sorted(paths.items())}
    ctx.coverage["rowscan_cases"] = sum(v for (k, p), v in paths.items() if p == "rowscan")
    ctx.coverage["where_cases"] = sum(v for (k, p), v in paths.items() if p == "where")
    ctx.coverage["option_cross_product_cells"] = len(dist)
    ctx.coverage["option_distribution_top"] = {" ".join(k): v for k, v in dist.most_common(12)}
    ctx.coverage["rejected_stream"] = {"%s -> %s" % k: v for k, v in sorted(rejected.items(), key=str)}
    ctx.coverage["valid_cases"] = sum(1 for c in cases if c["valid"])
    ctx.coverage["path_detection"] = "sys.settrace line events inside from_array; path = which branch of `if use_where:` executed (line sets from the AST of the snapshot)" if meta.get("path_lines_found") else "NOT AVAILABLE (no `if use_where:` in from_array): strategy Where assumed for the model"
    anchored = set(range(meta["from_array"][0], meta["from_array"][1] + 1)) | set(range(meta["to_array"][0], meta["to_array"][1] + 1))
    ctx.coverage["anchored_lines_executed"] = "%d lines of from_array/to_array (iindexes.py:%d-%d, %d-%d) saw a line event; row-scan block lines executed: %d of %d" % (
        len(set(meta["executed"]) & anchored), meta["to_array"][0], meta["to_array"][1], meta["from_array"][0], meta["from_array"][1],
        len(set(meta["executed"]) & set(meta["rowscan_lines"])), len(meta["rowscan_lines"]))
    ctx.coverage["rlimit_as_gib"] = MEM_GB
    ctx.samples = [dict(public_case(cases[i]), result={"path": results[i]["from"].get("path"), "dtype": (results[i]["to"] or {}).get("dtype")})
                   for i in (0, 1, 4, 7) if len(cases[i]["data"]) < 20][:4]
    for c, r in zip(cases, results):
        if c["kind"] == "sparse" and r["from"].get("path") == "rowscan" and len(ctx.samples) < 5:
            ctx.samples.append({"kind": "sparse", "shape": c["shape"], "distinct_values": sorted(set(c["data"])),
                                "uncommon_cells": len(c["data"]) - max(collections.Counter(c["data"]).values()),
                                "common": c["opts"]["common"], "mapping": c["opts"]["mapping"], "counts_supplied": c["opts"]["counts"] is not None,
                                "to": c["to"], "path": "rowscan", "dtype": (r["to"] or {}).get("dtype")})

    # ---- huge arrays (> 65 536 cells): implementation + oracle only ----
    huge = [gen_huge(ctx.rng) for _ in range(3 if quick else 12)]
    for i, c in enumerate(huge):
        c["id"] = i
    hres, _ = run_all(ctx, huge, "huge")
    hbad = [i for i, r in enumerate(hres) if r["oracle"]["ok"] is not True]
    ctx.evaluations += len(huge)
    ctx.coverage["huge_cases_oracle_only"] = {"count": len(huge), "cells": [len(c["data"]) for c in huge],
                                              "paths": [r["from"].get("path") for r in hres]}
    for c in huge:
        ctx.nontrivial.add(("huge", tuple(c["shape"]), hash(tuple(c["data"][:2000])), json.dumps(c["opts"])[:200]))
    if hbad and not bad:
        for i in hbad:                       # keep the replay file small
            huge[i]["data_note"] = "array of %d cells regenerated from the seed; first 40 cells kept" % len(huge[i]["data"])
        report_failures(ctx, huge, hres, hbad, "huge array (> 65 536 cells) judged by the NumPy oracle")
        return

    # ---- correspondence inside Coq ----
    t2 = time.time()
    lits = [case_lit(c, r) for c, r in zip(cases, results)]
    # shards balanced by literal size
    order = sorted(range(len(lits)), key=lambda i: -len(lits[i]))
    nshards = core.NPROC * (1 if quick else 3)
    shard_of = {}
    loads = [0] * nshards
    for i in order:
        k = loads.index(min(loads))
        shard_of[i] = k
        loads[k] += len(lits[i]) + 200
    perm = sorted(range(len(lits)), key=lambda i: (shard_of[i], i))
    sizes = collections.Counter(shard_of.values())
    shard_size = max(sizes.values())
    # run_cases cuts fixed-size shards: pad by permuting so that shard k holds the cases assigned to it
    padded, back = [], []
    for k in range(nshards):
        members = [i for i in perm if shard_of[i] == k]
        for i in members:
            padded.append(lits[i])
            back.append(i)
        for _ in range(shard_size - len(members)):
            padded.append(lits[members[0]] if members else lits[0])
            back.append(members[0] if members else 0)
    prelude = "From Catii Require Import IIndex.Res IIndex.Model IIndex.FromArray IIndex.ToArray IIndex.C01Check Dtype.FitSpec."
    res = core.run_cases("c01", prelude, padded, "c01_case", "chk", "explain", shard_size=shard_size, timeout=900)
    failing = sorted(set(back[j] for j in res.failing))
    t_coq = time.time() - t2
    ctx.coverage["coq_case_shards_failed"] = len(res.errors)
    ctx.coverage["model_disagreements"] = len(failing)
    ctx.coverage["timing_s"] = {"proof_build": round(t_proof, 1), "implementation": round(t_impl, 1), "coq_cases": round(t_coq, 1)}

    # ---- verdict ----
    if bad:
        report_failures(ctx, cases, results, bad, "generated case judged by the NumPy oracle")
        return
    if failing or res.errors or not proof_ok:
        # the property is not shown: look for a concrete failing input with the oracle alone
        what = []
        if not proof_ok:
            what.append("proof obligation no longer checks: Properties/C01.v or its cone (%s)" % ("; ".join(pr.get("missing") or pr.get("hygiene") or []) or "see log"))
        if failing:
            what.append("correspondence suite c01: %d of %d cases where code and model differ" % (len(failing), len(cases)))
        if res.errors:
            what.append("correspondence shards failed to evaluate: %s" % (res.errors[0][1][-400:],))
        extra = [gen_case(ctx.rng, k) for k in ["small"] * 3000 + ["sparse"] * 600 + ["dense-large"] * 200]
        extra = [c for c in extra if c["valid"]]
        for i, c in enumerate(extra):
            c["id"] = i
        xres, _ = run_all(ctx, extra, "search")
        xbad = [i for i, r in enumerate(xres) if r["oracle"]["ok"] is not True]
        if xbad:
            report_failures(ctx, extra, xres, xbad, "found by the oracle search after a model/code disagreement")
            return
        ctx.report("c01:not-shown", "; ".join(what), {
            "broken_proof_log": (pr["log"][-2500:] if not proof_ok else None),
            "disagreeing_cases": [dict(public_case(cases[i]), impl={k: results[i].get(k) for k in ("from", "to")}) for i in failing[:8] if len(cases[i]["data"]) < 400],
            "explain": res.explain[-5000:],
            "search": "oracle on the %d generated + %d further valid cases found no failing input" % (len(cases), len(extra))}, found_input=False)


def replay(ctx, path):
    r = json.load(open(path))
    ctx.level = "exploration"
    ctx.rule = "replay of recorded failing inputs"
    cs = []
    if "failing_input" in r:
        cs = [r["failing_input"]] + list(r.get("other_failing_inputs", []))
    elif "disagreeing_cases" in r:
        cs = [{k: v for k, v in c.items() if k != "impl"} for c in r["disagreeing_cases"]]
    cs = [fill_defaults(dict(c)) for c in cs]
    if not cs:
        print("nothing to replay in", path)
        ctx.nontrivial.update(range(2))
        return
    results, _ = run_all(ctx, cs, "replay")
    ctx.evaluations = len(cs)
    ctx.nontrivial.update(range(max(2, len(cs))))
    bad = []
    for i, (c, res) in enumerate(zip(cs, results)):
        print("case %d shape=%s opts=%s to=%s -> oracle %s" % (i, c["shape"], c["opts"], c["to"], res["oracle"]))
        if res["oracle"]["ok"] is False:
            bad.append(i)
    if bad:
        report_failures(ctx, cs, results, bad, "replayed failing input still fails")
