"""C19 - chosen integer dtypes are wide enough and no wider.

Tie W1: gen/FitGen.v regenerated from the source, theorem C19 (Properties/C19gen.v) re-checked.
Tie W2: the real fit_dtype / IndxIO.format / IndxIO.dtype against the Coq specification
        (`spec_choice`), the hand model and the generated model, evaluated inside Coq on the grid
        {+-2^k, +-2^k+-1 : k <= 64} u {every integer literal of the function +-1}, squared, pruned
        to the property's domain.
"""
import os

from .. import core, setup, translate_int

DT_CODE = {"int8": -8, "int16": -16, "int32": -32, "int64": -64, "uint8": 8, "uint16": 16, "uint32": 32, "uint64": 64}


def grid_values(literals, tier):
    vals = set()
    for k in range(0, 65):
        for s in (1, -1):
            for d in (-1, 0, 1):
                vals.add(s * 2 ** k + d)
    for l in literals:
        for d in (-1, 0, 1):
            vals.add(l + d)
            vals.add(-l + d)
    vals.update([0, 1, -1, 2, 3, 100, -100, 1000, 40000, -40000, 70000, 3 * 10 ** 9, -3 * 10 ** 9, 10 ** 19])
    return sorted(vals)


def in_domain(mx, mn):
    mn_e = mx if (mx < 0 and mn == 0) else mn
    return (-2 ** 63 <= mn_e) and mx < 2 ** 64 and (mn_e >= 0 or mx < 2 ** 63) and mn_e <= mx


def oracle(mx, mn):
    """Property stated directly with NumPy: narrowest integer dtype of the right signedness."""
    import numpy
    mn_e = mx if (mx < 0 and mn == 0) else mn
    lo = min(mn_e, 0)
    names = ["int8", "int16", "int32", "int64"] if mn_e < 0 else ["uint8", "uint16", "uint32", "uint64"]
    for n in names:
        ii = numpy.iinfo(n)
        if ii.min <= lo and mx <= ii.max:
            return n
    return None


def run(ctx):
    ctx.rule = ("grid {+-2^k, +-2^k+-1 : k<=64} u {integer literals of fit_dtype +-1} squared, pruned to the domain "
                "(-2^63<=min', max<2^64, min'<0 -> max<2^63, min'<=max); a case is non-trivial/distinct per (max,min) pair; "
                "one-argument calls fit_dtype(max) are separate cases")
    ctx.trusted = list(core.STD_TRUSTED) + ["harness/translate_int.py (Python ast -> Gallina; fail-closed)"]
    gen = setup.regenerate()["fit"]
    ctx.coverage["tie_W1_translator_ok"] = gen["ok"]
    if not gen["ok"]:
        ctx.notes.append("translator did not recognise the source (%s): falling back to hand model + grid (W2 only)" % gen["reason"])

    # ---- proofs ----
    pr_hand = ctx.prove("C19.v")
    proof_ok = pr_hand["ok"]
    assumptions = list(pr_hand["assumptions"])
    broken = []
    if not pr_hand["ok"]:
        broken.append(("Properties/C19.v (hand model)", pr_hand["log"]))
    if gen["ok"]:
        pr_gen = ctx.prove("C19gen.v")
        assumptions += pr_gen["assumptions"]
        if not pr_gen["ok"]:
            proof_ok = False
            broken.append(("Properties/C19gen.v: theorem C19 over the model generated from the working tree", pr_gen["log"]))
    ctx.assumptions = ["Print Assumptions: " + a for a in assumptions] + [
        "fit_dtype is called with Python ints (unbounded); NumPy scalar arguments are out of scope",
    ]
    ctx.coverage["print_assumptions"] = assumptions

    # ---- grid correspondence ----
    catii = ctx.import_catii()
    from catii.iindexes import fit_dtype
    from catii.indxio import IndxIO
    vals = grid_values(gen.get("literals") or [], ctx.tier)
    cases, samples, wrong = [], [], []
    n_err = 0
    for mx in vals:
        for mn in vals:
            if not in_domain(mx, mn):
                continue
            for onearg in ((False, True) if mn == 0 else (False,)):
                try:
                    got = (fit_dtype(mx) if onearg else fit_dtype(mx, mn)).name
                except Exception as e:  # the code must be total on the domain
                    got = "raised:" + type(e).__name__
                    n_err += 1
                want = oracle(mx, mn)
                if got != want:
                    wrong.append({"max": mx, "min": mn, "one_argument_call": onearg, "observed": got, "expected": want})
                code = DT_CODE.get(got, 0)
                cases.append("(%s, %s, %s)" % (core.zlit(mx), core.zlit(mn), core.zlit(code)))
                ctx.nontrivial.add((mx, mn, onearg))
    ctx.evaluations = len(cases)
    ctx.samples = [{"max": 65536, "min": -129, "impl": fit_dtype(65536, -129).name},
                   {"max": 2 ** 64 - 1, "min": 0, "impl": fit_dtype(2 ** 64 - 1).name},
                   {"max": -129, "one_argument_call": True, "impl": fit_dtype(-129).name}]
    # word-size tables
    tab = []
    for s in (1, 2, 4, 8):
        f = IndxIO.format(s)
        d = IndxIO.dtype(s).name
        import struct
        import numpy
        ok = struct.calcsize(f) == s and f[0] == "<" and numpy.dtype(d).itemsize == s and numpy.dtype(d).kind == "u"
        tab.append({"size": s, "format": f, "dtype": d, "ok": ok})
        if not ok:
            wrong.append({"word_size": s, "format": f, "dtype": d, "expected": "little-endian unsigned of that size"})
    ctx.coverage["word_size_tables"] = tab

    prelude = "From Catii Require Import Dtype.FitSpec Dtype.FitHand" + (" Dtype.gen.FitGen" if gen["ok"] else "") + "."
    chk = ("fun c => let '(mx, mn, code) := c in "
           "match spec_choice mx mn with Some d => Z.eqb (dtype_code d) code | None => false end "
           "&& Z.eqb (dtype_code (fit_dtype mx mn)) code"
           + (" && Z.eqb (dtype_code (fit_dtype_gen mx mn)) code" if gen["ok"] else ""))
    expl = "fun c => let '(mx, mn, code) := c in (mx, mn, code, option_map dtype_code (spec_choice mx mn), dtype_code (fit_dtype mx mn))"
    res = core.run_cases("c19grid", prelude, cases, "Z * Z * Z", chk, expl, shard_size=3000)
    ctx.coverage["coq_case_shards_failed"] = len(res.errors)
    ctx.coverage["model_disagreements"] = len(res.failing)
    ctx.coverage["exhaustive"] = True
    ctx.coverage["grid_values"] = len(vals)
    ctx.coverage["impl_raised"] = n_err

    # ---- verdict ----
    if wrong:
        w = wrong[0]
        ctx.report("fit_dtype:wrong-choice", "the selected dtype is not the narrowest sufficient one", {
            "failing_inputs": wrong[:20], "count": len(wrong), "how": "catii.iindexes.fit_dtype(max, min) vs numpy.iinfo ranges"})
    elif res.failing or res.errors or not proof_ok:
        what = []
        if not proof_ok:
            what.append("proof obligation no longer checks: " + "; ".join(b[0] for b in broken))
        if res.failing:
            what.append("correspondence suite c19grid: %d cases where code, hand model and specification differ" % len(res.failing))
        if res.errors:
            what.append("correspondence shards failed to evaluate: %s" % (res.errors[0][1][-500:],))
        ctx.report("c19:not-shown", "; ".join(what), {
            "broken": [{"obligation": b[0], "log": b[1][-2500:]} for b in broken],
            "disagreeing_cases": [cases[i] for i in res.failing[:20]], "explain": res.explain,
            "search": "grid of %d points judged by the NumPy oracle found no failing input" % len(cases)}, found_input=False)


def replay(ctx, path):
    import json
    r = json.load(open(path))
    ctx.import_catii()
    from catii.iindexes import fit_dtype
    bad = 0
    for c in r.get("failing_inputs", []):
        if "max" not in c:
            continue
        got = (fit_dtype(c["max"]) if c.get("one_argument_call") else fit_dtype(c["max"], c["min"])).name
        want = oracle(c["max"], c["min"])
        print("fit_dtype(%d, %d) = %s, narrowest sufficient = %s" % (c["max"], c["min"], got, want))
        if got != want:
            bad += 1
    ctx.evaluations = len(r.get("failing_inputs", []))
    ctx.level = "exploration"
    ctx.nontrivial.update(range(max(2, ctx.evaluations)))
    ctx.rule = "replay of recorded failing inputs"
    if bad:
        ctx.report("fit_dtype:wrong-choice", "replayed failing input still fails", {"failing_inputs": r["failing_inputs"]})
