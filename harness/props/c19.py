"""C19 - chosen integer dtypes are wide enough and no wider.

Tie W1: gen/FitGen.v regenerated from the source, theorem C19 (Properties/C19gen.v) re-checked.
Tie W2: the real fit_dtype / IndxIO.format / IndxIO.dtype against the Coq specification
        (`spec_choice`), the hand model and the generated model, evaluated inside Coq on the grid
        {+-2^k, +-2^k+-1 : k <= 64} u {every integer literal of the function +-1}, squared, pruned
        to the property's domain.
"""
import os

from .. import core, setup, translate_int

DT_CODE = {"int8": -8, "int16": -16, "int32": -32, "int64": -64, "uint8": 8, "uint16": 16, "uint32": 32, "uint64": 64}


def grid_values(literals, tier):
    vals = set()
    for k in range(0, 65):
        for s in (1, -1):
            for d in (-1, 0, 1):
                vals.add(s * 2 ** k + d)
    for l in literals:
        for d in (-1, 0, 1):
            vals.add(l + d)
            vals.add(-l + d)
    vals.update([0, 1, -1, 2, 3, 100, -100, 1000, 40000, -40000, 70000, 3 * 10 ** 9, -3 * 10 ** 9, 10 ** 19])
    return sorted(vals)


def in_domain(mx, mn):
    mn_e = mx if (mx < 0 and mn == 0) else mn
    return (-2 ** 63 <= mn_e) and mx < 2 ** 64 and (mn_e >= 0 or mx < 2 ** 63) and mn_e <= mx


def oracle(mx, mn):
    """Property stated directly with NumPy: narrowest integer dtype of the right signedness."""
    import numpy
    mn_e = mx if (mx < 0 and mn == 0) else mn
    lo = min(mn_e, 0)
    names = ["int8", "int16", "int32", "int64"] if mn_e < 0 else ["uint8", "uint16", "uint32", "uint64"]
    for n in names:
        ii = numpy.iinfo(n)
        if ii.min <= lo and mx <= ii.max:
            return n
    return None


# --------------------------------------------------------------------------------------------
# the CALLERS of fit_dtype named by the property: dense output (to_array), collapsed output, INDX
# coordinate words.  A caller that hands fit_dtype the wrong pair (e.g. the lexicographically last key
# instead of the largest coordinate) selects a type that wraps although fit_dtype itself is right.
# --------------------------------------------------------------------------------------------
POS = [0, 1, 2, 127, 128, 255, 256, 32767, 32768, 65535, 65536, 2 ** 31 - 1, 2 ** 31, 2 ** 32 - 1, 2 ** 32, 2 ** 62, 2 ** 63 - 1]
NEG = [-1, -2, -128, -129, -32768, -32769, -2 ** 31, -2 ** 31 - 1, -2 ** 62, -2 ** 63]


def caller_cases(ctx, n):
    """-> list of dicts {kind, values (what must be stored), observed dtype code, detail}; wrong ones flagged by the oracle."""
    import numpy
    from catii import iindex
    from catii.indxio import IndxIO
    from . import c10
    rng = ctx.rng
    out = []
    impl = None
    for i in range(n):
        kind = ["to_array", "to_array_mapping", "indx_word", "collapsed"][i % 4]
        try:
            if kind in ("to_array", "to_array_mapping", "collapsed"):
                pool = rng.sample(POS, 3) + (rng.sample(NEG, 2) if rng.random() < 0.5 else [])
                ncol = rng.choice([1, 2, 3]) if kind != "collapsed" else rng.choice([2, 3])
                nrow = rng.randint(1, 6)
                data = [[rng.choice(pool) for _ in range(ncol)] for _ in range(nrow)]
                a = numpy.array(data, dtype=numpy.int64)
                if ncol == 1 and kind != "collapsed" and rng.random() < 0.5:
                    a = a[:, 0]
                common = rng.choice(pool + [rng.choice(POS)]) if rng.random() < 0.6 else None
                idx = iindex.from_array(a, common=common) if common is not None else iindex.from_array(a)
                if kind == "to_array":
                    vs = sorted(set(a.flatten().tolist()) | {int(idx.common)})
                    res = idx.to_array()
                    ok_vals = res.tolist() == a.tolist()
                    out.append({"kind": kind, "values": vs, "observed": res.dtype.name, "values_ok": ok_vals,
                                "detail": {"array": a.tolist(), "common": common}})
                elif kind == "to_array_mapping":
                    keys = sorted(set(a.flatten().tolist()) | {int(idx.common)})
                    tg = [rng.choice(POS + NEG) for _ in keys]
                    m = dict(zip(keys, tg))
                    if min(tg) < 0 and max(tg) >= 2 ** 63:
                        continue
                    res = idx.to_array(mapping=m)
                    want = [[m[v] for v in row] for row in a.tolist()] if a.ndim == 2 else [m[v] for v in a.tolist()]
                    out.append({"kind": kind, "values": sorted(set(tg)), "observed": res.dtype.name, "values_ok": res.tolist() == want,
                                "detail": {"array": a.tolist(), "common": common, "mapping": [[k, v] for k, v in m.items()]}})
                else:
                    prec = rng.sample(pool, min(len(pool), rng.randint(1, 4)))
                    if rng.random() < 0.4:
                        extra = rng.choice(POS + NEG)
                        if extra not in prec:         # repeated precedence values are C06's business (F23), not C19's
                            prec.append(extra)
                    if min(prec) < 0 and max(prec) >= 2 ** 63:
                        continue
                    res = idx.collapsed(prec).to_array()
                    want = []
                    for row in a.tolist():
                        w = [q for q in prec if q in row]
                        want.append(w[0] if w else prec[-1])
                    # the working dtype is internal: too narrow a choice shows as OverflowError or wrapped values
                    out.append({"kind": kind, "values": sorted(set(prec)), "observed": None, "values_ok": res.tolist() == want,
                                "detail": {"array": a.tolist(), "common": common, "precedence": prec, "got": res.tolist(), "want": want}})
            else:
                if impl is None:
                    impl = c10.Impl(ctx)
                arity = rng.choice([1, 2, 2, 3])
                nent = rng.randint(0, 5)
                cls = rng.choice([255, 65535, 2 ** 32 - 1, 2 ** 63 - 1])
                keys = set()
                for _ in range(nent):
                    keys.add(tuple(rng.choice([0, 1, 2, rng.randint(0, 300), rng.choice([v for v in POS if v <= cls])]) for _ in range(arity)))
                keys = list(keys)
                rng.shuffle(keys)
                commonv = rng.choice([0, 3, rng.choice([v for v in POS if v <= rng.choice([255, 65535, 2 ** 32 - 1, 2 ** 63 - 1])])])
                entries = [(k, sorted(rng.sample(range(50), rng.randint(0, 3)))) for k in keys]
                b = impl.save(entries, commonv)
                iw = b[16 + 5]          # payload: dims (1) count (4) index word size (1)
                vs = sorted(set([commonv] + [c for k in keys for c in k]))
                out.append({"kind": kind, "values": vs, "observed": "uint%d" % (8 * iw), "values_ok": True,
                            "detail": {"entries": [[list(k), v] for k, v in entries], "common": commonv}})
        except Exception as e:   # the callers are total on these inputs
            out.append({"kind": kind, "values": [], "observed": "raised:" + type(e).__name__, "values_ok": False,
                        "detail": {"error": repr(e)[:200], "kind": kind}})
    return out


def run(ctx):
    ctx.rule = ("grid {+-2^k, +-2^k+-1 : k<=64} u {integer literals of fit_dtype +-1} squared, pruned to the domain "
                "(-2^63<=min', max<2^64, min'<0 -> max<2^63, min'<=max); a case is non-trivial/distinct per (max,min) pair; "
                "one-argument calls fit_dtype(max) are separate cases")
    ctx.trusted = list(core.STD_TRUSTED) + ["harness/translate_int.py (Python ast -> Gallina; fail-closed)"]
    gen = setup.regenerate()["fit"]
    ctx.coverage["tie_W1_translator_ok"] = gen["ok"]
    if not gen["ok"]:
        ctx.notes.append("translator did not recognise the source (%s): falling back to hand model + grid (W2 only)" % gen["reason"])

    # ---- proofs ----
    pr_hand = ctx.prove("C19.v")
    proof_ok = pr_hand["ok"]
    assumptions = list(pr_hand["assumptions"])
    broken = []
    if not pr_hand["ok"]:
        broken.append(("Properties/C19.v (hand model)", pr_hand["log"]))
    if gen["ok"]:
        pr_gen = ctx.prove("C19gen.v")
        assumptions += pr_gen["assumptions"]
        if not pr_gen["ok"]:
            proof_ok = False
            broken.append(("Properties/C19gen.v: theorem C19 over the model generated from the working tree", pr_gen["log"]))
    ctx.assumptions = ["Print Assumptions: " + a for a in assumptions] + [
        "the model's bounds are unbounded integers; the code is called with Python ints and, for every grid point, with NumPy integer "
        "scalars of the two narrowest dtypes holding each bound (same expected answer)",
    ]
    ctx.coverage["print_assumptions"] = assumptions

    # ---- grid correspondence ----
    catii = ctx.import_catii()
    from catii.iindexes import fit_dtype
    from catii.indxio import IndxIO
    vals = grid_values(gen.get("literals") or [], ctx.tier)
    cases, samples, wrong = [], [], []
    n_err = 0
    n_scalar = 0
    import warnings
    import numpy

    def holders(v):
        return [d for d in ("int8", "uint8", "int16", "uint16", "int32", "uint32", "int64", "uint64") if numpy.iinfo(d).min <= v <= numpy.iinfo(d).max]
    for mx in vals:
        for mn in vals:
            if not in_domain(mx, mn):
                continue
            for onearg in ((False, True) if mn == 0 else (False,)):
                try:
                    got = (fit_dtype(mx) if onearg else fit_dtype(mx, mn)).name
                except Exception as e:  # the code must be total on the domain
                    got = "raised:" + type(e).__name__
                    n_err += 1
                want = oracle(mx, mn)
                if got != want:
                    wrong.append({"max": mx, "min": mn, "one_argument_call": onearg, "observed": got, "expected": want})
                # the same bounds handed over as NumPy integer scalars (what to_array / collapsed / save pass when the
                # values come out of arrays): arithmetic on such a scalar wraps in ITS type (seeded c19h), comparisons do not
                for dx in holders(mx)[:2]:
                    for dn in ([None] if onearg else holders(mn)[:2]):
                        n_scalar += 1
                        try:
                            with warnings.catch_warnings():
                                warnings.simplefilter("ignore")
                                a = numpy.dtype(dx).type(mx)
                                g2 = (fit_dtype(a) if onearg else fit_dtype(a, numpy.dtype(dn).type(mn))).name
                        except Exception as e:
                            g2 = "raised:" + type(e).__name__
                        if g2 != want:
                            wrong.append({"max": mx, "min": mn, "one_argument_call": onearg, "observed": g2, "expected": want,
                                          "max_form": "numpy." + dx, "min_form": None if dn is None else "numpy." + dn})
                code = DT_CODE.get(got, 0)
                cases.append("(%s, %s, %s)" % (core.zlit(mx), core.zlit(mn), core.zlit(code)))
                ctx.nontrivial.add((mx, mn, onearg))
    ctx.evaluations = len(cases)
    ctx.samples = [{"max": 65536, "min": -129, "impl": fit_dtype(65536, -129).name},
                   {"max": 2 ** 64 - 1, "min": 0, "impl": fit_dtype(2 ** 64 - 1).name},
                   {"max": -129, "one_argument_call": True, "impl": fit_dtype(-129).name}]
    # word-size tables
    tab = []
    for s in (1, 2, 4, 8):
        f = IndxIO.format(s)
        d = IndxIO.dtype(s).name
        import struct
        import numpy
        ok = struct.calcsize(f) == s and f[0] == "<" and numpy.dtype(d).itemsize == s and numpy.dtype(d).kind == "u"
        tab.append({"size": s, "format": f, "dtype": d, "ok": ok})
        if not ok:
            wrong.append({"word_size": s, "format": f, "dtype": d, "expected": "little-endian unsigned of that size"})
    ctx.coverage["word_size_tables"] = tab

    # callers
    cc = caller_cases(ctx, 3000 if ctx.tier == "thorough" else 600)
    caller_wrong, caller_lits = [], []
    for c in cc:
        want = oracle(max(c["values"]), min(c["values"])) if c["values"] else None
        bad = (not c["values_ok"]) or (c["observed"] is not None and c["observed"] != want)
        if bad:
            caller_wrong.append(dict(c, expected_dtype=want))
        if c["values"] and c["observed"] in DT_CODE:
            caller_lits.append("(%s, %s)" % (core.zlist(c["values"]), core.zlit(DT_CODE[c["observed"]])))
        ctx.nontrivial.add((c["kind"], tuple(c["values"])))
    ctx.evaluations += len(cc)
    kinds = {}
    for c in cc:
        kinds[c["kind"]] = kinds.get(c["kind"], 0) + 1
    ctx.coverage["caller_cases"] = kinds
    ctx.samples += [{"caller": c["kind"], "values_to_store": c["values"], "selected": c["observed"]} for c in cc[:4]]

    prelude = "From Catii Require Import Dtype.FitSpec Dtype.FitHand" + (" Dtype.gen.FitGen" if gen["ok"] else "") + "."
    # the dtype a caller selected is the specification's choice for (max, min) of the values it has to store
    cres = core.run_cases("c19callers", prelude, caller_lits, "list Z * Z",
                          "fun c => match fst c with [] => false | x :: l => "
                          "match spec_choice (fold_left Z.max l x) (fold_left Z.min l x) with Some d => Z.eqb (dtype_code d) (snd c) | None => false end end",
                          None, shard_size=400)
    ctx.coverage["caller_model_disagreements"] = len(cres.failing)
    chk = ("fun c => let '(mx, mn, code) := c in "
           "match spec_choice mx mn with Some d => Z.eqb (dtype_code d) code | None => false end "
           "&& Z.eqb (dtype_code (fit_dtype mx mn)) code"
           + (" && Z.eqb (dtype_code (fit_dtype_gen mx mn)) code" if gen["ok"] else ""))
    expl = "fun c => let '(mx, mn, code) := c in (mx, mn, code, option_map dtype_code (spec_choice mx mn), dtype_code (fit_dtype mx mn))"
    res = core.run_cases("c19grid", prelude, cases, "Z * Z * Z", chk, expl, shard_size=3000)
    ctx.coverage["coq_case_shards_failed"] = len(res.errors)
    ctx.coverage["model_disagreements"] = len(res.failing)
    ctx.coverage["exhaustive"] = True
    ctx.coverage["grid_values"] = len(vals)
    ctx.coverage["impl_raised"] = n_err
    ctx.coverage["numpy_scalar_form_calls"] = n_scalar

    # ---- verdict ----
    if caller_wrong:
        caller_wrong.sort(key=lambda c: len(str(c["detail"])))
        ctx.report("fit_dtype:caller-wrong-width", "a caller of fit_dtype (%s) selects a dtype that is not the narrowest one holding the values it stores "
                   "(or wraps / raises)" % caller_wrong[0]["kind"], {"failing_inputs": caller_wrong[:10], "count": len(caller_wrong),
                   "how": "to_array()/to_array(mapping=) dtype, IndxIO.save index word size byte, collapsed() values vs narrowest NumPy dtype for (max, min) of the stored values"})
    elif cres.failing or cres.errors:
        ctx.report("c19:not-shown", "caller suite: selected dtype differs from spec_choice inside Coq (%d cases) / shards failed (%d)" % (len(cres.failing), len(cres.errors)),
                   {"disagreeing_cases": [caller_lits[i] for i in cres.failing[:10]], "errors": [e[1][-400:] for e in cres.errors[:2]]}, found_input=False)
    if wrong:
        w = wrong[0]
        ctx.report("fit_dtype:wrong-choice", "the selected dtype is not the narrowest sufficient one", {
            "failing_inputs": wrong[:20], "count": len(wrong), "how": "catii.iindexes.fit_dtype(max, min) vs numpy.iinfo ranges"})
    elif res.failing or res.errors or not proof_ok:
        what = []
        if not proof_ok:
            what.append("proof obligation no longer checks: " + "; ".join(b[0] for b in broken))
        if res.failing:
            what.append("correspondence suite c19grid: %d cases where code, hand model and specification differ" % len(res.failing))
        if res.errors:
            what.append("correspondence shards failed to evaluate: %s" % (res.errors[0][1][-500:],))
        ctx.report("c19:not-shown", "; ".join(what), {
            "broken": [{"obligation": b[0], "log": b[1][-2500:]} for b in broken],
            "disagreeing_cases": [cases[i] for i in res.failing[:20]], "explain": res.explain,
            "search": "grid of %d points judged by the NumPy oracle found no failing input" % len(cases)}, found_input=False)


def replay(ctx, path):
    import json
    r = json.load(open(path))
    ctx.import_catii()
    from catii.iindexes import fit_dtype
    bad = 0
    for c in r.get("failing_inputs", []):
        if "max" not in c:
            continue
        import warnings
        import numpy
        mxv, mnv = c["max"], c["min"]
        if c.get("max_form"):
            with warnings.catch_warnings():
                warnings.simplefilter("ignore")
                mxv = numpy.dtype(c["max_form"].split(".")[1]).type(mxv)
                if c.get("min_form"):
                    mnv = numpy.dtype(c["min_form"].split(".")[1]).type(mnv)
        try:
            with warnings.catch_warnings():
                warnings.simplefilter("ignore")
                got = (fit_dtype(mxv) if c.get("one_argument_call") else fit_dtype(mxv, mnv)).name
        except Exception as e:
            got = "raised:" + type(e).__name__
        want = oracle(c["max"], c["min"])
        print("fit_dtype(%d, %d) = %s, narrowest sufficient = %s" % (c["max"], c["min"], got, want))
        if got != want:
            bad += 1
    ctx.evaluations = len(r.get("failing_inputs", []))
    ctx.level = "exploration"
    ctx.nontrivial.update(range(max(2, ctx.evaluations)))
    ctx.rule = "replay of recorded failing inputs"
    if bad:
        ctx.report("fit_dtype:wrong-choice", "replayed failing input still fails", {"failing_inputs": r["failing_inputs"]})
