"""C12 - a torn INDX file is always rejected.

Proof : Properties/C12.v (C12_torn, C12_torn_rejected, C12_torn_any_writer over Indx/Load.v, Indx/Save.v,
        Indx/Layout.v; the core is Torn.torn_sized: any file whose size field records the true payload length).
Tie W2, EXHAUSTIVE over cut points:
  (s) every dict of the C10 generator (and indexes built by iindex.from_array) is saved by the real IndxIO.save
      on a real file; the file is then cut to k bytes (os.truncate) for EVERY k < len(file) and the real
      IndxIO.load is run on what is left; the stage class at which it refused (0 = it did not refuse) is
      recorded per k.  Inside Coq (Indx/Check.v: chk_c12) the bytes are compared with the model `save`, and for
      every k the model `load (firstn k bytes)` must be an error of the same stage class = `torn_stage k`.
  (w) the same for files laid out by the harness's struct-based encoder with word sizes the saver does not
      choose and arbitrary recorded dimension counts for empty indexes (C12_torn_any_writer); the file is
      identified with the specification's `layout_d d0 iw rw` by a checksum computed on both sides
      (chk_c12_layout).
  (S) larger files from the C10 'scale' generator (short and long row-id arrays, up to ~70 000 ids, in every dict
      order): cut at a SAMPLE of points - every k up to the end of the row-id lengths table, the last 64 bytes, around
      every boundary between two row-id arrays, 48 random points (chk_c12_sample; the ~70 000-id files are judged by the
      oracle only).  Exhaustiveness over cut points is claimed for the small files of (s), (w), (t) only.
  (t) REAL torn writes, for a sample of the dicts: the real save runs in a forked child under
      RLIMIT_FSIZE = k for every k < len(file) - the write that crosses byte k fails with EFBIG (a full disk)
      or the child is killed by SIGXFSZ (a killed process), alternately; whatever is left on disk is loaded by
      the real IndxIO.load and must be refused; it is also checked to BE the first k bytes of the complete
      file, which is the assumption under which `firstn k` models a torn write.
  The bytes of a file are sent to Coq once per case; Coq iterates over the cut points.
Oracle: the property stated directly - load(F[:k]) raised (any exception type).  No model involved.
The OS fact relied on (mmap refuses a length beyond the end of a regular file) is what this run observes.
"""
import json
import os

from .. import core
from . import c10


def cut_codes(impl, data):
    """Real file holding `data`, cut to k bytes for every k < len(data), loaded for real.
    -> (codes[k] = stage class of the refusal, 0 = load returned; accepted = [(k, repr of what was returned)])."""
    np = impl.np
    n = len(data)
    codes = [0] * n
    accepted = []
    with open(impl.path, "wb") as f:
        f.write(data)
    for k in range(n - 1, -1, -1):
        os.truncate(impl.path, k)             # the file as a crash after k bytes leaves it
        with impl.open_load() as f:
            try:
                entries, common, dt = impl.IndxIO.load(f)
            except Exception as e:  # noqa: any exception type counts as "rejected"
                codes[k] = c10.classify(e)
                continue
            try:
                shown = repr(({tuple(int(c) for c in key): np.asarray(v).tolist() for key, v in entries.items()}, int(common), str(dt)))[:400]
            except Exception as e:  # noqa
                shown = "returned normally (result not printable: %s)" % e
            accepted.append((k, shown))
            del entries
    return codes, accepted


def torn_write(impl, entries, common, k, kill):
    """Run the real save in a forked child that cannot write beyond byte k; return what is left on disk."""
    import resource
    import signal
    d = impl.to_dict(entries)
    if os.path.exists(impl.path):
        os.unlink(impl.path)
    pid = os.fork()
    if pid == 0:
        try:
            signal.signal(signal.SIGXFSZ, signal.SIG_DFL if kill else signal.SIG_IGN)
            resource.setrlimit(resource.RLIMIT_FSIZE, (k, k))
            with open(impl.path, "wb") as f:
                impl.IndxIO.save(f, d, common, impl.u32)
            os._exit(0)
        except BaseException:  # noqa
            os._exit(3)
        finally:
            os._exit(4)
    _, status = os.waitpid(pid, 0)
    with open(impl.path, "rb") as f:
        return f.read(), status


def load_left(impl):
    """Load whatever is in impl.path: stage class of the refusal, or (0, repr of what was returned)."""
    with impl.open_load() as f:
        try:
            entries, common, dt = impl.IndxIO.load(f)
        except Exception as e:  # noqa
            return c10.classify(e), None
        shown = repr((list(entries.keys()), int(common), str(dt)))[:400]
        del entries
        return 0, shown


def cut_codes_at(impl, data, cuts):
    """Like cut_codes, at the given cut points only (any order): -> ([(k, code)], accepted)."""
    out, accepted = [], []
    with open(impl.path, "wb") as f:
        f.write(data)
    for k in sorted(set(cuts), reverse=True):
        os.truncate(impl.path, k)
        code, shown = load_left(impl)
        out.append((k, code))
        if code == 0:
            accepted.append((k, shown))
    out.reverse()
    return out, accepted


def sample_cuts(rng, entries, common, data, n_random=48):
    """Cut points for a larger file: EVERY k up to the end of the row-id lengths table, the last 64 bytes, every boundary
    between two row-id arrays (and its neighbours), and a random sample in between."""
    iw = c10.narrowest(c10.max_word(entries, common))
    arity = len(entries[0][0]) if entries else 0
    rows_start = 16 + 1 + 4 + 1 + iw + len(entries) * arity * iw + 1 + 4 * len(entries)
    n = len(data)
    cuts = set(range(min(rows_start + 1, n)))
    cuts.update(range(max(0, n - 64), n))
    off = rows_start
    for _, v in entries:
        for d in (-1, 0, 1, 4):
            if 0 <= off + d < n:
                cuts.add(off + d)
        off += 4 * len(v)
    for _ in range(n_random):
        cuts.add(rng.randrange(n))
    return sorted(cuts), rows_start


def reachable(impl, rng, n):
    """(entries, common) of indexes the library builds itself."""
    out = []
    for idx in c10.reachable_indexes(impl, rng, n):
        out.append(([(tuple(int(c) for c in k), [int(x) for x in v.tolist()]) for k, v in dict.items(idx)], int(idx.common)))
    return out


def other_widths(rng, entries, common, how_many):
    """Admissible (iw, rw, d0) triples other than the saver's own choice."""
    from .c11 import admissible_widths
    iw0 = c10.narrowest(c10.max_word(entries, common))
    pairs = [(iw, rw) for iw, rw in admissible_widths(entries, common) if (iw, rw) != (iw0, 4)]
    rng.shuffle(pairs)
    out = []
    for iw, rw in pairs[:how_many]:
        out.append((iw, rw, 0 if entries else rng.choice([0, 1, 2, 4, 255])))
    return out


def run(ctx):
    ctx.rule = ("files: (s) written by the real save for C10-generator dicts (arity 1..4, 0..6 entries, coordinate x common magnitude classes, "
                "boundary row ids) and for indexes built by iindex.from_array; (w) written by a struct-based encoder at admissible word sizes "
                "the saver does not choose (and any recorded dimension count for an empty index); (S) larger files of the C10 'scale' generator (2..8 entries mixing short 0..10 and long 64..600 / 63,64,65 / 255,256,257 / "
                "~70 000-id row-id arrays in every dict order) cut at a SAMPLE of points (whole header + index + lengths region, last 64 bytes, array boundaries, 48 random); "
                "a case is (file, cut point k); for (s), (w) EVERY k < len(file) "
                "is run: the file is truncated to k bytes and loaded by the real IndxIO.load; distinct per (file bytes, k)")
    ctx.trusted = list(core.STD_TRUSTED) + c10.TRUSTED + [
        "a write cut short at byte k leaves the first k bytes of the complete file (save writes strictly sequentially; modelled as firstn k)"]
    pr, proof_ok = c10.prove(ctx, "C12.v")
    c10.build_check(ctx)
    impl = c10.Impl(ctx)
    quick = ctx.tier == "quick"
    n_gen, n_idx, n_other, n_torn = (600, 60, 2, 12) if quick else (8000, 600, 3, 150)

    bad = []
    lits_s, recs_s, lits_w, recs_w = [], [], [], []
    seen_files = {}
    sampled_pairs = set()
    stage_hist = {}
    n_loads = 0
    longest = 0

    def account(data, codes, accepted, rec):
        nonlocal n_loads, longest
        n_loads += len(codes)
        longest = max(longest, len(data))
        seen_files.setdefault(data, len(data))
        for c in codes:
            stage_hist[c10.STAGE.get(c, "ACCEPTED")] = stage_hist.get(c10.STAGE.get(c, "ACCEPTED"), 0) + 1
        for k, shown in accepted:
            bad.append(dict(rec, cut=k, file_len=len(data), file_hex=data.hex()[:4000], prefix_hex=data[:k].hex()[:4000], returned=shown,
                            what="load of the first %d of %d bytes returned %s" % (k, len(data), shown[:160])))

    inputs = []
    for _ in range(n_gen):
        entries, common, _desc = c10.gen_entries(ctx.rng)
        inputs.append((entries, common, "generator"))
    for entries, common in reachable(impl, ctx.rng, n_idx):
        inputs.append((entries, common, "iindex.from_array"))

    for entries, common, src in inputs:
        rec = {"entries": [[list(k), v] for k, v in entries], "common": common, "from": src}
        # (s) the saver's own file
        try:
            data = impl.save(entries, common)
        except Exception as e:
            # not this property's business (C10 reports it); nothing to tear
            ctx.notes.append("save raised %s on %r" % (type(e).__name__, rec)) if len(ctx.notes) < 3 else None
            data = None
        if data is not None:
            codes, accepted = cut_codes(impl, data)
            account(data, codes, accepted, dict(rec, stream="s", form=impl.last_form))
            lits_s.append("(%s, %s, %s, %s)" % (c10.lit_entries(entries), core.zlit(common), c10.lit_bytes(data), core.zlist(codes)))
            recs_s.append(dict(rec, file_len=len(data)))
        # (w) files of an independent writer
        for iw, rw, d0 in other_widths(ctx.rng, entries, common, n_other):
            file = c10.enc(entries, common, iw, rw, d0)
            codes, accepted = cut_codes(impl, file)
            account(file, codes, accepted, dict(rec, stream="w", iw=iw, rw=rw, d0=d0))
            lits_w.append("(%s, %s, %d, %d, %d, %s, %s)" % (c10.lit_entries(entries), core.zlit(common), d0, iw, rw, core.zlit(c10.checksum(file)), core.zlist(codes)))
            recs_w.append(dict(rec, iw=iw, rw=rw, d0=d0, file_len=len(file)))

    # (S) scale: larger files (long and short row-id arrays in every dict order), cut at a SAMPLE of cut points
    lits_S, recs_S = [], []
    scale_stats = {"files": 0, "cut_points": 0, "compared_inside_coq": 0, "longest_file_bytes": 0}
    for entries, common, desc, in_coq in c10.gen_scale(ctx.rng, 6 if quick else 60, 1 if quick else 3):
        try:
            data = impl.save(entries, common)
        except Exception:  # noqa  (C10 reports it)
            continue
        cuts, rows_start = sample_cuts(ctx.rng, entries, common, data)
        kc, accepted = cut_codes_at(impl, data, cuts)
        rec = {"entries": [[list(k), v] for k, v in entries], "common": common, "from": "scale", "stream": "S", "form": impl.last_form}
        slim = {"entries_summary": [[list(k), len(v), v[:3]] for k, v in entries], "common": common, "from": "scale", "stream": "S", "file_len": len(data)}
        n_loads += len(kc)
        longest = max(longest, len(data))
        scale_stats["files"] += 1
        scale_stats["cut_points"] += len(kc)
        scale_stats["longest_file_bytes"] = max(scale_stats["longest_file_bytes"], len(data))
        sampled_pairs.add((data, tuple(cuts)))
        for _k, c in kc:
            stage_hist[c10.STAGE.get(c, "ACCEPTED")] = stage_hist.get(c10.STAGE.get(c, "ACCEPTED"), 0) + 1
        for k, shown in accepted:
            bad.append(dict(rec, cut=k, file_len=len(data), file_hex=data.hex()[:4000], prefix_hex=data[:k].hex()[:4000], returned=shown,
                            what="load of the first %d of %d bytes returned %s" % (k, len(data), shown[:160])))
        if in_coq:
            lits_S.append("(%s, %s, %s, [%s])" % (c10.lit_entries(entries), core.zlit(common), c10.lit_bytes(data), "; ".join("(%d, %d)" % x for x in kc)))
            recs_S.append(slim)
            scale_stats["compared_inside_coq"] += 1

    # (t) real torn writes
    torn_stats = {"files": 0, "torn_writes": 0, "left_is_prefix_of_complete_file": 0, "left_length_equals_limit": 0, "save_returned_normally_on_torn_file": 0,
                  "child_killed_by_SIGXFSZ": 0, "child_save_raised": 0}
    not_prefix = []
    step = max(1, len(inputs) // max(1, n_torn))
    for entries, common, src in inputs[::step][:n_torn]:
        try:
            data = impl.save(entries, common)
        except Exception:  # noqa
            continue
        codes, _acc = cut_codes(impl, data)
        torn_stats["files"] += 1
        for k in range(len(data)):
            kill = bool((k + torn_stats["files"]) % 2)
            left, status = torn_write(impl, entries, common, k, kill)
            code, shown = load_left(impl)
            n_loads += 1
            torn_stats["torn_writes"] += 1
            torn_stats["left_length_equals_limit"] += len(left) == k
            torn_stats["child_killed_by_SIGXFSZ"] += os.WIFSIGNALED(status)
            torn_stats["child_save_raised"] += os.WIFEXITED(status) and os.WEXITSTATUS(status) == 3
            torn_stats["save_returned_normally_on_torn_file"] += os.WIFEXITED(status) and os.WEXITSTATUS(status) == 0
            rec = {"entries": [[list(kk), v] for kk, v in entries], "common": common, "from": src, "stream": "t", "write_limit": k, "left_len": len(left)}
            if len(left) < len(data) and code == 0:
                bad.append(dict(rec, cut=len(left), file_len=len(data), file_hex=data.hex()[:4000], prefix_hex=left.hex()[:4000], returned=shown,
                                what="save was cut short by a %d-byte file-size limit (%s); load of the %d bytes left returned %s"
                                     % (k, "child killed by SIGXFSZ" if kill else "EFBIG", len(left), shown[:160])))
            if data.startswith(left):
                torn_stats["left_is_prefix_of_complete_file"] += 1
                if len(left) < len(data) and code != codes[len(left)] and code != 0:
                    not_prefix.append(dict(rec, what="refused at stage %s, but the truncated complete file at stage %s" % (code, codes[len(left)])))
            else:
                not_prefix.append(dict(rec, what="what a torn write left is not a prefix of the complete file", left_hex=left.hex()[:2000], file_hex=data.hex()[:2000]))

    rs = core.run_cases("c12s", c10.PRELUDE, lits_s, "entries_t * Z * list Z * list Z", "chk_c12", "explain_c12", shard_size=40 if quick else 550)
    rS = core.run_cases("c12S", c10.PRELUDE, lits_S, "entries_t * Z * list Z * list (Z * Z)", "chk_c12_sample", "explain_c12_sample", shard_size=3 if quick else 12)
    rw_ = core.run_cases("c12w", c10.PRELUDE, lits_w, "entries_t * Z * Z * Z * Z * Z * list Z", "chk_c12_layout", "explain_c12_layout", shard_size=80 if quick else 1600)

    ctx.evaluations = n_loads
    impl.record_forms()
    ctx.coverage["distinct_nontrivial"] = sum(seen_files.values()) + sum(len(c) for _, c in sampled_pairs)      # distinct (file bytes, cut point) pairs
    ctx.samples = recs_s[:2] + recs_w[:2] + recs_s[-1:]
    ctx.coverage.update({
        "exhaustive": True,
        "exhaustive_over": "cut points: every k in 0..len(file)-1 of every file of streams (s), (w), (t) (files up to a few hundred bytes); the larger 'scale' files "
                           "(stream S, up to ~300 KB) are cut at every k up to the end of the row-id lengths table, at the last 64 bytes, around every boundary between "
                           "two row-id arrays and at 48 random points - NOT exhaustively",
        "scale_stream_sampled_cuts": scale_stats,
        "files_saved_for_real": len(lits_s), "independent_writer_files": len(lits_w), "distinct_files": len(seen_files),
        "prefixes_loaded_for_real": n_loads, "longest_file_bytes": longest,
        "refusal_stage_histogram": dict(sorted(stage_hist.items())),
        "prefixes_accepted": len(bad),
        "real_torn_writes_RLIMIT_FSIZE": torn_stats, "torn_write_model_mismatches": len(not_prefix),
        "model_disagreements": {"saver_files": len(rs.failing), "independent_writer_files": len(rw_.failing), "scale_files": len(rS.failing)},
        "coq_case_shards_failed": len(rs.errors) + len(rw_.errors) + len(rS.errors),
        "tie": "W2 inside Coq: chk_c12 (real bytes = model save; for every k model load(firstn k) = LErr (torn_stage k) = observed stage class), "
               "chk_c12_layout (same on layout_d d0 iw rw files, identified by checksum)"})

    if bad:
        bad.sort(key=lambda r: (r["file_len"], r["cut"]))
        ctx.report("torn:prefix-accepted", "a torn file was loaded: " + bad[0]["what"],
                   {"failing_inputs": bad[:10], "count": len(bad), "files_with_an_accepted_prefix": len(set(r["file_hex"] for r in bad)),
                    "how": "file written for real, cut with os.truncate, loaded by the real IndxIO.load; the oracle is 'load raised' (no model involved)"})
    elif rs.failing or rw_.failing or rS.failing or rs.errors or rw_.errors or rS.errors or not proof_ok or not_prefix:
        w = []
        if not_prefix:
            w.append("real torn writes (RLIMIT_FSIZE) are not modelled by `firstn k` of the complete file in %d cases: %s" % (len(not_prefix), not_prefix[0]["what"]))
        if not proof_ok:
            w.append("proof obligation no longer checks: Properties/C12.v (%s)" % ((pr["log"] or "")[-300:] if not pr["ok"] else "assumptions: %s" % pr["assumptions"]))
        if rs.failing or rw_.failing or rS.failing:
            w.append("correspondence suites c12s/c12w/c12S: %d files on which the code differs from the model (bytes written, or the stage that refuses a prefix)"
                     % (len(rs.failing) + len(rw_.failing) + len(rS.failing)))
        errs = rs.errors + rw_.errors + rS.errors
        if errs:
            w.append("correspondence shards failed to evaluate: %s" % (errs[0][1][-400:],))
        ctx.report("c12:not-shown", "; ".join(w), {
            "broken_proof_log": (pr["log"] or "")[-2500:] if not pr["ok"] else "",
            "disagreeing_cases": [dict(recs_s[i], stream="s") for i in rs.failing[:6] if i < len(recs_s)]
                                 + [dict(recs_w[i], stream="w") for i in rw_.failing[:6] if i < len(recs_w)]
                                 + [recs_S[i] for i in rS.failing[:4] if i < len(recs_S)],
            "explain": "\n".join(x[-1500:] for x in (rs.explain, rw_.explain, rS.explain) if x), "torn_write_model_mismatches": not_prefix[:6],
            "search": "every one of the %d prefixes loaded for real was refused (oracle: load raised)" % n_loads}, found_input=False)


def replay(ctx, path):
    r = json.load(open(path))
    impl = c10.Impl(ctx)
    ctx.level = "exploration"
    ctx.rule = "replay of recorded torn files: every strict prefix of each recorded file is loaded again"
    still = []
    n = 0
    done = set()
    for c in r.get("failing_inputs", []):
        ident = json.dumps([c["entries"], c["common"], c.get("stream"), c.get("iw"), c.get("rw"), c.get("d0")])
        if ident in done:
            continue
        done.add(ident)
        entries = [(tuple(k), list(v)) for k, v in c["entries"]]
        if c.get("stream") == "w":
            data = c10.enc(entries, c["common"], c["iw"], c["rw"], c.get("d0", 0))
        else:
            try:
                data = impl.save(entries, c["common"], form=c.get("form") or dict(c10.PLAIN_FORM))
            except Exception as e:
                print("entries=%r common=%r: save raised %s: %s" % (c["entries"], c["common"], type(e).__name__, e))
                continue
        codes, accepted = cut_codes(impl, data)
        n += len(codes)
        print("entries=%r common=%r stream=%s: %d bytes, prefixes accepted at k=%s" % (c["entries"], c["common"], c.get("stream"), len(data), [k for k, _ in accepted]))
        for k, shown in accepted:
            still.append(dict(c, cut=k, file_len=len(data), returned=shown, what="load of the first %d of %d bytes returned %s" % (k, len(data), shown[:160])))
        if c.get("stream") == "t":
            # real torn writes: the save itself is cut short by a file-size limit, at every byte
            for k in range(len(data)):
                left, _status = torn_write(impl, entries, c["common"], k, bool(k % 2))
                code, shown = load_left(impl)
                n += 1
                if len(left) < len(data) and code == 0:
                    print("  write limit %d: %d bytes left, load returned %s" % (k, len(left), shown[:120]))
                    still.append(dict(c, cut=len(left), file_len=len(data), returned=shown,
                                      what="save cut short by a %d-byte file-size limit; load of the %d bytes left returned %s" % (k, len(left), shown[:160])))
    ctx.evaluations = n
    ctx.nontrivial.update(range(max(2, n)))
    if still:
        still.sort(key=lambda x: (x["file_len"], x["cut"]))
        ctx.report("torn:prefix-accepted", "replayed torn file is still loaded: " + still[0]["what"], {"failing_inputs": still[:10]})
