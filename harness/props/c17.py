"""C17 - aggregations are pure: inputs untouched, no hidden state between calls.

Tie W1: harness/translate_effects.py re-translates every in-scope function of the working tree into the
        effect IR (coq/theories/Effects/gen/Progs.v) on every run; Properties/C17.v (C17_effects: the
        checker `pure` accepts every generated program, by vm_compute; C17_effects_sound: the corollary of
        pure_sound for each of them) is rebuilt.  A source change that lets a function modify - or possibly
        modify - caller-owned memory makes a gen/Shard<k>.v lemma fail to compile.
Tie W2 (model-free oracle and search): harness/effects_runtime.py runs the REAL implementation on the
        C03/C18/C06-style generators and compares every argument byte for byte before / after every call
        (values hidden under a False validity, dimension arrays, index entries, mappings, precedence lists),
        compares calculate(list)[i] with calculate([list[i]])[0], permutations, repeated calls, re-use of
        aggregate objects on another cube, and writes into results documented as copies.  FreshTracer
        validates the trusted NumPy table: every local the translator classified `fresh` shares no memory
        with any argument of its frame.
"""
import json
import os
import time

from .. import core, effects_runtime as er, effects_table as T, translate_effects as te

THEOREMS = ["C17_analysis_sound", "C17_pure_sound", "C17_effects", "C17_effects_sound",
            "C17_calculate_independent", "C17_calculate_reorder"]


def _case_summary(case):
    if case.get("kind") == "index":
        return {"kind": "index", "id": case["id"], "call": er._call_text(case["call"]), "history": len(case.get("history", [])),
                "shape": case["base"].get("arr", {}).get("shape") if isinstance(case["base"], dict) else None}
    return {"kind": case["kind"], "id": case["id"], "N": case["N"], "ndims": len(case["dims"]),
            "aggs": [{k: a.get(k) for k in ("cls", "fact", "weights", "ignore_missing", "rma")} for a in case["aggs"]],
            "perm": case.get("perm"), "shared_refs": er._shared_refs(case) if hasattr(er, "_shared_refs") else None}


def _run_runtime(catii, cases, claims, pkg_dir, trace):
    t0 = time.time()
    if trace:
        tracer = er.FreshTracer(pkg_dir, claims)
        with tracer:
            res = er.run_cases(catii, cases)
    else:
        tracer = None
        res = er.run_cases(catii, cases)
    res["wall"] = round(time.time() - t0, 1)
    res["tracer"] = tracer
    return res


def _report_findings(ctx, catii, findings, limit=6):
    """one report per failure class (signature); cube cases are shrunk first"""
    seen = {}
    for f in findings:
        seen.setdefault(f["signature"], []).append(f)
    n = 0
    for sig, fs in sorted(seen.items()):
        if n >= limit:
            break
        f = fs[0]
        case = f["case"]
        if case.get("kind") != "index":
            try:
                case = er.shrink_cube_case(catii, case, sig, budget=5.0)
                again = [g for g in er.replay_case(catii, case)["findings"] if g["signature"] == sig]
                if again:
                    f = again[0]
            except Exception:  # noqa - shrinking is best effort
                case = f["case"]
        ctx.report(sig, "%s (%d case(s) of this class)" % (f["what"], len(fs)),
                   {"case": case, "detail": f.get("detail"), "how": "harness.effects_runtime.replay_case(catii, case): byte-for-byte "
                    "comparison of every argument before/after each call, results compared with separate evaluations"})
        n += 1


def run(ctx):
    ctx.rule = ("cube cases: ccube/xcube alternately, N in {0..40}, 0-3 dims (with scaffold axes, common values), 1-4 aggregates "
                "drawn from all ffunc/xfunc classes, fact/weights as NaN-arrays, (values, validity) tuples with junk under "
                "False validity, plain int/float; arrays SHARED between aggregates with p=0.35-0.45; steps: constructors, cube "
                "constructor, each aggregate alone, all together, repeat, permutation, re-use on a second cube and back, shortcut "
                "methods; index cases: one non-mutating method (C06 list incl. properties, column_stack, from_array) after a random "
                "history of mutating operations, called twice (+ once with other arguments), results documented as copies are "
                "overwritten; every argument snapshot byte-for-byte after every call; lists that mention the SAME aggregate object "
                "two or three times ([f,f], [f,g,f] ...) compared position by position with calculate([f]); the same counts / "
                "mapping / mask / precedence object re-used by the second call; append cases: the operand index is watched and "
                "re-used on a second identical receiver.  Every fifth cube case belongs to the MAGNITUDE "
                "stream (40-80 rows, float facts / weights / values hidden under a False validity around 1e307 - their total is "
                "inf - or around 1e-300).  The FORM of every argument varies with its content unchanged (harness/forms.py): arrays "
                "strided / negative-stride / Fortran / transposed-store / READ-ONLY (a write attempt raises: also a finding), "
                "dimension arrays in every integer dtype that holds them, NumPy-scalar N / ints, aggregates as list or tuple, "
                "mappings as dict / OrderedDict / defaultdict, sequences as list / tuple / range / ndarray.  A case is non-trivial when it is not "
                "rejected by the library and (cube) has a missing value or a shared array / (index) a non-empty index or history; "
                "distinct = distinct case id")
    ctx.trusted = list(core.STD_TRUSTED) + [
        "harness/translate_effects.py (Python ast -> effect IR; fail-closed on unknown calls / constructs; assumptions A-unpack, "
        "A-mult, dict keys and effects_table.SCALAR_ATTRS are immutable values, receivers of in-scope method names are in-scope "
        "objects or builtins/ndarrays; recursion encoded as a loop with weak parameter re-binding)",
        "harness/effects_table.py (classification of NumPy / builtin / stdlib calls: fresh, copy, view, in place ...); its "
        "`fresh`/`copy` column is validated at run time by FreshTracer, its `in place` column by the byte comparison",
        "the entry description of caller memory: protected objects reference protected objects (and the diagnostics world under "
        "the diagnostics attributes tracing/_tracing/intersection_data_points); memory the function may write (result regions, "
        "`self` of constructors and of the mutating index methods, the array of adjust_zeros, `entries` of iindex.__init__) is "
        "disjoint from it",
    ]
    tier = ctx.tier
    # ---- W1: translate the working tree, rebuild the proofs ------------------------------------------------
    t0 = time.time()
    info = te.regenerate(core.REPO, with_mirror=True)
    ctx.coverage["translate_wall_s"] = round(time.time() - t0, 1)
    progs = info["programs"]
    mirror_rejected = [{"program": p["name"], "reason": p.get("mirror_reason"), "source": "%s:%s" % (p["file"], p["line"])}
                       for p in progs if not p.get("mirror_pure", True)]
    untranslatable = [{"program": p["name"], "error": p["error"]} for p in progs if p["error"]]
    t0 = time.time()
    pr = ctx.prove("C17.v")
    ctx.coverage["prove_wall_s"] = round(time.time() - t0, 1)
    closed = [a for a in pr["assumptions"] if a.startswith("Closed")]
    ctx.assumptions = ["Print Assumptions %s: %s" % (n, a) for n, a in zip(THEOREMS, pr["assumptions"])] + [
        "hypothesis of C17_effects_sound: the caller's heap is covered by the program's entry description (see trusted base); "
        "Example C17_hypotheses_satisfiable exhibits a covered concrete heap with a protected location and an execution",
        "C17_calculate_independent is model level (fill : region -> cell -> region): that fills touch only their own regions is "
        "C17_effects for fill_func+_fill / fill; the glue code of cube.calculate itself is covered by the run-time comparison only",
    ]
    ctx.coverage["print_assumptions"] = pr["assumptions"]
    ctx.coverage["statements"] = THEOREMS
    ctx.coverage["programs_in_C17_effects"] = [p["name"] for p in progs]
    ctx.coverage["programs_ret_fresh"] = [p["name"] for p in progs if p["ret_fresh"]]
    ctx.coverage["functions_runtime_only"] = info["runtime_only"]
    ctx.coverage["ret_fresh_runtime_only"] = ["%s.%s" % (c or m, f) for (m, c, f) in T.RET_FRESH_RUNTIME_ONLY]
    ctx.coverage["control_mutants"] = info["controls"]
    ctx.coverage["ir_statements_total"] = sum(p["size"] for p in progs)
    ctx.coverage["fail_closed_calls_inside_claimed_programs"] = sorted({f for p in progs for f in p["failclosed"]})
    proof_ok = bool(pr["ok"]) and info["ok"] and len(closed) == len(pr["assumptions"]) and len(pr["assumptions"]) >= len(THEOREMS)
    controls_ok = bool(info["controls"]) and not any(info.get("controls_mirror", [True]))
    # ---- W2: the implementation ---------------------------------------------------------------------------------
    catii = ctx.import_catii()
    pkg_dir = os.path.join(ctx.snapshot("plain"), "catii")
    cube_cases = er.gen_cube_cases(ctx.rng, tier)
    index_cases = er.gen_index_cases(ctx.rng, tier)
    if tier == "thorough":                      # three more draws of the same size
        for k in range(3):
            more_c, more_i = er.gen_cube_cases(ctx.rng, tier), er.gen_index_cases(ctx.rng, tier)
            for c in more_c:
                c["id"] += len(cube_cases)
            for c in more_i:
                c["id"] += len(index_cases)
            cube_cases += more_c
            index_cases += more_i
    claims = info.get("claims", [])
    ntrace_c, ntrace_i = (200, 300) if tier == "quick" else (700, 1500)
    res_t = _run_runtime(catii, cube_cases[:ntrace_c] + index_cases[:ntrace_i], claims, pkg_dir, trace=True)
    res_u = _run_runtime(catii, cube_cases[ntrace_c:] + index_cases[ntrace_i:], claims, pkg_dir, trace=False)
    findings = res_t["findings"] + res_u["findings"]
    tracer = res_t["tracer"]
    stats = {}
    for k in ("cases", "calls", "args_compared", "rejected", "with_missing", "poked"):
        stats[k] = res_t["stats"][k] + res_u["stats"][k]
    by_class = dict(res_t["stats"]["by_class"])
    for k, v in res_u["stats"]["by_class"].items():
        by_class[k] = by_class.get(k, 0) + v
    form_tags = dict(res_t["stats"].get("forms", {}))
    for k, v in res_u["stats"].get("forms", {}).items():
        form_tags[k] = form_tags.get(k, 0) + v
    ctx.evaluations = stats["cases"]
    for c in cube_cases:
        if er.case_has_missing(c) or er._shared_refs(c):
            ctx.nontrivial.add(("cube", c["id"]))
    for c in index_cases:
        if c.get("history") or c["base"].get("arr", {}).get("shape", [0])[0]:
            ctx.nontrivial.add(("index", c["id"]))
    ctx.samples = [_case_summary(cube_cases[0]), _case_summary(cube_cases[1]), _case_summary(index_cases[0]), _case_summary(index_cases[1])]
    hit = sorted(tracer.claims_hit)
    ctx.coverage.update({
        "runtime": stats, "runtime_by_class": by_class,
        "argument_forms": dict(sorted(form_tags.items())),
        "magnitude_stream_cases": sum(1 for c in cube_cases if c.get("magnitude")),
        "runtime_wall_s": {"traced": res_t["wall"], "untraced": res_u["wall"]},
        "table_claims_total": len(claims), "table_claims_exercised": len(hit), "table_claim_checks": tracer.checked,
        "table_claim_violations": tracer.violations[:10], "tracer_errors": tracer.errors[:5],
        "table_entries_validated": sorted({c["call"].split(".")[-1] + ":" + c["kind"] for c in claims
                                           if (c["file"], c["line"], c["var"]) in tracer.claims_hit}),
    })
    # ---- verdict -------------------------------------------------------------------------------------------------
    if findings:
        _report_findings(ctx, catii, findings)
        if not proof_ok:
            ctx.notes.append("proof side also broken: %s" % json.dumps(mirror_rejected[:5]))
        return
    problems = []
    if not proof_ok:
        problems.append("proof obligation no longer checks: Properties/C17.v (C17_effects over the programs generated from the "
                        "working tree); the checker rejects: %s%s" % (
                            json.dumps(mirror_rejected[:6]) if mirror_rejected else "(python mirror accepts everything - see log)",
                            ("; untranslatable: " + json.dumps(untranslatable[:4])) if untranslatable else ""))
    if not controls_ok:
        problems.append("control mutants are not rejected (or could not be built): the checker may be vacuous")
    if tracer.violations:
        problems.append("trusted table invalid: a value classified fresh shares memory with an argument: %s" % json.dumps(tracer.violations[:3]))
    if problems:
        # search harder for a concrete input before giving up
        extra = []
        import random
        for k in range(3 if tier == "quick" else 6):
            rng = random.Random(ctx.seed * 7919 + 1000 + k)
            cs = er.gen_cube_cases(rng, "quick") + er.gen_index_cases(rng, "quick")
            extra += er.run_cases(catii, cs)["findings"]
            ctx.evaluations += len(cs)
            if extra:
                break
        if extra:
            _report_findings(ctx, catii, extra)
            ctx.notes.append("; ".join(problems)[:1500])
            return
        ctx.report("c17:not-shown", "; ".join(problems)[:3000], {
            "broken": [{"obligation": "Properties/C17.v / Effects/gen/Shard*.v", "log": pr["log"][-2500:]}],
            "checker_rejects": mirror_rejected[:20], "untranslatable": untranslatable[:10],
            "table_claim_violations": tracer.violations[:10],
            "search": "%d cube/index cases, every argument compared byte for byte after every call, results compared with separate "
                      "evaluations: no concrete failing input" % ctx.evaluations}, found_input=False)


def replay(ctx, path):
    r = json.load(open(path))
    catii = ctx.import_catii()
    ctx.level = "exploration"
    ctx.rule = "replay of a recorded failing case"
    case = r.get("case")
    if not case:
        print("no concrete case recorded (%s): re-run ./check C17" % r.get("kind"))
        ctx.evaluations = 1
        ctx.nontrivial.update([0, 1])
        return
    res = er.replay_case(catii, case)
    ctx.evaluations = 1
    ctx.nontrivial.update([0, 1])
    for f in res["findings"]:
        print("%s: %s" % (f["signature"], f["what"]))
    same = [f for f in res["findings"] if f["signature"] == r.get("signature")] or res["findings"]
    if same:
        f = same[0]
        ctx.report(f["signature"], "replayed failing case still fails: " + f["what"], {"case": case, "detail": f.get("detail")})
    else:
        print("the recorded case no longer fails")
