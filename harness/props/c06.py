"""C06 - see harness/iindex_hist.py (shared generator, abstraction and NumPy oracle of C06/C07/C15) and
coq/theories/Properties/C06.v.  This check judges the C06 part of every step: IIndex/Check.v chk06."""
from .. import iindex_hist


def run(ctx):
    iindex_hist.run_check(ctx, "C06")


def replay(ctx, path):
    iindex_hist.replay_check(ctx, "C06", path)
