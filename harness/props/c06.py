"""C06 - index operations track NumPy on the dense array, over any history.

Theorems: coq/theories/Properties/C06.v (per-operation shape/dense refinement, history by induction; iindex-proofs).
Tie (this check): stepwise simulation of random real histories, harness/iindex_hist.py `run_check(ctx, "C06")`:
  * generator: initial real 1-D/2-D/3-D index + <= 6 (quick) / 12 (thorough) operations with their full argument space;
    the real receiver is re-abstracted before EVERY step;
  * inside Coq (IIndex/Check.v `chk06`, vm_compute): model `step (abs before) op` vs the abstracted real outcome on shape,
    dense content, common (equal or a most frequent value where the library chooses), NumPy's expected rows, entries as
    a dict for the entry-wise set updates, observers (get/items/to_dict(force), common_rowids, slices1d) against the model
    and against the dense array; exception class when the call raises;
  * model-free oracle (Python): NumPy on the dense array carried through the history, to_array(dtype=int), byte-exact
    snapshots of every non-receiver operand, numpy.shares_memory for explicitly requested copies;
  * verdicts, shrinking (drop steps / drop rows), evidence (operation / history-length / exception histograms, anchored
    line coverage, steps inside the theorems' hypotheses `args_ok_b`).
  * the in-Coq tie is small-scope (N <= 8 initial rows); a SCALE stream (histories from sparse indexes of 130-400 rows with
    50-200-row appends and out-of-order multi-value updates; a few one-step cases on arrays of more than 65 536 cells) is
    always judged by the model-free oracles and compared inside Coq only while the literals stay small.
Notes: notes/iindex-harness.md."""
from .. import iindex_hist


def run(ctx):
    iindex_hist.run_check(ctx, "C06")


def replay(ctx, path):
    iindex_hist.replay_check(ctx, "C06", path)
