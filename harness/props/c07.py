"""C07 - every operation preserves index well-formedness.

Theorems: coq/theories/Properties/C07.v (`wf_b` reflects `WF`; `op_wf` per operation; history_wf; iindex-proofs).
Tie (this check): harness/iindex_hist.py `run_check(ctx, "C07")` - the C06 histories, and on the REAL result of every step
  * inside Coq (IIndex/Check.v `chk07`): `wf_b (abs after) = true` (also for every slice yielded by slices1d, and for the
    model's result);
  * Python: `validate(True)` does not raise, plus what it does not check (arity, int coordinates, extents, row range,
    uint32 1-D arrays, non-empty entries) and the consequences named by the property (abscissae = values present,
    sparsity = share of common cells); the receiver of a call that raised is checked as well;
  * two more streams: every step result goes through a real INDX file (IndxIO.save -> load -> iindex(...), `chk07load`),
    and from_array is run on every dense array a history reaches (`chk07from`), also WITH a mapping (injective /
    many-to-one onto a non-common value with interleaving rows / onto the common; with and without counts), also on
    fresh small arrays.
  * the in-Coq tie is small-scope (N <= 8 initial rows); a SCALE stream (histories from sparse indexes of 130-400 rows with
    50-200-row appends and out-of-order multi-value updates; a few one-step cases on arrays of more than 65 536 cells) is
    always judged by the model-free oracles and compared inside Coq only while the literals stay small.
Notes: notes/iindex-harness.md."""
from .. import iindex_hist


def run(ctx):
    iindex_hist.run_check(ctx, "C07")


def replay(ctx, path):
    iindex_hist.replay_check(ctx, "C07", path)
