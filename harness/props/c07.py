"""C07 - see harness/iindex_hist.py (shared generator, abstraction and NumPy oracle of C06/C07/C15) and
coq/theories/Properties/C07.v.  This check judges the C07 part of every step: IIndex/Check.v chk07."""
from .. import iindex_hist


def run(ctx):
    iindex_hist.run_check(ctx, "C07")


def replay(ctx, path):
    iindex_hist.replay_check(ctx, "C07", path)
