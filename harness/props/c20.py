"""C20 - an interrupt raised at any cancellation point stops the cube cleanly.

Proof: Properties/C20.v - calculate as a state machine over the sub-cubes with the callback as an oracle
(serial_outcome, pooled_outcome for every chunking / schedule / arrival order, reuse for every leftover
diagnostic state; refuted variants; the known gap pooled_non_exception_hangs).

Tie W2, exhaustive fault enumeration on the working-tree snapshot, both cube types, k = 1..8 sub-cubes:
  serial   no raise, and a raise at every single invocation index i < k (given as invocation number and as
           sub-cube number), plus non-Exception interrupts (must propagate too); the CLASS of the exception is varied at
           every index, serial and pooled: custom Exception subclass, StopIteration, a StopIteration subclass,
           StopAsyncIteration, KeyError, RuntimeError, ValueError("Pool not running");
  pooled   pool forced on (cube.parallel = True; pool_class / ThreadPool patched in the snapshot's namespace)
           with harness/sched.py's DetPool: EVERY subset of invocation numbers and EVERY subset of sub-cubes
           for k <= 6 (random subsets for k = 7, 8), each under several seeded schedules (bytecode and task
           granularity) and pool sizes; the real ThreadPool as well (in a thread with a time limit).
Observed per call: the consultations in order (invocation number, sub-cube - read from the calling frame), the
identity of the exception object that calculate raised, the diagnostic fields before / after, whether a returned
result is bit-identical to a fresh serial evaluation, and whether a following uninterrupted calculate on the
SAME cube and aggregate objects is.  All of it is compared with the model inside Coq (Conc/Check.v c20_check).
Oracle (model-free): the property text - raised => one of the raised objects comes out; nothing raised =>
returns the fresh result after consulting every sub-cube exactly once; serial raise at i => i+1 consultations;
follow-up call = fresh evaluation.

Known finding K2 (pooled:StopIteration-swallowed): pool.py's worker runs `list(map(func, chunk))`, so a StopIteration (or a
subclass) raised by the callback inside a pool task ends that chunk silently and calculate RETURNS a partial result; verified on the
real ThreadPool, reproduced by DetPool; reported as known in pooled mode only - a StopIteration swallowed in SERIAL mode, or any other
class swallowed anywhere, is a violation.
Known finding K1 (pooled:non-Exception-interrupt-hangs) is exercised with DetPool only (it raises PoolWouldHang
where the real pool would block for ever); the thorough tier demonstrates the real hang in a subprocess
under a hard timeout.
"""
import itertools
import json
import os
import subprocess
import sys
import threading
import time

from .. import conc_lib as cl
from .. import core
from .. import sched

SIG_K1 = "pooled:non-Exception-interrupt-hangs"


class Interrupt(Exception):
    def __init__(self, n, j):
        Exception.__init__(self, "interrupt at invocation %s (sub-cube %s)" % (n, j))
        self.n, self.j = n, j


class HardInterrupt(BaseException):
    """an interrupt that is not an Exception (like KeyboardInterrupt)"""

    def __init__(self, n, j):
        BaseException.__init__(self, "hard interrupt at invocation %s (sub-cube %s)" % (n, j))
        self.n, self.j = n, j


class StopSub(StopIteration):
    """a subclass of StopIteration (what `next(it)` raises is swallowed by every map / list / for that drives the caller)"""

    def __init__(self, n, j):
        StopIteration.__init__(self, "interrupt at invocation %s (sub-cube %s)" % (n, j))
        self.n, self.j = n, j


# the CLASS of the exception the callback raises (the property does not restrict it): name -> factory(n, j)
EXC = {
    "Interrupt": Interrupt,                                  # custom Exception subclass
    "StopIteration": lambda n, j: StopIteration("interrupt", n, j),   # e.g. cube.check_interrupt = iter(range(n)).__next__
    "StopSub": StopSub,
    "StopAsyncIteration": lambda n, j: StopAsyncIteration("interrupt", n, j),
    "KeyError": lambda n, j: KeyError((n, j)),
    "RuntimeError": lambda n, j: RuntimeError("interrupt", n, j),
    "ValueError": lambda n, j: ValueError("Pool not running"),     # an ordinary exception that looks like one of the pool's own
    "HardInterrupt": HardInterrupt,                          # BaseException that is not an Exception (K1 in pooled mode)
}
ORDINARY = ("Interrupt", "StopIteration", "StopSub", "StopAsyncIteration", "KeyError", "RuntimeError", "ValueError")
STOP_CLASSES = ("StopIteration", "StopSub")
SIG_K2 = "pooled:StopIteration-swallowed"


# ------------------------------------------------------------------------------------------ observing one call
def read_diag(kind, cube, funcs):
    if kind == "ccube":
        fills = sum(f.tracing["count"] for f in funcs if getattr(f, "tracing", None))
        return [int(cube.intersection_data_points), int(fills), int(fills)]
    tr = getattr(cube, "_tracing", None) or {}
    x = sum(tr[f]["count"] for f in funcs if f in tr)
    return [0, 0, int(x)]


class Call:
    """one calculate call on given cube / aggregate objects with an interrupt oracle installed"""

    def __init__(self, rig, cfg, cube, funcs, coords, T=(), N=(), exc="Interrupt"):
        self.rig, self.cfg, self.cube, self.funcs = rig, cfg, cube, funcs
        self.index = {tuple(c): i for i, c in enumerate(coords)}
        self.T, self.N, self.exc = set(T), set(N), EXC[exc]
        self.log, self.diag_at, self.raised = [], [], {}
        self.lock = threading.Lock()
        self.kind = cfg["kind"]

    def subcube_of_caller(self):
        fr = sys._getframe(2)
        while fr is not None and fr.f_code.co_name != "fill_one_cube":
            fr = fr.f_back
        if fr is None:
            return -1
        arg = fr.f_locals.get(fr.f_code.co_varnames[0])
        try:
            if self.kind == "ccube":
                key = tuple(int(e) for dm in arg for e in dm["coords"])
            else:
                key = tuple(int(e) for co in arg if co is not None for e in co)
        except Exception:
            return -1
        return self.index.get(key, -1)

    def callback(self):
        j = self.subcube_of_caller()
        with self.lock:
            n = len(self.log)
            self.log.append((n, j))
            self.diag_at.append(read_diag(self.kind, self.cube, self.funcs))
            hit = j in self.T or n in self.N
            if hit:
                e = self.exc(n, j)
                self.raised[(n, j)] = e
        if hit:
            raise e

    def run(self, mode, **kw):
        """-> dict(obs, out_sig, d0, d1, foreign, hang)"""
        self.d0 = read_diag(self.kind, self.cube, self.funcs)
        self.cube.check_interrupt = self.callback
        res = {"obs": None, "sig": None, "foreign": None, "hang": False}
        old_interval = sys.getswitchinterval()
        if mode == "real":
            sys.setswitchinterval(1e-6)
        try:
            out = self.rig.calculate(self.cube, self.funcs, mode, **kw)
            res["sig"] = cl.out_sig(out)
        except sched.PoolWouldHang as e:
            res["hang"] = True
            res["obs"] = next((key for key, ex in self.raised.items() if ex is e.args[0]), None)
        except BaseException as e:
            key = next((key for key, ex in self.raised.items() if ex is e), None)
            if key is None:
                res["foreign"] = repr(e)[:300]
            res["obs"] = key
        finally:
            sys.setswitchinterval(old_interval)
            self.cube.check_interrupt = None
        res["maps"] = self.rig.ctl.maps
        res["d1"] = read_diag(self.kind, self.cube, self.funcs)
        return res


def with_timeout(fn, seconds):
    box = {}

    def target():
        try:
            box["res"] = fn()
        except BaseException as e:  # pragma: no cover
            box["err"] = e
    t = threading.Thread(target=target, daemon=True)
    t.start()
    t.join(seconds)
    if t.is_alive():
        return None, True
    if "err" in box:
        raise box["err"]
    return box["res"], False


# ------------------------------------------------------------------------------------------ the check
def zz(p):
    return "(%s, %s)" % (core.zlit(p[0]), core.zlit(p[1]))


def zzz(t):
    return "(%s, %s, %s)" % tuple(core.zlit(x) for x in t)


def case_lit(p, k, T, N, log, obs, costs, nfills, resets, d0, d1, flags):
    return "(%d, %d, (%s, %s), [%s], %s, (%s, %s, %s), (%s, %s), %s)" % (
        p, k, core.zlist(sorted(T)), core.zlist(sorted(N)), "; ".join(zz(e) for e in log), core.optlit(obs, zz),
        core.zlist(costs), core.zlist(nfills), core.boollit(resets), zzz(d0), core.optlit(d1, zzz), core.boollit(flags))


def subsets(k):
    for r in range(k + 1):
        for s in itertools.combinations(range(k), r):
            yield list(s)


def run(ctx):
    thorough = ctx.tier == "thorough"
    rig = cl.Rig(ctx)
    rng = ctx.rng
    KMAX, KSUB = 8, 6
    n_cfg = 3 if thorough else 1              # configurations per (cube type, k)
    seeds_op = 3 if thorough else 1           # bytecode-granularity schedules per pooled fault set
    seeds_task = 4 if thorough else 2         # task-granularity schedules per pooled fault set
    ctx.rule = ("'scale' cubes (30..40 rows x 9..16 sub-cubes, both types; every call is the first evaluation of a fresh cube object) and, "
                "for both cube types and k = 1..8 sub-cubes (random cubes with extra axes, random aggregates singly or 2-4 together): "
                "serial mode - no raise and a raise at EVERY single invocation index (as invocation number and as sub-cube number), "
                "exception class varied at every index in serial and pooled mode (custom Exception, StopIteration, StopIteration subclass, "
                "StopAsyncIteration, KeyError, RuntimeError, ValueError), "
                "Exception and non-Exception interrupts; pooled mode under the deterministic scheduler - EVERY subset of invocation "
                "numbers and EVERY subset of sub-cubes for k <= 6 (random subsets for k = 7, 8) x seeded schedules (bytecode and task "
                "granularity) x pool sizes {1,2,3,4,8,16}, plus the real ThreadPool (switch interval 1e-6); each call followed by an uninterrupted calculate on the same "
                "objects.  A case is distinct by (cube type, k, mode, fault set, schedule) and non-trivial when a consultation raised")
    ctx.trusted = list(core.STD_TRUSTED) + [
        "modelled, not verified: multiprocessing.pool.ThreadPool.map (batches of ceil(n/4p); a raising item aborts the rest of its batch; all "
        "batches run; first failure to arrive is re-raised) - harness/sched.py DetPool reproduces it, the real pool is compared with the same model",
        "what a sub-cube computes is abstracted (C13/C16): result equality is observed bit-for-bit by the harness and enters the Coq case as a flag",
        "harness/sched.py, harness/conc_lib.py; the sub-cube a consultation belongs to is read from the calling frame (fill_one_cube's argument)"]
    pr = ctx.prove("C20.v")
    ctx.assumptions = ["Print Assumptions: " + a for a in pr["assumptions"]] + [
        "pooled theorems are stated for interrupts the pool relays (instances of Exception); for any other BaseException pooled calculate "
        "hangs - known finding K1 " + SIG_K1,
        "the pool does not relay StopIteration either (its worker's list(map(...)) swallows it): known finding K2 " + SIG_K2 +
        "; such calls are judged by the oracle only and are not compared with the model"]
    ctx.coverage["print_assumptions"] = pr["assumptions"]

    lits, meta, hits = [], [], []
    stats = {"k2_calls": 0, "by_exception_class": {}, "scale_configurations": 0, "serial_calls": 0, "pooled_det_calls": 0, "pooled_real_calls": 0, "k1_det_calls": 0, "reuse_calls": 0,
             "pooled_skipped_subcubes_seen": 0, "pooled_multiple_raised_seen": 0}
    dist = {"k": {}, "kind": {}, "pool_sizes": {}, "granularity": {}}
    points = [0]

    def oracle_and_case(cfgi, cfg, k, fresh, coords, costs, nfills, mode, T, N, exc, poolsize=0, seed=0, gran="task", p_switch=1.0):
        """one first call + follow-up on the same objects; property oracle; Coq literal"""
        cube, funcs = rig.cube(cfg), rig.funcs(cfg)
        call = Call(rig, cfg, cube, funcs, coords, T, N, exc)
        if T or N:
            key = "%s/%s" % (exc, "serial" if mode == "serial" else "pooled")
            stats["by_exception_class"][key] = stats["by_exception_class"].get(key, 0) + 1
        kw = {} if mode == "serial" else {"poolsize": poolsize, "seed": seed, "granularity": gran, "p_switch": p_switch}
        seen = {"log": [], "obs": None, "foreign": None}

        def desc():
            return {"cfg": cfg, "mode": mode, "poolsize": poolsize, "sched_seed": seed, "granularity": gran, "p_switch": p_switch,
                    "raise_for_subcubes": sorted(T), "raise_at_invocations": sorted(N), "exception_class": exc,
                    "observed_log": seen["log"], "observed_outcome": seen["obs"], "foreign": seen["foreign"]}
        if mode == "real":
            r, timed_out = with_timeout(lambda: call.run("real", **kw), 20)
            if timed_out:
                seen["log"] = list(call.log)
                hits.append(("pooled:hang", "real ThreadPool: calculate did not return within 20 s", desc(), True))
                return
        else:
            r = call.run(mode, **kw)
        points[0] += rig.ctl.points
        log = list(call.log)
        raising = [e for e in log if e in call.raised]
        seen.update(log=log, obs=r["obs"], foreign=r["foreign"])
        bad = []
        k2 = False
        if mode != "serial" and r["maps"] != 1:
            bad.append(("c20:pool-not-engaged", "pool.map was called %d times in pooled mode" % r["maps"], False))
        if r["hang"]:
            stats["k1_det_calls"] += 1
            if exc == "HardInterrupt" and mode == "det":
                hits.append((SIG_K1, "pooled mode: a non-Exception interrupt kills the pool worker; the real pool.map never returns", desc(), True))
            else:
                bad.append(("pooled:hang", "the pool would hang although only Exceptions were raised", True))
        elif r["foreign"] is not None:
            bad.append(("interrupt:foreign-exception", "calculate raised %s instead of (one of) the interrupt(s)" % r["foreign"], True))
        elif raising and r["obs"] is None and mode != "serial" and exc in STOP_CLASSES:
            # known finding K2: pool.py's worker runs list(map(func, chunk)); a StopIteration out of func ends the chunk silently
            k2 = True
            stats["k2_calls"] += 1
            hits.append((SIG_K2, "pooled mode: a callback raising StopIteration is swallowed by the pool worker's list(map(...)); calculate returns a partial result",
                         desc(), True))
        elif raising and r["obs"] is None:
            bad.append(("interrupt:not-propagated", "a consultation raised %s but calculate returned" % exc, True))
        elif not raising and r["obs"] is not None:
            bad.append(("interrupt:foreign-exception", "calculate raised an interrupt nobody raised", True))
        js = [j for _, j in log]
        if any(j < 0 or j >= k for j in js) or len(set(js)) != len(js):
            bad.append(("interrupt:consulted-not-once-per-subcube", "consultations %s: not at most once per sub-cube, at the start of its task" % (js,), True))
        elif not raising and sorted(js) != list(range(k)):
            bad.append(("interrupt:consulted-not-once-per-subcube", "nothing raised but the consulted sub-cubes are %s (k = %d)" % (js, k), True))
        elif mode == "serial" and raising and log != [(i, i) for i in range(raising[0][0] + 1)]:
            bad.append(("interrupt:serial-consultations", "serial raise at %d but consultations %s" % (raising[0][0], log), True))
        ok_result = True
        if r["obs"] is None and not raising and not r["hang"] and r["foreign"] is None and r["sig"] != fresh:
            ok_result = False
            bad.append(("interrupt:result-differs", "the uninterrupted call's result differs from a fresh serial evaluation", True))
        # follow-up on the SAME objects, same mode, nothing raises
        stats["reuse_calls"] += 1
        again = Call(rig, cfg, cube, funcs, coords)
        if mode == "real":
            r2, timed_out = with_timeout(lambda: again.run("real", **kw), 20)
            if timed_out:
                hits.append(("reuse:hang", "the follow-up call on the same objects did not return within 20 s", desc(), True))
                return
        else:
            r2 = again.run(mode, **dict(kw, seed=seed + 1) if kw else {})
        ok_reuse = r2["sig"] == fresh and r2["obs"] is None and not r2["hang"] and r2["foreign"] is None
        js2 = sorted(j for _, j in again.log)
        if ok_reuse and js2 != list(range(k)):
            ok_reuse = False
            bad.append(("interrupt:consulted-not-once-per-subcube", "the follow-up call on the same objects consulted sub-cubes %s (k = %d)" % (js2, k), True))
        elif not ok_reuse:
            bad.append(("interrupt:reuse-differs", "after the call (outcome %s) an uninterrupted calculate on the same cube and aggregate "
                        "objects %s" % (r["obs"], "raised " + str(r2["foreign"] or r2["obs"]) if r2["sig"] is None else "differs from a fresh evaluation"), True))
        for sig, what, found in bad:
            hits.append((sig, what, desc(), found))
        if r["hang"] or k2:
            return
        if raising:
            ctx.nontrivial.add((cfgi, mode, tuple(sorted(T)), tuple(sorted(N)), poolsize, seed, gran))
        if mode != "serial":
            consulted = set(js)
            if raising and len(consulted) < k:
                stats["pooled_skipped_subcubes_seen"] += 1
            if len(raising) > 1:
                stats["pooled_multiple_raised_seen"] += 1
        d0, d1 = list(call.d0), list(r["d1"])
        if cfg["kind"] == "xcube":
            d1[1] = d0[1] + d1[2]          # the array cube has no accumulating per-aggregate counter: synthesised
        lits.append(case_lit(0 if mode == "serial" else poolsize, k, T, N, log, r["obs"], costs, nfills, cfg["kind"] == "xcube",
                             d0, d1 if mode == "serial" else None, ok_result and ok_reuse))
        meta.append({"cfg_index": cfgi, "kind": cfg["kind"], "k": k, "mode": mode, "poolsize": poolsize, "seed": seed, "granularity": gran,
                     "T": sorted(T), "N": sorted(N), "log": log, "obs": r["obs"]})
        ctx.evaluations += 1

    cfgs = []
    rejected = 0
    t0 = time.time()
    cfgi = 0
    # the plan: n_cfg small configurations per (k = 1..8, cube type), then the 'scale' configurations: 30..40 rows x
    # 9..16 sub-cubes (rows x sub-cubes >= 256, i.e. beyond any small-size threshold the code may switch behaviour at)
    todo = [(k, kind, None) for k in range(1, KMAX + 1) for kind in ("ccube", "xcube") for _ in range(n_cfg)]
    scale_layouts = [[(3,), (3,)], [(4,), (4,)], [(12,)], [(2,), (2, 3)], [(16,)], [(2, 5), ()], [(3, 3)]]
    for kind in ("ccube", "xcube"):
        if thorough:
            chosen = scale_layouts
        elif kind == "ccube":
            chosen = [scale_layouts[0], scale_layouts[1], rng.choice(scale_layouts[2:])]
        else:
            chosen = [scale_layouts[0], rng.choice(scale_layouts[1:])]
        todo += [(cl.nsub_of({"shapes": lay}), kind, lay) for lay in chosen]
    first_of = set()
    ti = 0
    tries = 0
    while ti < len(todo) and tries < len(todo) * 5:
        tries += 1
        k, kind, scale = todo[ti]
        if True:
            if True:
                if scale is None:
                    cfg = cl.gen_cfg(rng, kind, k, aggs=rng.choice(["one", "one", "some"]), max_cells=400)
                else:
                    cfg = cl.gen_cfg(rng, kind, k, aggs=rng.choice(["one", "some"]), max_cells=1000, shapes=scale, rows=(30, 40))
                cube, funcs = rig.cube(cfg), rig.funcs(cfg)
                coords = rig.product_coords(cube, cfg)
                try:
                    clean = Call(rig, cfg, cube, funcs, coords)
                    r = clean.run("serial")
                    if r["obs"] is not None or r["foreign"] is not None:
                        raise RuntimeError(r["foreign"])
                except Exception:
                    rejected += 1
                    continue
                ti += 1
                made = 1 if (k, kind) not in first_of else 2
                first_of.add((k, kind))
                fresh = r["sig"]
                # per sub-cube contributions to the diagnostic fields, from the clean serial run
                snaps = clean.diag_at + [r["d1"]]
                if len(snaps) != k + 1:
                    hits.append(("interrupt:consulted-not-once-per-subcube", "a clean serial run consulted the callback %d times for %d sub-cubes"
                                 % (len(clean.log), k), {"cfg": cfg, "mode": "serial", "observed_log": clean.log}, True))
                    continue
                costs = [snaps[j + 1][0] - snaps[j][0] for j in range(k)]
                nf = [(snaps[j + 1][2] - snaps[j][2]) for j in range(k)]
                cfgs.append(cfg)
                if scale is not None:
                    stats["scale_configurations"] += 1
                    if stats["scale_configurations"] == 1:
                        ctx.samples.append({"scale_cfg": {k_: cfg[k_] for k_ in ("kind", "N", "shapes", "ishape", "aggs")}, "subcubes": k})
                dist["k"][k] = dist["k"].get(k, 0) + 1
                dist["kind"][kind] = dist["kind"].get(kind, 0) + 1
                if len(ctx.samples) < 3 and k >= 3:
                    ctx.samples.append({"cfg": cfg, "subcube_coords": coords, "costs": costs, "fill_calls": nf})
                args = (cfgi, cfg, k, fresh, coords, costs, nf)
                # ---- serial: nothing, every single index (as invocation number / as sub-cube), hard interrupts
                oracle_and_case(*args, "serial", [], [], "Interrupt")
                for i in range(k):
                    oracle_and_case(*args, "serial", [], [i], "Interrupt")
                    oracle_and_case(*args, "serial", [i], [], "Interrupt")
                    stats["serial_calls"] += 2
                    # the CLASS of the exception, at every index: serial, and pooled (scheduler, task granularity; pool size 1
                    # gives batches of 2 for k >= 5)
                    for cname in ORDINARY[1:]:
                        oracle_and_case(*args, "serial", [], [i], cname)
                        stats["serial_calls"] += 1
                        if scale is None or i % 3 == 0:
                            oracle_and_case(*args, "det", [], [i], cname, poolsize=[1, 2, 3][(i + cfgi) % 3], seed=rng.randrange(1 << 30), gran="task")
                            stats["pooled_det_calls"] += 1
                oracle_and_case(*args, "serial", [], [rng.randrange(k)], "HardInterrupt")
                stats["serial_calls"] += 2
                # ---- pooled, deterministic scheduler
                if k <= KSUB:
                    fault_sets = [("N", s) for s in subsets(k)] + [("T", s) for s in subsets(k) if s]
                else:
                    fault_sets = [("N", []), ("N", list(range(k))), ("T", list(range(k)))]
                    for _ in range((24 if thorough else 10) if scale is None else 4):
                        fault_sets.append((rng.choice("NT"), sorted(rng.sample(range(k), rng.randint(1, k - 1)))))
                for which, s in fault_sets:
                    T, N = (s, []) if which == "T" else ([], s)
                    for si in range(seeds_op + seeds_task):
                        gran = "opcode" if (si < seeds_op and scale is None) else "task"
                        ps = [1, 2, 3, 1, 4, 2, 1, 8, 1, 16, 2][(si + len(s) + cfgi) % 11]
                        dist["pool_sizes"][ps] = dist["pool_sizes"].get(ps, 0) + 1
                        dist["granularity"][gran] = dist["granularity"].get(gran, 0) + 1
                        oracle_and_case(*args, "det", T, N, "Interrupt", poolsize=ps, seed=rng.randrange(1 << 30), gran=gran,
                                        p_switch=rng.choice([1.0, 0.2]))
                        stats["pooled_det_calls"] += 1
                # ---- pooled, real ThreadPool (Exceptions only: a non-Exception would hang it - K1)
                reals = fault_sets if thorough else rng.sample(fault_sets, min(len(fault_sets), 6))
                for which, s in reals:
                    T, N = (s, []) if which == "T" else ([], s)
                    ps = rng.choice([1, 1, 2, 3, 4, 8])
                    oracle_and_case(*args, "real", T, N, "Interrupt", poolsize=ps)
                    stats["pooled_real_calls"] += 1
                # the real pool with every exception class (one random index each; sub-cube subsets for a second one)
                for cname in ORDINARY[1:]:
                    oracle_and_case(*args, "real", [], [rng.randrange(k)], cname, poolsize=rng.choice([1, 1, 2, 4]))
                    stats["pooled_real_calls"] += 1
                # ---- K1: non-Exception interrupt in pooled mode (deterministic pool only)
                if k >= 3 and made == 1:
                    oracle_and_case(*args, "det", [rng.randrange(k)], [], "HardInterrupt", poolsize=2, seed=rng.randrange(1 << 30), gran="task")
                cfgi += 1
    t_impl = time.time() - t0

    if thorough:
        ctx.coverage["real_pool_hang_demonstrated"] = demonstrate_real_hang(ctx)

    ctype = ("Z * Z * (list Z * list Z) * list (Z * Z) * option (Z * Z) * (list Z * list Z * bool) * "
             "((Z * Z * Z) * option (Z * Z * Z)) * bool")
    res = core.run_cases("c20", "From Catii Require Import Conc.Interrupt Conc.Check.", lits, ctype, "c20_check", "c20_explain",
                         shard_size=max(50, (len(lits) + 15) // 16), timeout=900)
    ctx.coverage.update({
        "distribution": {k_: {str(a): b for a, b in sorted(v.items())} for k_, v in dist.items()},
        "configurations": len(cfgs), "rejected_inputs": rejected, "calls": stats,
        "scale": "cubes with 30..40 rows x 9..16 sub-cubes (rows x sub-cubes >= 256), both cube types: the interrupted call is the FIRST evaluation of a "
                 "fresh cube object, every single index, then the follow-up on the same objects (result + consultations once per sub-cube)",
        "fault_enumeration": {"serial": "no raise + every single invocation index i < k (by invocation number and by sub-cube), k = 1..8 and the scale cubes (k = 9..16)",
                              "pooled": "every subset of invocation numbers and every non-empty subset of sub-cubes for k = 1..6 "
                                        "(2^k + 2^k - 1 fault sets each); none/all + random subsets for k = 7, 8",
                              "schedules_per_fault_set": {"opcode": seeds_op, "task": seeds_task}},
        "exhaustive": True,
        "exhaustive_scope": "fault sets (serial: all single indices, k <= 8; pooled: all subsets, k <= 6); schedules are sampled, not exhaustive",
        "pool_sizes": sorted(dist["pool_sizes"]), "granularity": sorted(dist["granularity"]),
        "scheduling_points": points[0],
        "coq_cases": res.total, "traces_validated_against_impl": res.total,
        "timing_s": {"implementation": round(t_impl, 1)},
        "tie": "W2 small-scope: observed consultation logs / outcomes / diagnostic fields vs Conc/Interrupt.v inside Coq; oracle = property text",
    })

    # ---- verdicts
    by_sig = {}
    for sig, what, d, found in hits:
        by_sig.setdefault(sig, []).append((what, d, found))
    for sig, hs in by_sig.items():
        what, d, found = min(hs, key=lambda h: (len(h[1].get("observed_log", [])), len(json.dumps(h[1].get("cfg", {})))))
        ctx.report(sig, what, dict(d, occurrences=len(hs)), found_input=found)
    if [s for s in by_sig if s not in (SIG_K1, SIG_K2)]:
        return
    if pr["ok"] and not res.failing and not res.errors:
        return
    what = []
    if not pr["ok"]:
        what.append("Properties/C20.v no longer compiles: " + pr["log"][-600:])
    if res.errors:
        what.append("correspondence shards failed to evaluate: " + str(res.errors[0][1])[-500:])
    if res.failing:
        what.append("%d observed calls disagree with the model (first: %s); c20_explain = (model outcome, model log, model raised, model diag): %s"
                    % (len(res.failing), meta[res.failing[0]], res.explain[-800:]))
    ctx.report("c20:model-disagrees", "; ".join(what),
               {"disagreeing": [meta[i] for i in res.failing[:10]], "cfg": cfgs[meta[res.failing[0]]["cfg_index"]] if res.failing else None,
                "search": "the property oracle (exception identity, consultations once per sub-cube, result and follow-up call equal to a fresh "
                          "evaluation) held on all %d observed calls" % len(lits)}, found_input=False)


HANG_SCRIPT = r"""
import sys, json, numpy
inp, outp = sys.argv[1], sys.argv[2]
from catii import xcube
class Hard(BaseException):
    pass
def cb():
    raise Hard()
x = xcube([numpy.array([[0, 1, 0], [1, 1, 0], [0, 0, 1]])])
x.parallel = True
x.poolsize = 2
x.check_interrupt = cb
try:
    x.count()
    json.dump({"returned": True}, open(outp, "w"))
except BaseException as e:
    json.dump({"raised": repr(e)}, open(outp, "w"))
"""


def demonstrate_real_hang(ctx):
    """K1 on the real ThreadPool, in a subprocess under a hard timeout: True if it hung"""
    snap = ctx.snapshot("plain")
    script = os.path.join(ctx.scratch, "k1_hang.py")
    with open(script, "w") as f:
        f.write(HANG_SCRIPT)
    outp = os.path.join(ctx.scratch, "k1_out.json")
    env = dict(os.environ, PYTHONPATH=snap, PYTHONHASHSEED="0")
    try:
        subprocess.run([core.PY, script, "-", outp], env=env, cwd=ctx.scratch, timeout=15, stdout=subprocess.DEVNULL, stderr=subprocess.DEVNULL)
    except subprocess.TimeoutExpired:
        return True
    return False


def replay(ctx, path):
    r = json.load(open(path))
    rig = cl.Rig(ctx)
    ctx.level = "exploration"
    ctx.rule = "replay of a recorded cube, fault set and schedule with the property oracle"
    cfg = r["cfg"]
    k = cl.nsub_of(cfg)
    cube, funcs = rig.cube(cfg), rig.funcs(cfg)
    coords = rig.product_coords(cube, cfg)
    fresh = cl.out_sig(rig.calculate(rig.cube(cfg), rig.funcs(cfg), "serial"))
    exc = r.get("exception_class") if r.get("exception_class") in EXC else "Interrupt"
    mode = r.get("mode", "serial")
    kw = {} if mode == "serial" else {"poolsize": r.get("poolsize", 2), "seed": r.get("sched_seed", 0), "granularity": r.get("granularity", "task"),
                                      "p_switch": r.get("p_switch", 1.0)}
    bad = None
    for attempt in range(100 if mode == "real" else 1):
        cube, funcs = rig.cube(cfg), rig.funcs(cfg)
        call = Call(rig, cfg, cube, funcs, coords, r.get("raise_for_subcubes", []), r.get("raise_at_invocations", []), exc)
        res, timed_out = with_timeout(lambda: call.run(mode, **kw), 20)
        ctx.evaluations += 1
        if timed_out:
            bad = "calculate did not return"
            break
        raising = [e for e in call.log if e in call.raised]
        js = [j for _, j in call.log]
        if res["hang"]:
            bad = "the pool would hang"
        elif res["foreign"]:
            bad = "foreign exception " + res["foreign"]
        elif raising and res["obs"] is None and mode != "serial" and exc in STOP_CLASSES:
            bad = "pooled mode swallows StopIteration (K2)"
        elif raising and res["obs"] is None:
            bad = "a consultation raised %s but calculate returned" % exc
        elif len(set(js)) != len(js) or any(j < 0 or j >= k for j in js) or (not raising and sorted(js) != list(range(k))):
            bad = "consultations %s" % js
        elif res["obs"] is None and res["sig"] != fresh:
            bad = "result differs from a fresh evaluation"
        else:
            again = Call(rig, cfg, cube, funcs, coords)
            r2, timed_out = with_timeout(lambda: again.run(mode, **kw), 20)
            if timed_out or r2["sig"] != fresh:
                bad = "the follow-up call on the same objects does not give the fresh result"
        print("replay attempt", attempt, "log", call.log, "outcome", res["obs"], "->", bad or "ok")
        if bad:
            break
    ctx.nontrivial.add(1)
    ctx.samples.append({"cfg": cfg, "mode": mode})
    if bad:
        ctx.report(SIG_K2 if bad.endswith("(K2)") else r.get("signature", "c20:replay"), bad, {k_: r[k_] for k_ in r if k_ not in ("property", "signature", "what", "seed_", "tier", "kind", "rerun")})
