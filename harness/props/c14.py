"""C14 - walk presents exactly the non-empty uncommon and marginal intersections.

Proof : Properties/C14.v  (walk_spec: the model of `_walk` equals the comprehension of the property
        as LISTS, for all well-formed dimension lists; corollaries: no duplicates, increasing row ids,
        common never presented).
Tie W2: `ccube(dims).interactions()` and the callbacks passed to `ccube.walk` on real iindex
        dimensions against the model `walk` (as multisets, row ids exactly) and the specification
        `walk_spec_list`, compared INSIDE Coq (Cube/Check.v: c14_check).
Oracle: the set comprehension of the property evaluated in Python on the dense arrays (no model).
"""
import collections
import itertools
import json

import numpy

from .. import core
from . import cubelib

VALUE_POOLS = [(0, 1, 2), (0, 1, 2, 3), (0, 1), (0, 2, 5, 9), (1, 3, 4), (0, 7, 255, 256), (0, 1, 65535, 65536)]


def gen_random(rng):
    nd = rng.choice([1, 2, 2, 3, 3, 4])
    N = rng.choice([0, 1, 2, 3, 4, 5, 6, 7, 8, 8])
    specs = []
    for _ in range(nd):
        pool = rng.choice(VALUE_POOLS)
        k = rng.randint(1, len(pool))
        vals = rng.sample(pool, k)
        skew = rng.random()
        arr = [vals[0] if rng.random() < skew * 0.7 else rng.choice(vals) for _ in range(N)]
        mode = rng.choice(["frequent", "rare", "absent"])
        common = cubelib.pick_common(rng, arr, list(pool) + [11], mode)
        specs.append(cubelib.make_spec(rng, arr, common))
    return specs


def gen_lopsided(rng):
    """cubelib.gen_lopsided as dimension specs (N 30..120: operands of very different lengths in the intersections)"""
    N, cols = cubelib.gen_lopsided(rng)
    return [cubelib.make_spec(rng, col, common) for col, common, _ in cols]


def gen_related(rng):
    """cubelib.gen_related with one-axis dimensions: the same object at several positions, twins, zero-entry dimensions"""
    N, specs, pattern = cubelib.gen_related(rng, multi_axis=False)
    return specs, pattern


def gen_exhaustive(nd, rows=3):
    """Every entries-structure over `rows` rows and 3 uncommon categories: dense arrays over
    {0,1,2,3} with common 3 (the walk never looks at the common value, so every (array over 3
    categories, common) input presents one of these dictionaries)."""
    arrays = list(itertools.product(range(4), repeat=rows))
    for combo in itertools.product(arrays, repeat=nd):
        yield [{"arr": list(a), "common": 3, "how": "ctor", "order": None} for a in combo]


def observe(ccube, dims, mode):
    """(list of (coords, rowids) in call order, error string or None)"""
    cube = ccube(dims)
    if mode == "interactions":
        out = [(tuple(int(x) for x in c), [int(x) for x in r]) for c, r in cube.interactions()]
        again = [(tuple(int(x) for x in c), [int(x) for x in r]) for c, r in cube.interactions()]      # the same cube object asked twice
        if again != out:
            return out, "the same cube object delivers different sequences when asked twice: %r then %r" % (out[:6], again[:6])
        return out, None
    a, b = [], []
    if mode == "walk1":
        cube.walk(lambda c, r: a.append((tuple(int(x) for x in c), [int(x) for x in r])))
        return a, None
    cube.walk([lambda c, r: a.append((tuple(int(x) for x in c), [int(x) for x in r])),
               lambda c, r: b.append((tuple(int(x) for x in c), [int(x) for x in r]))])
    if a != b:
        return a, "two callbacks passed to walk() saw different sequences: %r vs %r" % (a[:6], b[:6])
    return a, None


# --------------------------------------------------------------------------- kept cubes (multi-step histories on ONE cube object)
MODES = ["interactions", "walk1", "walk2"]


def observe_cube(cube, mode):
    """observe() on an EXISTING cube object"""
    conv = lambda c, r: (tuple(int(x) for x in c), [int(x) for x in r])
    if mode == "interactions":
        return [conv(c, r) for c, r in cube.interactions()], None
    a, b = [], []
    if mode == "walk1":
        cube.walk(lambda c, r: a.append(conv(c, r)))
        return a, None
    cube.walk([lambda c, r: a.append(conv(c, r)), lambda c, r: b.append(conv(c, r))])
    if a != b:
        return a, "two callbacks passed to walk() saw different sequences: %r vs %r" % (a[:6], b[:6])
    return a, None


def gen_kept(rng):
    """A script for ONE long-lived cube: initial one-axis dims, then rounds of legitimate IN-PLACE changes of the dims
    (iindex.update moving rows between existing categories / back to the common / to a new category, idx[(k,)] = array
    swapping the row-id arrays of two categories, iindex.append of rows in existing or new categories on every dim, or no
    change), each followed by observing the SAME cube object again.  Some changes keep the number of entries of the
    dimension, some change it.  Everything is concrete (JSON-able), so a replay re-executes the same history."""
    nd = rng.choice([1, 2, 2, 3])
    N = rng.randint(3, 8)
    e = rng.randint(2, 4)
    cols = [[rng.randrange(e) for _ in range(N)] for _ in range(nd)]
    specs = []
    for col in cols:
        common = cubelib.pick_common(rng, col, range(e), rng.choice(["frequent", "frequent", "rare", "absent"]))
        specs.append(cubelib.make_spec(rng, col, common))
    dense = [list(c) for c in cols]
    commons = [sp["common"] for sp in specs]            # the commons at build time (append may shift them later: only a guide)
    rounds = []
    for _ in range(rng.randint(2, 4)):
        kind = rng.choice(["update-move", "update-move", "update-to-common", "update-new", "swap", "swap", "append-existing",
                           "append-new", "none"])
        d = rng.randrange(nd)
        col, cm = dense[d], commons[d]
        unc = sorted(set(col) - {cm})
        op = {"op": "none"}
        if kind == "update-move" and len(unc) >= 2:
            big = [v for v in unc if col.count(v) >= 2] or unc
            a = rng.choice(big)
            b = rng.choice([v for v in unc if v != a])
            rows = [r for r in range(len(col)) if col[r] == a]
            rows = sorted(rng.sample(rows, rng.randint(1, max(1, len(rows) - 1))))          # usually both categories survive
            op = {"op": "update", "dim": d, "entries": [[b, rows]], "kind": kind}
        elif kind == "update-to-common" and unc:
            a = rng.choice(unc)
            rows = [r for r in range(len(col)) if col[r] == a]
            rows = sorted(rng.sample(rows, rng.randint(1, len(rows))))
            op = {"op": "update", "dim": d, "entries": [[cm, rows]], "kind": kind}
        elif kind == "update-new":
            rows = sorted(rng.sample(range(len(col)), rng.randint(1, 2)))
            op = {"op": "update", "dim": d, "entries": [[e + rng.randint(0, 1), rows]], "kind": kind}
        elif kind == "swap" and len(unc) >= 2:
            a, b = rng.sample(unc, 2)
            op = {"op": "swap", "dim": d, "a": a, "b": b, "kind": kind}
        elif kind.startswith("append"):
            m = rng.randint(1, 2)
            others = []
            for i in range(nd):
                pool = sorted(set(dense[i])) if kind == "append-existing" else list(range(e + 1))
                others.append({"arr": [rng.choice(pool) for _ in range(m)], "common": commons[i]})
            op = {"op": "append", "others": others, "kind": kind}
        if op["op"] == "none" and kind != "none":           # the chosen kind was not applicable to this column
            rows = sorted(rng.sample(range(len(col)), rng.randint(1, 2)))
            op = {"op": "update", "dim": d, "entries": [[rng.choice(sorted(set(col)) + [e]), rows]], "kind": "update-any"}
        # keep the dense guide up to date
        if op["op"] == "update":
            for v, rows in op["entries"]:
                for r in rows:
                    col[r] = v
        elif op["op"] == "swap":
            dense[op["dim"]] = [op["b"] if v == op["a"] else (op["a"] if v == op["b"] else v) for v in col]
        elif op["op"] == "append":
            for i, o in enumerate(op["others"]):
                dense[i].extend(o["arr"])
        op["expect"] = [list(c) for c in dense]
        op["mode"] = rng.choice(MODES)
        op["between"] = rng.choice(["none", "none", "count", "second-cube-walk"])
        rounds.append(op)
    return {"dims": specs, "first_mode": rng.choice(MODES), "pre": rng.choice(["none", "none", "count", "sum"]), "rounds": rounds}


def apply_op(iindex, dims, op):
    if op["op"] == "update":
        dims[op["dim"]].update({(int(v),): numpy.asarray(rows, dtype=numpy.uint32) for v, rows in op["entries"]})
    elif op["op"] == "swap":
        d = dims[op["dim"]]
        if (op["a"],) not in d or (op["b"],) not in d:       # one of them has become the common (append shifts it): nothing to swap
            return False
        ra, rb = d[(op["a"],)].copy(), d[(op["b"],)].copy()
        d[(op["a"],)] = rb
        d[(op["b"],)] = ra
    elif op["op"] == "append":
        for d, o in zip(dims, op["others"]):
            d.append(iindex.from_array(numpy.asarray(o["arr"], dtype=numpy.int64), common=o["common"]))
    return True


def judge_state(dims, obs):
    """The comprehension of the property on the dims AS THEY ARE NOW (dense view through to_array, current common)."""
    arrs = [[int(v) for v in d.to_array(dtype=numpy.int64).tolist()] for d in dims]
    keys = [sorted(set(a) - {int(d.common)}) for a, d in zip(arrs, dims)]
    exp = cubelib.oracle_walk(arrs, keys)
    got = collections.Counter((c, tuple(r)) for c, r in obs)
    if got == exp:
        return None
    return {"missing": [list(map(list, k)) for k in list((exp - got).keys())[:5]],
            "unexpected_or_duplicated": [list(map(list, k)) for k in list((got - exp).keys())[:5]]}


def run_kept(ccube, iindex, script):
    """Execute a kept-cube script.  -> list of per-observation dicts (literal of the CURRENT dims, observed pairs, oracle verdict)."""
    dims = cubelib.build_dims(script["dims"])
    cube = ccube(dims)                 # built ONCE, kept for the whole history
    cube2 = ccube(dims)                # a second cube object sharing the same dimension objects
    if script["pre"] == "count":
        cube.count()
    elif script["pre"] == "sum":
        cube.sum(numpy.arange(dims[0].shape[0], dtype=float))
    results = []

    def look(which, mode, rnd, skip_judge=False):
        obs, err = observe_cube(cube if which == "kept" else cube2, mode)
        N = int(dims[0].shape[0])
        lit = "(%s, %s, [%s])" % (core.zlit(N), cubelib.dims_lit(dims), "; ".join(cubelib.em_lit(c, r) for c, r in obs))
        bad = None if skip_judge else judge_state(dims, obs)
        if err and not bad:
            bad = {"callbacks": err}
        results.append({"lit": lit, "obs": obs, "bad": bad, "round": rnd, "mode": mode, "cube": which, "skipped": skip_judge})
    look("kept", script["first_mode"], 0)
    for k, op in enumerate(script["rounds"], 1):
        done = apply_op(iindex, dims, op)
        # the operation itself is C06's business: if it did not produce the intended column, do not judge the walk on it
        off = done and [[int(v) for v in d.to_array(dtype=numpy.int64).tolist()] for d in dims] != op["expect"]
        if op["between"] == "count":
            try:
                cube.count()           # only there to stir the cube's state; its extents were fixed at construction, so a
            except IndexError:         # category added since then is legitimately out of range for the aggregate
                pass
        look("kept", op["mode"], k, skip_judge=off)
        if op["between"] == "second-cube-walk" or k == len(script["rounds"]):
            look("second", MODES[k % 3], k, skip_judge=off)
    return results


def judge(specs, obs):
    """Property oracle: None if the delivered multiset equals the comprehension, else a description."""
    arrs = [s["arr"] for s in specs]
    keys = [sorted(set(a) - {s["common"]}) for a, s in zip(arrs, specs)]
    exp = cubelib.oracle_walk(arrs, keys)
    got = collections.Counter((c, tuple(r)) for c, r in obs)
    if got == exp:
        # each row list strictly increasing is implied by equality with the oracle's tuples
        return None
    return {"missing": [list(map(list, k)) for k in list((exp - got).keys())[:5]],
            "unexpected_or_duplicated": [list(map(list, k)) for k in list((got - exp).keys())[:5]]}


def run_one(ctx, ccube, specs, mode):
    """Observe the real cube through `mode` (the literal compared in Coq and judged by the oracle) AND through the
    two other observation points; all three must deliver the same sequence (same order, same row ids)."""
    dims = cubelib.build_dims(specs)
    obs, err = observe(ccube, dims, mode)
    for other in ("interactions", "walk1", "walk2"):
        if other != mode and not err:
            o2, e2 = observe(ccube, dims, other)
            if e2:
                err = e2
            elif o2 != obs:
                err = "%s and %s deliver different sequences: %r vs %r" % (mode, other, obs[:6], o2[:6])
    N = len(specs[0]["arr"])
    lit = "(%s, %s, [%s])" % (core.zlit(N), cubelib.dims_lit(dims), "; ".join(cubelib.em_lit(c, r) for c, r in obs))
    bad = judge(specs, obs)
    if err and not bad:
        bad = {"callbacks": err}
    return lit, obs, bad


def run(ctx):
    thorough = ctx.tier == "thorough"
    ctx.rule = ("random: 1-4 one-axis iindex dimensions (from_array or constructor with shuffled dict order), N in 0..8, "
                "1-4 categories from pools incl. 255/256/65535/65536, common most-frequent/rare/absent, the FORM of the inputs varied "
                "with the content unchanged (from_array from every integer dtype holding the values in C / strided / negative-stride / "
                "read-only layouts or a Python list; constructor with contiguous, column-view or read-only uint32 row-id arrays; common "
                "as Python int or NumPy integer scalar of any dtype holding it, dict-key coordinates as Python ints or NumPy scalars), observed through "
                "interactions(), walk(f) and walk([f,g]) (every case through all three, which must deliver identical sequences; "
                "the literal compared in Coq rotates over them); lopsided: N in 30..120, 2-4 dims of extent 2-4 with one frequent category "
                "(60-90 % of the rows) and rare categories of 1-3 rows whose last row usually lies in the next dimension's frequent "
                "category (short running row-id sets against long index entries); relations: the very same iindex object at two or three "
                "positions of dims (A A, A B A, A A A), equal-content twins as distinct objects (other construction path / dict order), "
                "zero-entry dimensions next to ordinary ones; every cube object is asked twice (interactions() twice); kept cubes: ONE ccube "
                "object (plus a second cube sharing the dims) observed, its dims changed IN PLACE by iindex.update (rows moved between "
                "existing categories / to the common / to a new category), idx[(k,)] = array (two row-id arrays swapped), iindex.append "
                "(existing or new categories), or left alone, and the SAME cube observed again against the dims' current state, 2-4 "
                "rounds, optionally count()/sum() first or count() in between; exhaustive: every dictionary structure over 3 rows x 3 uncommon "
                "categories for 1 and 2 dimensions (quick) and 3 dimensions (thorough); a case is distinct per "
                "(dims literal, observation mode) and non-trivial when at least one pair is delivered")
    ctx.trusted = list(core.STD_TRUSTED) + [
        "SetOps: set_intersect_merge_np(base, rowids) = inter_spec base rowids on increasing inputs (property C08; "
        "here additionally observed through the real kernel on every case)",
        "the abstraction of callback arguments to (int tuple, int list) in harness/props/c14.py"]
    pr = ctx.prove("C14.v")
    ctx.assumptions = ["Print Assumptions: " + a for a in pr["assumptions"]] + [
        "dimensions are well-formed one-axis indexes (dim_wf, checked by dim_wf_b on every real dimension used) "
        "whose category values are not -1 (the margin marker)"]
    ctx.coverage["print_assumptions"] = pr["assumptions"]

    ctx.import_catii()
    from catii import ccube

    cases, metas, found = [], [], []
    form_dist = collections.Counter()
    rel_dist = collections.Counter()
    modes = ["interactions", "walk1", "walk2"]

    def add(specs, mode):
        lit, obs, bad = run_one(ctx, ccube, specs, mode)
        cases.append(lit)
        metas.append((specs, mode))
        for sp in specs:
            for t in cubelib.form_tags(sp) or ["ordinary (exhaustive stream)"]:
                form_dist[t] += 1
        if obs:
            ctx.nontrivial.add((lit, mode))
        if bad:
            found.append({"dims": specs, "mode": mode, "observed": [[list(c), r] for c, r in obs], "difference": bad})
        return obs

    n_random = 50000 if thorough else 2500
    n_lop = 1500 if thorough else 150
    every = n_random // n_lop
    for i in range(n_random):
        if i % every == 0:          # interleaved so that the (heavier, N up to 120) cases spread over the Coq shards
            add(gen_lopsided(ctx.rng), modes[(i // every) % 3])
        if i % every == 1:
            rspecs, pattern = gen_related(ctx.rng)
            add(rspecs, modes[(i // every) % 3])
            rel_dist[pattern] += 1
        specs = gen_random(ctx.rng)
        obs = add(specs, modes[i % 3])
        if i < 3:
            ctx.samples.append({"dims": [{"arr": s["arr"], "common": s["common"]} for s in specs], "mode": modes[i % 3],
                                "delivered": [[list(c), r] for c, r in obs][:8]})
    # kept cubes: one cube object walked, its dims changed in place, walked again (several rounds)
    from catii import iindex
    n_kept = 600 if thorough else 80
    kept_dist = collections.Counter()
    for k in range(n_kept):
        script = gen_kept(ctx.rng)
        for r in run_kept(ccube, iindex, script):
            cases.append(r["lit"])
            metas.append((script["dims"], "kept-cube round %d %s via %s" % (r["round"], r["cube"], r["mode"])))
            if r["obs"]:
                ctx.nontrivial.add((r["lit"], "kept", r["round"], r["cube"]))
            if r["bad"]:
                found.append({"kept": script, "dims": script["dims"], "mode": r["mode"], "round": r["round"], "cube": r["cube"],
                              "observed": [[list(c), rr] for c, rr in r["obs"]], "difference": r["bad"]})
            kept_dist["observations"] += 1
            if r["skipped"]:
                kept_dist["observations not judged (in-place operation did not give the intended column: C06's business)"] += 1
        kept_dist["objects"] += 1
        kept_dist["pre=" + script["pre"]] += 1
        for op in script["rounds"]:
            kept_dist["change=" + op.get("kind", "none")] += 1
            kept_dist["between=" + op["between"]] += 1
        if k < 1:
            ctx.samples.append({"kept_cube_script": script})
    ctx.coverage["kept_cubes"] = dict(sorted(kept_dist.items()))
    n_exh = 0
    for nd in ((1, 2, 3) if thorough else (1, 2)):
        for specs in gen_exhaustive(nd):
            add(specs, "interactions")
            n_exh += 1
    ctx.coverage["random_cases"] = n_random
    ctx.coverage["input_forms"] = dict(sorted(form_dist.items()))
    ctx.coverage["relations"] = dict(sorted(rel_dist.items()))
    ctx.coverage["lopsided_cases"] = len(range(0, n_random, every))
    ctx.coverage["exhaustive_cases"] = n_exh
    ctx.coverage["exhaustive_subspace"] = ("all 4^3 dictionaries per dimension over 3 rows x 3 uncommon categories, %s dimensions "
                                        "(a complete sub-space; the random stream is not exhaustive)" % ("1-3" if thorough else "1-2"))
    ctx.evaluations = len(cases)

    prelude = "From Catii Require Import Cube.Dim Cube.Walk Cube.WalkSpec Cube.Check."
    res = core.run_cases("c14", prelude, cases, "c14_case", "c14_check", "c14_explain", shard_size=4000 if thorough else 400)
    ctx.coverage["coq_case_shards_failed"] = len(res.errors)
    ctx.coverage["model_disagreements"] = len(res.failing)
    ctx.coverage["oracle_failures"] = len(found)

    if found:
        found.sort(key=lambda f: (len(f["dims"]), len(f["dims"][0]["arr"]), len(json.dumps(f))))
        ctx.report("walk:wrong-presentation", "ccube.walk/interactions does not deliver exactly the non-empty uncommon/marginal "
                   "intersections with their increasing row ids", {"failing_inputs": found[:10], "count": len(found),
                   "how": "build the dims (cubelib.build_dim), ccube(dims).interactions() or walk callbacks, compare with the comprehension"})
    elif res.failing or res.errors or not pr["ok"]:
        what = []
        if not pr["ok"]:
            what.append("proof obligation no longer checks: Properties/C14.v")
        if res.failing:
            what.append("correspondence suite c14: %d cases where implementation, model walk and specification differ" % len(res.failing))
        if res.errors:
            what.append("correspondence shards failed to evaluate: %s" % (res.errors[0][1][-500:],))
        ctx.report("c14:not-shown", "; ".join(what), {
            "proof_log": pr["log"][-2500:] if not pr["ok"] else "",
            "disagreeing_cases": [{"dims": metas[i][0], "mode": metas[i][1], "literal": cases[i]} for i in res.failing[:10]],
            "explain": res.explain,
            "search": "the Python comprehension oracle judged all %d cases and found no failing input" % len(cases)}, found_input=False)


def replay(ctx, path):
    r = json.load(open(path))
    ctx.import_catii()
    from catii import ccube
    bad = []
    items = r.get("failing_inputs") or r.get("disagreeing_cases") or []
    from catii import iindex
    for c in items:
        if c.get("kept"):
            rs = [x for x in run_kept(ccube, iindex, c["kept"]) if x["bad"]]
            print("kept cube over dims=%s, %d rounds -> %s" % ([(s["arr"], s["common"]) for s in c["dims"]], len(c["kept"]["rounds"]),
                                                               "VIOLATES " + json.dumps([(x["round"], x["cube"], x["bad"]) for x in rs]) if rs else "ok"))
            if rs:
                bad.append({"kept": c["kept"], "dims": c["dims"], "difference": rs[0]["bad"], "round": rs[0]["round"]})
            continue
        lit, obs, b = run_one(ctx, ccube, c["dims"], c.get("mode", "interactions"))
        print("dims=%s mode=%s delivered=%s -> %s" % ([(s["arr"], s["common"]) for s in c["dims"]], c.get("mode"), obs, "VIOLATES " + json.dumps(b) if b else "ok"))
        if b:
            bad.append({"dims": c["dims"], "mode": c.get("mode", "interactions"), "difference": b})
    ctx.evaluations = len(items)
    ctx.level = "exploration"
    ctx.nontrivial.update(range(max(2, len(items))))
    ctx.rule = "replay of recorded failing inputs"
    if bad:
        ctx.report("walk:wrong-presentation", "replayed failing input still fails", {"failing_inputs": bad})
