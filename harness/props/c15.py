"""C15 - see harness/iindex_hist.py (shared generator, abstraction and NumPy oracle of C06/C07/C15) and
coq/theories/Properties/C15.v.  This check judges the C15 part of every step: IIndex/Check.v chk15."""
from .. import iindex_hist


def run(ctx):
    iindex_hist.run_check(ctx, "C15")


def replay(ctx, path):
    iindex_hist.replay_check(ctx, "C15", path)
