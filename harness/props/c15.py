"""C15 - library-chosen common is a most frequent value; equality is canonical.

Theorems: coq/theories/Properties/C15.v (auto_common is a maximum; canonical; eq_spec / ne_spec; iindex-proofs).
Tie (this check): harness/iindex_hist.py `run_check(ctx, "C15")` - the C06 histories, and
  * after each library-chosen normalisation (from_array without a common, shift_common(), append, filtered, collapsed) the
    real common is a most frequent value of the real dense content (`chk15`, `chk07from`; ties either way);
  * every result is compared with ==/!= against its directly constructed twin from_array(dense, common=same), its copy,
    itself, perturbed twins (one cell, the common, the shape, the same rows in another order), an index reached by another
    history, and non-index operands; both directions; `!=` must be exactly `not ==` and never raise (a raising comparison is
    recorded as -1); inside Coq `chk15eq` compares the real answers with `eq_model`/`ne_model` AND with
    "same shape, common and dense content".
  * the in-Coq tie is small-scope (N <= 8 initial rows); a SCALE stream (histories from sparse indexes of 130-400 rows with
    50-200-row appends and out-of-order multi-value updates; a few one-step cases on arrays of more than 65 536 cells) is
    always judged by the model-free oracles and compared inside Coq only while the literals stay small.
  * C15 also runs a large NEAR-TIE stream (receivers of about 65 536 cells, 1-4 columns, whose common value leads the runner-up
    by a small margin; append / update / union_update / filtered batches sized so that the most frequent value flips or ties;
    oracle only) instead of the giant-sparse-shape stream of C06/C07.
Notes: notes/iindex-harness.md."""
from .. import iindex_hist


def run(ctx):
    iindex_hist.run_check(ctx, "C15")


def replay(ctx, path):
    iindex_hist.replay_check(ctx, "C15", path)
