"""C17 - the TRUSTED classification of NumPy / builtin / stdlib calls for the effect translator.

Pure data (no code): harness/translate_effects.py looks every call it cannot resolve to in-scope
catii source up in these tables; a call found nowhere is translated fail-closed as the most general
client of its arguments ("may alias and may mutate everything reachable from all its arguments").

The table is validated at run time (harness/effects_runtime.py: FreshTracer checks on the real
implementation that every value classified `fresh`/`copy` shares no memory with any argument; the
byte-for-byte argument comparison checks the `in place` column).

Kinds (what the IR statement(s) for `x = f(recv?, args...)` are):
  scalar     immutable result, no object                      -> x denotes nothing
  noop       no effect on the arguments, no result
  fresh      new object holding no references                 -> SFresh x []
  copy       new object holding the references arg0 holds     -> SLoad c arg0 ; SFresh x [c]     (ndarray.copy, dict.copy, list(x))
  freshc     new container of the ELEMENTS of all arguments   -> c = elems(args) ; SFresh x [c]
  freshr     new container referencing the arguments          -> SFresh x args
  pairs      new container of new tuples of elements          -> enumerate / zip / dict.items / itertools.product
  view       result shares arg0's buffer                      -> SAlias x [arg0]
  viewfresh  view of arg0 or a new object                     -> SAlias x [arg0; fresh]          (asarray, reshape, ravel)
  aliasany   one of the arguments or a new object             -> SAlias x [args; fresh]          (set_operations.union ...)
  elem       an object referenced by arg0, or another arg     -> SLoad x arg0 u SAlias x rest    (dict.get, getattr)
  elems      an element of arg0 (incl. row views), or rest    -> max / min / next / functools.reduce
  inplace    arg0 is modified in place                        -> SMutate arg0
  inplace_elem  same, and returns an element                  -> list.pop, dict.pop
  store      arg0 modified and now references the other args  -> SStore arg0 arg_i                (append, add, insert)
  storec     arg0 modified and now references their elements  -> SStore arg0 elems(arg_i)         (extend, update, dict.__init__)
  setdefault store + elem
  hof_map    arg0 is called on the elements of arg1           -> ThreadPool.map, map
  hof_axis   numpy.apply_along_axis(f, axis, arr)             -> f is called on views of arr
  reduce     functools.reduce(op, xs[, init]) with operator.add / operator.mul
  callback   a user callback the property does not quantify over (assumed not to touch the arguments)
"""

# attributes of cube / aggregate objects that are diagnostics (timers, counters), excluded from
# the protected state exactly like in C16 / C20: writes to them are allowed.
DIAG_FIELDS = {"tracing", "_tracing", "intersection_data_points"}

# attribute reads that return a VIEW of the receiver's buffer (in addition to a plain attribute load)
VIEW_ATTRS = {"T", "flat", "real", "imag", "base", "mT"}

# keyword arguments that redirect output into an existing array: never understood (fail closed)
OUT_KEYWORDS = {"out", "where_out"}

NUMPY = {
    # allocation / conversion
    "zeros": "fresh", "ones": "fresh", "empty": "fresh", "full": "fresh", "arange": "fresh",
    "array": "fresh",            # numpy.array copies by default (copy=False is special-cased -> viewfresh)
    "asarray": "viewfresh", "asanyarray": "viewfresh", "ascontiguousarray": "viewfresh",
    "astype": "fresh",           # numpy.astype(x, dtype) (NumPy 2 function form), copy=True default
    "dtype": "scalar", "iinfo": "scalar", "finfo": "scalar", "errstate": "fresh",
    # elementwise / reductions: always a new array or scalar
    "isnan": "fresh", "isclose": "fresh", "sqrt": "fresh", "sum": "fresh", "nansum": "fresh",
    "prod": "fresh", "cumprod": "fresh", "cumsum": "fresh", "count_nonzero": "fresh", "all": "fresh",
    "any": "fresh", "bincount": "fresh", "unique": "fresh", "where": "fresh", "nonzero": "fresh",
    "append": "fresh", "concatenate": "fresh", "setxor1d": "fresh", "array_equal": "scalar",
    "allclose": "scalar", "digitize": "fresh", "diff": "fresh", "repeat": "fresh", "corrcoef": "fresh",
    "cov": "fresh", "quantile": "fresh", "nanquantile": "fresh", "amax": "fresh", "amin": "fresh",
    "max": "fresh", "min": "fresh", "mean": "fresh", "abs": "fresh", "argsort": "fresh",
    # views
    "flip": "view", "transpose": "view", "reshape": "viewfresh", "ravel": "viewfresh", "squeeze": "view",
    "atleast_1d": "viewfresh",
    # higher order
    "apply_along_axis": "hof_axis",
}

# methods called on a receiver whose class the translator does not know (ndarray / dict / list /
# tuple / set / str).  A method name that is ALSO defined by an in-scope catii class is translated
# as the join of this entry and the inlined catii method(s).
METHODS = {
    # ndarray: new results
    "copy": "copy", "astype": "fresh", "sum": "fresh", "any": "fresh", "all": "fresh", "max": "fresh",
    "min": "fresh", "mean": "fresh", "nonzero": "fresh", "tolist": "fresh", "item": "scalar",
    "argsort": "fresh", "cumsum": "fresh", "clip": "fresh", "tobytes": "fresh", "round": "fresh",
    # ndarray: views
    "reshape": "viewfresh", "ravel": "viewfresh", "view": "view", "transpose": "view", "squeeze": "view",
    "flatten": "fresh",
    # ndarray / list: in place
    "sort": "inplace", "fill": "inplace", "resize": "inplace", "reverse": "inplace", "clear": "inplace",
    "put": "inplace", "itemset": "inplace", "setflags": "inplace", "partition": "inplace",
    "byteswap": "inplace",
    # containers
    "items": "pairs", "values": "copy", "keys": "fresh", "get": "elem", "pop": "inplace_elem",
    "popitem": "inplace_elem", "remove": "inplace", "append": "store", "add": "store", "insert": "store",
    "extend": "storec", "update": "storec", "setdefault": "setdefault",
    "index": "scalar", "count": "scalar", "issubset": "scalar", "issuperset": "scalar",
    "intersection": "freshc", "union": "freshc", "difference": "freshc",
    # str
    "join": "fresh", "format": "fresh", "startswith": "scalar", "endswith": "scalar", "split": "fresh",
    # dict base-class calls made by iindex through super()
    "__init__": "storec",
    # time / pool objects
    "perf_counter": "scalar", "time": "scalar", "close": "noop", "terminate": "noop",
    "map": "hof_map",
    "type": "scalar",            # numpy dtype.type(x) -> scalar
}

# (min, max) number of positional arguments of table methods whose name is shared with an in-scope
# catii method: a call with another argument count cannot be the table method (it would raise TypeError
# before doing anything), so only the catii candidates are considered.
METHOD_ARITY = {"fill": (1, 1)}

BUILTINS = {
    "len": "scalar", "isinstance": "scalar", "issubclass": "scalar", "type": "scalar", "hasattr": "scalar",
    "int": "scalar", "float": "scalar", "bool": "scalar", "str": "fresh", "repr": "fresh", "abs": "fresh",
    "id": "scalar", "hash": "scalar", "print": "noop", "range": "fresh", "round": "fresh",
    "max": "elems", "min": "elems", "next": "elems", "sum": "elems", "any": "scalar", "all": "scalar",
    "tuple": "freshc", "list": "freshc", "set": "freshc", "frozenset": "freshc", "dict": "freshc",
    "sorted": "freshc", "reversed": "freshc", "iter": "freshc",
    "enumerate": "pairs", "zip": "pairs", "slice": "freshr", "getattr": "elem",
    "ValueError": "fresh", "TypeError": "fresh", "AssertionError": "fresh", "NotImplementedError": "fresh",
    "KeyError": "fresh", "AttributeError": "fresh", "IndexError": "fresh", "RuntimeError": "fresh",
    "map": "hof_map",
}

QUALIFIED = {
    "time.time": "scalar", "time.perf_counter": "scalar", "sys.getsizeof": "scalar",
    "warnings.filterwarnings": "noop",       # global state of the `warnings` module, not of any argument
    "itertools.product": "pairs", "itertools.chain": "freshc", "itertools.islice": "freshc",
    "functools.reduce": "reduce", "contextlib.closing": "view",
    "collections.defaultdict": "fresh",
    "operator.mul": "fresh", "operator.add": "fresh",
    "multiprocessing.pool.ThreadPool": "fresh",
    "dict.__init__": "storec",
    "dict.fromkeys": "freshc",               # a new dict whose keys are the elements of the iterable (values None)
    # catii's own Cython kernels (C08/C09 own their semantics): results are new arrays, except that
    # the two-argument wrappers may hand back one of their arguments
    "set_operations.set_intersect_merge_np": "fresh",
    "set_operations.union": "aliasany", "set_operations.intersection": "aliasany",
    "set_operations.difference": "aliasany",
}

# attributes holding user callbacks that the property does not quantify over
CALLBACK_ATTRS = {"check_interrupt"}
# class attributes holding a class from the table
CLASS_ATTRS = {"pool_class": "multiprocessing.pool.ThreadPool"}

# ---- which parameters are NOT protected --------------------------------------------------------
# Everything passed to an in-scope function is protected (tag 0) except:
#   * the result regions (created by get_initial_regions inside calculate, owned by the call),
#   * `self` of a constructor and of constructor helpers,
#   * the array adjust_zeros is documented to adjust in place,
#   * `self` of the index methods that are mutating by design (listed so that their OTHER
#     arguments are still checked).
UNPROTECTED_PARAMS = {"regions", "region"}
UNPROTECTED_SELF = {"__init__", "_set_strides",
                    "shift_common", "set_if", "append", "update", "union_update", "intersection_update",
                    "difference_update"}
UNPROTECTED_BY_FUNCTION = {
    "adjust_zeros": {"arr"},
    # iindex.__init__ normalises the `entries` mapping it is given in place (lists -> arrays) and then
    # takes its items over; the constructor of an index is not one of the operations C17 quantifies over
    "__init__": {"entries"},
}

# functions documented to return materialised copies: the result must not reference protected memory
RET_FRESH = {
    ("iindexes", "iindex", "to_array"): {},
    ("iindexes", "iindex", "to_dict"): {},
    ("iindexes", "iindex", "common_rowids"): {},
    "get_initial_regions": {},                                  # every aggregate: new regions per call
}
# Documented to return copies as well, but the origin analysis cannot show it (it has no types: the
# int / tuple arguments `new_length`, `precedence`, `self.shape[1:]` that end up in the result's
# `shape`, and the unknown element type behind `rowids.copy()`, count as references to caller
# memory).  For these the "result shares no memory with the arguments" half is checked at run time
# only (effects_runtime: write into the result, compare the arguments byte for byte).
RET_FRESH_RUNTIME_ONLY = [
    ("iindexes", "iindex", "copy"), ("iindexes", "iindex", "filtered"), ("iindexes", "iindex", "collapsed"),
    ("iindexes", "iindex", "reindexed"), ("iindexes", None, "column_stack"),
]

# attribute reads that yield immutable values (ints, strings, dtypes, tuples of ints), not objects
SCALAR_ATTRS = {"shape", "common", "dtype", "size", "ndim", "rowid_dtype", "ROWID_DTYPE", "itemsize", "str", "kind",
                "name", "null", "N", "ignore_missing", "return_missing_as", "poolsize", "debug", "parallel",
                "scaffold_size", "mintype", "scaffold_shape", "interacting_shape", "working_shape", "max", "min"}

# programs that are in scope but NOT claimed by C17_effects: covered by the runtime comparison only.
# (decided at development time, never at run time: a program that stops being provable after a
# source change is a broken obligation, not a new entry here)
_WALK = ("calls the fill closures through a list of callables (`for func in funcs: func(coords, rowids)`); the IR has no "
         "points-to information for callables at translation time, so the call is the most general client of the closure "
         "and of everything it captured (the aggregate, its arrays): false 'may mutate'")
_CALC = ("cube.calculate composes get_initial_regions / fill / reduce of every aggregate (each proved on its own in C17_effects) "
         "through lists of regions and closures; inlined it is ~10^4 IR statements and the heap abstraction (one abstract object "
         "per allocation site, untyped caller memory) merges result regions with index tuples read from the cube: false 'may mutate'")
RUNTIME_ONLY = {
    "ccubes.ccube._walk": _WALK, "ccubes.ccube.walk": _WALK, "ccubes.ccube.interactions": _WALK,
    "ccubes.ccube.calculate": _CALC, "xcubes.xcube.calculate": _CALC,
}
for _m in ("count", "valid_count", "sum", "mean"):
    RUNTIME_ONLY["ccubes.ccube." + _m] = "shortcut for calculate([ffunc_%s(...)])[0]: see ccube.calculate" % _m
for _m in ("count", "valid_count", "sum", "mean", "stddev", "quantile", "max", "min", "corrcoef", "covariance"):
    RUNTIME_ONLY["xcubes.xcube." + _m] = "shortcut for calculate([xfunc_%s(...)])[0]: see xcube.calculate" % _m

# functions that are not in C17's scope (not translated as programs of their own; still inlined
# where in-scope code calls them)
OUT_OF_SCOPE = {"validate", "__str__", "calculate_base"}
