"""Subprocess side of the C01 check: runs the REAL iindex.from_array / to_array on the given
cases (under RLIMIT_AS set by the caller, so that a memory blow-up is an observed MemoryError and
not an OOM kill), records which construction path from_array took (sys.settrace line events on the
snapshot), abstracts the resulting index and output array, and judges every case with the
property oracle  to_array(from_array(a, ...)) == mapped a  (NumPy / plain Python, no model).

usage: impl_c01.py IN.json OUT.json      (JSON in, JSON out; progress "@<case index>" on stdout)
"""
import ast
import json
import sys
import warnings

import numpy

warnings.simplefilter("ignore")

import catii  # noqa: E402  (the snapshot on PYTHONPATH)
from catii import iindex  # noqa: E402
from catii import iindexes as _mod  # noqa: E402

INT_DTYPES = ("int8", "int16", "int32", "int64", "uint8", "uint16", "uint32", "uint64")


# --------------------------------------------------------------------------
# which path did from_array take?  (line sets from the AST of the snapshot)
# --------------------------------------------------------------------------
def path_lines():
    src = open(_mod.__file__).read()
    tree = ast.parse(src)
    info = {"where": set(), "rowscan": set(), "from_array": (0, 0), "to_array": (0, 0), "found": False}
    for node in ast.walk(tree):
        if isinstance(node, ast.FunctionDef) and node.name in ("from_array", "to_array"):
            info[node.name] = (node.lineno, node.end_lineno)
        if isinstance(node, ast.FunctionDef) and node.name == "from_array":
            for sub in ast.walk(node):
                if isinstance(sub, ast.If) and isinstance(sub.test, ast.Name) and sub.test.id == "use_where":
                    for st in sub.body:
                        info["where"].update(range(st.lineno, st.end_lineno + 1))
                    for st in sub.orelse:
                        info["rowscan"].update(range(st.lineno, st.end_lineno + 1))
                    info["found"] = True
    return info


PL = path_lines()
_FA_CODE = iindex.from_array.__func__.__code__
_TA_CODE = iindex.to_array.__code__
_lines_seen = set()      # anchored lines executed over the whole run
_case_lines = set()


def _local(frame, event, arg):
    if event == "line":
        _case_lines.add(frame.f_lineno)
    return _local


def _tracer(frame, event, arg):
    if event == "call" and (frame.f_code is _FA_CODE or frame.f_code is _TA_CODE):
        return _local
    return None


def traced(f):
    _case_lines.clear()
    sys.settrace(_tracer)
    try:
        return f()
    finally:
        sys.settrace(None)
        _lines_seen.update(_case_lines)


def path_of(lines):
    w = bool(lines & PL["where"])
    r = bool(lines & PL["rowscan"])
    if w and not r:
        return "where"
    if r and not w:
        return "rowscan"
    return None


# --------------------------------------------------------------------------
# one case
# --------------------------------------------------------------------------
def build_input(c):
    shape = tuple(c["shape"])
    if c.get("as_list") and len(shape) == 1:
        return list(c["data"])
    a = numpy.array(c["data"], dtype=c.get("in_dtype", "int64")).reshape(shape)
    return with_layout(a, c.get("layout"))


def with_layout(a, kind):
    """Same values and dtype in another memory layout / container (the FORM of the argument; harness/forms.py)."""
    if not kind or kind == "c":
        return a
    if kind == "fortran" and a.ndim == 2:
        return numpy.asfortranarray(a)
    if kind == "transposed-store" and a.ndim == 2:
        return numpy.ascontiguousarray(a.T).T
    if kind == "strided" and a.shape[0] > 0:
        big = numpy.zeros((a.shape[0] * 2,) + a.shape[1:], dtype=a.dtype)
        big[::2] = a
        return big[::2]
    if kind == "negstride":
        return a[::-1].copy()[::-1]
    if kind == "colview" and a.ndim == 2 and a.shape[1] > 0:
        big = numpy.zeros((a.shape[0], a.shape[1] * 2), dtype=a.dtype)
        big[:, ::2] = a
        return big[:, ::2]
    if kind == "readonly":
        b = a.copy()
        b.setflags(write=False)
        return b
    if kind == "list":
        return a.tolist()
    return a


def kwargs_of(c):
    kw = {}
    o = c["opts"]
    if o.get("counts") is not None:
        kw["counts"] = {int(k): int(v) for k, v in o["counts"]}
    if o.get("common") is not None:
        kw["common"] = int(o["common"])
    if o.get("mapping") is not None:
        kw["mapping"] = {int(k): int(v) for k, v in o["mapping"]}
    return kw


def to_kwargs(c):
    t = c["to"]
    kw = {}
    if t.get("mapping") is not None:
        kw["mapping"] = {int(k): int(v) for k, v in t["mapping"]}
    if t.get("dtype") is not None:
        kw["dtype"] = numpy.dtype(t["dtype"])
    return kw


def abstract_index(idx):
    ents = []
    for coords, rowids in dict.items(idx):
        ents.append([int(coords[0]), [int(x) for x in coords[1:]], [int(r) for r in numpy.asarray(rowids).tolist()],
                     str(getattr(rowids, "dtype", type(rowids).__name__)), type(coords[0]).__name__])
    return {"entries": ents, "common": int(idx.common), "common_type": type(idx.common).__name__,
            "shape": [int(s) for s in idx.shape]}


def expected_rows(c):
    """The property's right-hand side: the input mapped through the from_array mapping and then
    through the to_array mapping (None when the to_array mapping is not total on those values)."""
    data = [int(v) for v in c["data"]]
    m1 = c["opts"].get("mapping")
    if m1 is not None:
        d1 = {int(k): int(v) for k, v in m1}
        data = [d1[v] for v in data]
    m2 = c["to"].get("mapping")
    if m2:
        d2 = {int(k): int(v) for k, v in m2}
        data = [d2[v] for v in data]
    return data


def run_case(c):
    out = {"id": c.get("id")}
    kw = kwargs_of(c)
    try:
        a = build_input(c)
        for pc in c.get("prior") or []:
            # earlier calls that were handed the SAME counts / mapping dict objects (a caller re-using its dicts): whatever
            # they did, the call under test must still round-trip (seeded c01g: from_array popped a key of the caller's counts)
            kw0 = dict(kw)
            kw0.pop("common", None)
            if pc is not None:
                kw0["common"] = int(pc)
            try:
                iindex.from_array(a, **kw0)
            except Exception:  # noqa
                pass
        idx = traced(lambda: iindex.from_array(a, **kw))
        out["from"] = {"ok": True, "path": path_of(set(_case_lines)), "index": abstract_index(idx)}
        try:
            idx.validate(True)
            out["from"]["validate"] = "ok"
        except Exception as e:  # noqa
            out["from"]["validate"] = "%s: %s" % (type(e).__name__, str(e)[:200])
    except BaseException as e:  # MemoryError included
        if isinstance(e, (KeyboardInterrupt, SystemExit)):
            raise
        out["from"] = {"ok": False, "exc": type(e).__name__, "msg": str(e)[:200], "path": path_of(set(_case_lines))}
        out["to"] = None
        out["oracle"] = {"ok": False, "why": "from_array raised %s: %s" % (type(e).__name__, str(e)[:120])}
        return out
    try:
        got = traced(lambda: idx.to_array(**to_kwargs(c)))
        flat = [int(x) for x in got.flat]
        out["to"] = {"ok": True, "shape": [int(s) for s in got.shape], "dtype": got.dtype.name, "flat": flat}
    except BaseException as e:
        if isinstance(e, (KeyboardInterrupt, SystemExit)):
            raise
        out["to"] = {"ok": False, "exc": type(e).__name__, "msg": str(e)[:200]}
        out["oracle"] = {"ok": False, "why": "to_array raised %s: %s" % (type(e).__name__, str(e)[:120])}
        return out
    # ---- the property, stated directly ----
    try:
        exp = expected_rows(c)
    except KeyError:
        exp = None
    if exp is None:
        out["oracle"] = {"ok": None, "why": "mapping not total: outside the property"}
    else:
        why = None
        if list(got.shape) != list(c["shape"]):
            why = "shape %r != %r" % (list(got.shape), list(c["shape"]))
        elif flat != exp:
            bad = [i for i, (x, y) in enumerate(zip(flat, exp)) if x != y]
            why = "%d cells differ, first at flat position %d: got %d expected %d" % (len(bad), bad[0], flat[bad[0]], exp[bad[0]])
        elif out["from"]["validate"] != "ok":
            why = "index not well-formed: " + out["from"]["validate"]
        out["oracle"] = {"ok": why is None, "why": why}
    return out


def fails(c):
    r = run_case(c)
    return r["oracle"]["ok"] is False, r


def shrink(c, budget=400):
    """Greedy row / column removal keeping the oracle failing (cheap delta debugging)."""
    import copy
    best = copy.deepcopy(c)
    shape = list(best["shape"])
    ncols = shape[1] if len(shape) == 2 else None
    width = ncols if ncols is not None else 1

    def rows_of(case):
        d = case["data"]
        return [d[i * width:(i + 1) * width] for i in range(case["shape"][0])] if width else []

    def with_rows(case, rows):
        n = copy.deepcopy(case)
        n["data"] = [x for r in rows for x in r]
        n["shape"] = [len(rows)] + list(case["shape"][1:])
        if n["opts"].get("counts") is not None:
            # keep the supplied counts consistent with the data (keys kept, counts recomputed)
            cnt = {}
            for x in n["data"]:
                cnt[x] = cnt.get(x, 0) + 1
            n["opts"]["counts"] = [[k, cnt.get(k, 0)] for k, _ in n["opts"]["counts"]]
        return n
    steps = 0
    if width:
        rows = rows_of(best)
        chunk = max(1, len(rows) // 2)
        while chunk >= 1 and steps < budget:
            i = 0
            changed = False
            while i < len(rows) and steps < budget:
                cand_rows = rows[:i] + rows[i + chunk:]
                cand = with_rows(best, cand_rows)
                steps += 1
                bad, _ = fails(cand)
                if bad:
                    best, rows, changed = cand, cand_rows, True
                else:
                    i += chunk
            if chunk == 1 and not changed:
                break
            chunk = chunk // 2 if chunk > 1 else (1 if changed else 0)
    return best


def main():
    payload = json.load(open(sys.argv[1]))
    res = {"results": [], "path_lines_found": PL["found"]}
    if payload.get("mode") == "shrink":
        small = shrink(payload["case"])
        bad, r = fails(small)
        res["shrunk"] = small
        res["still_fails"] = bad
        res["result"] = r
    else:
        for i, c in enumerate(payload["cases"]):
            print("@%d" % i, flush=True)
            res["results"].append(run_case(c))
    lo, hi = PL["from_array"]
    lo2, hi2 = PL["to_array"]
    res["lines"] = {"from_array": [lo, hi], "to_array": [lo2, hi2],
                    "where_lines": sorted(PL["where"]), "rowscan_lines": sorted(PL["rowscan"]),
                    "executed": sorted(_lines_seen)}
    json.dump(res, open(sys.argv[2], "w"))


if __name__ == "__main__":
    main()
