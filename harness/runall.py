"""Run every claimed check (quick tier by default) and summarise; validates evidence files.
usage: /venv/bin/python -m harness.runall [--tier quick] [--jobs 2] [--props C01,C02]"""
import argparse
import json
import os
import subprocess
import sys
import time
from concurrent.futures import ThreadPoolExecutor

VERIF = os.path.dirname(os.path.dirname(os.path.abspath(__file__)))


def one(p, tier):
    t0 = time.time()
    r = subprocess.run([os.path.join(VERIF, "check"), p, "--tier", tier], cwd=VERIF, stdout=subprocess.PIPE, stderr=subprocess.STDOUT, text=True)
    lines = [l for l in r.stdout.splitlines() if l.startswith(("VIOLATION", "KNOWN-FINDING", "PASS", "FAIL"))]
    v = subprocess.run(["python3-vt", "-c", "import json,jsonschema;jsonschema.validate(json.load(open('%s/evidence/%s.json')),json.load(open('/root/.vp/EVIDENCE.schema.json')))" % (VERIF, p)],
                       stdout=subprocess.PIPE, stderr=subprocess.STDOUT, text=True)
    ev = "evidence-valid" if v.returncode == 0 else "EVIDENCE-INVALID: " + v.stdout.strip().splitlines()[-1][:200]
    try:
        e = json.load(open("%s/evidence/%s.json" % (VERIF, p)))
        c = e["coverage"]
        ev += " obligations=%s/%s" % (c.get("discharged"), c.get("obligations"))
    except Exception:
        pass
    return p, r.returncode, round(time.time() - t0), lines, ev, r.stdout


def main():
    ap = argparse.ArgumentParser()
    ap.add_argument("--tier", default="quick")
    ap.add_argument("--jobs", type=int, default=2)
    ap.add_argument("--props")
    a = ap.parse_args()
    m = json.load(open(os.path.join(VERIF, "MANIFEST.json")))
    props = a.props.split(",") if a.props else [c["property_id"] for c in m["checks"]]
    bad = 0
    with ThreadPoolExecutor(a.jobs) as ex:
        for p, rc, wall, lines, ev, out in ex.map(lambda p: one(p, a.tier), props):
            print("%s rc=%d %4ds %s | %s" % (p, rc, wall, ev, " || ".join(lines)))
            if rc != 0 or "INVALID" in ev:
                bad += 1
                open("/root/scratch/runall_%s.log" % p, "w").write(out)
    sys.exit(1 if bad else 0)


if __name__ == "__main__":
    main()
