"""Confirm a sub-agent's seeded change and keep it as /verif/seeded/<id>/.

usage: /venv/bin/python -m harness.seedkeep <id> <worktree> [--keep-worktree]

The worktree (a scratch `git worktree` of /repo, outside /repo and /verif) holds the change as its
uncommitted diff plus demo_<id>.py and meta_<id>.json.  This script, on a FRESH scratch clone of /repo
(never /repo itself):
  1. runs the demo WITHOUT the change (must exit 0),
  2. applies the diff, rebuilds the extension if the .pyx changed, runs the demo WITH the change (must
     exit non-zero),
  3. runs the repository's tests/ with the change and compares the summary with the unchanged tree,
and only then writes seeded/<id>/{patch.diff, demo.py, meta.json}.  The worktree is removed afterwards.
"""
import argparse
import json
import os
import re
import shutil
import subprocess
import sys
import tempfile

VERIF = os.path.dirname(os.path.dirname(os.path.abspath(__file__)))
PY = "/venv/bin/python"


def sh(cmd, cwd=None, env=None, timeout=1800):
    p = subprocess.run(cmd, shell=True, cwd=cwd, env=env, stdout=subprocess.PIPE, stderr=subprocess.STDOUT, text=True, timeout=timeout)
    return p.returncode, p.stdout


def build_ext(repo):
    rc, out = sh("CYTHONIZE_SETUP_PY=1 %s setup.py build_ext --inplace" % PY, cwd=repo)
    so = [f for f in os.listdir(os.path.join(repo, "src", "catii")) if f.endswith(".so")]
    if not so:
        raise SystemExit("extension build failed:\n" + out[-2000:])


def tests(repo):
    env = dict(os.environ, PYTHONHASHSEED="0", PYTHONPATH=os.path.join(repo, "src"))
    rc, out = sh("%s -m pytest tests -q -p no:cacheprovider 2>&1 | tail -1" % PY, cwd=repo, env=env)
    line = out.strip().splitlines()[-1] if out.strip() else ""
    return re.sub(r" in [0-9.]+s.*", "", line)


def demo(repo, path):
    env = dict(os.environ, PYTHONHASHSEED="0", PYTHONPATH=os.path.join(repo, "src"))
    rc, out = sh("timeout 900 %s %s" % (PY, path), cwd=repo, env=env)
    return rc, out[-1500:]


def main():
    ap = argparse.ArgumentParser()
    ap.add_argument("id")
    ap.add_argument("worktree")
    ap.add_argument("--keep-worktree", action="store_true")
    a = ap.parse_args()
    wt = os.path.abspath(a.worktree)
    sid = a.id
    rc, diff = sh("git -C %s diff -- src" % wt)
    if not diff.strip():
        raise SystemExit("no change under src/ in %s" % wt)
    demo_src = os.path.join(wt, "demo_%s.py" % sid)
    meta_src = os.path.join(wt, "meta_%s.json" % sid)
    meta = json.load(open(meta_src))
    scratch = tempfile.mkdtemp(prefix="catii-keep-")
    repo = os.path.join(scratch, "repo")
    ok = False
    try:
        subprocess.check_call(["git", "clone", "-q", "/repo", repo])
        build_ext(repo)
        dpath = os.path.join(scratch, "demo.py")
        shutil.copy(demo_src, dpath)
        ppath = os.path.join(scratch, "patch.diff")
        open(ppath, "w").write(diff)
        t0 = tests(repo)
        rc0, out0 = demo(repo, dpath)
        subprocess.check_call(["git", "-C", repo, "apply", ppath])
        if "set_operations.pyx" in diff:
            build_ext(repo)
        rc1, out1 = demo(repo, dpath)
        t1 = tests(repo)
        confirmed = {"demo_without_change_exit": rc0, "demo_with_change_exit": rc1, "tests_without_change": t0, "tests_with_change": t1,
                     "ran": "fresh scratch clone of /repo HEAD: demo.py before/after `git apply patch.diff` (extension rebuilt), pytest tests before/after"}
        print(json.dumps(confirmed, indent=1))
        ok = rc0 == 0 and rc1 != 0 and t0 == t1 and "passed" in t0
        if not ok:
            print("NOT CONFIRMED\n--- demo without change:\n%s\n--- demo with change:\n%s" % (out0, out1))
        else:
            d = os.path.join(VERIF, "seeded", sid)
            os.makedirs(d, exist_ok=True)
            shutil.copy(ppath, os.path.join(d, "patch.diff"))
            shutil.copy(dpath, os.path.join(d, "demo.py"))
            meta.setdefault("property", sid[:3].upper())
            meta["origin"] = "fresh sub-agent given only the property text and a scratch worktree"
            meta["confirmed_by_lead"] = confirmed
            meta["demo_failure_output"] = out1[-600:]
            json.dump(meta, open(os.path.join(d, "meta.json"), "w"), indent=1)
            print("kept as", d)
    finally:
        shutil.rmtree(scratch, ignore_errors=True)
        if ok and not a.keep_worktree:
            sh("git -C /repo worktree remove --force %s" % wt)
            shutil.rmtree("/tmp/%s_work" % sid, ignore_errors=True)
    sys.exit(0 if ok else 1)


if __name__ == "__main__":
    main()
