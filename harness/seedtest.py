"""Run the registered checks against a seeded change WITHOUT touching /repo.

usage: /venv/bin/python -m harness.seedtest seeded/<id> [--props C01,C07] [--tier quick]
Copies /repo to a scratch directory, applies seeded/<id>/patch.diff there, runs the checks with
CATII_REPO pointing at the copy, records which printed a VIOLATION in seeded/<id>/result.json.
"""
import argparse
import json
import os
import shutil
import subprocess
import sys
import tempfile
import time

VERIF = os.path.dirname(os.path.dirname(os.path.abspath(__file__)))


def main():
    ap = argparse.ArgumentParser()
    ap.add_argument("dir")
    ap.add_argument("--props")
    ap.add_argument("--tier", default="quick")
    a = ap.parse_args()
    d = os.path.abspath(a.dir)
    meta = json.load(open(os.path.join(d, "meta.json")))
    props = a.props.split(",") if a.props else [meta["property"]]
    scratch = tempfile.mkdtemp(prefix="catii-seed-")
    repo = os.path.join(scratch, "repo")
    try:
        subprocess.check_call(["git", "clone", "-q", "/repo", repo])
        subprocess.check_call(["git", "-C", repo, "apply", os.path.join(d, "patch.diff")])
        results = {}
        for p in props:
            env = dict(os.environ, CATII_REPO=repo, VERIF_OUT=os.path.join(scratch, "out"))
            t0 = time.time()
            r = subprocess.run([os.path.join(VERIF, "check"), p, "--tier", a.tier], cwd=VERIF, env=env,
                               stdout=subprocess.PIPE, stderr=subprocess.STDOUT, text=True)
            lines = [l for l in r.stdout.splitlines() if l.startswith(("VIOLATION", "KNOWN-FINDING", "PASS", "FAIL"))]
            replay = None
            for l in lines:
                if l.startswith("VIOLATION") and "replay=" in l:
                    rp = l.split("replay=")[1].split()[0]
                    if os.path.exists(rp):
                        rj = json.load(open(rp))
                        # a check may print several VIOLATION lines: keep the (first) one with a concrete failing input
                        if replay is None or (replay.get("kind") != "counterexample" and rj.get("kind") == "counterexample"):
                            replay = rj
                            keep = os.path.join(d, "replay_%s.json" % p)
                            shutil.copy(rp, keep)
            results[p] = {"exit": r.returncode, "caught": r.returncode == 1 and any(l.startswith("VIOLATION") for l in lines),
                          "lines": lines, "wall_s": round(time.time() - t0, 1),
                          "replay_kind": replay.get("kind") if replay else None,
                          "signature": replay.get("signature") if replay else None}
            print(p, results[p])
        out = os.path.join(d, "result.json")
        prev = json.load(open(out)) if os.path.exists(out) else {}
        prev.update(results)
        json.dump(prev, open(out, "w"), indent=1)
    finally:
        shutil.rmtree(scratch, ignore_errors=True)
        # the W1 translators wrote coq/theories/*/gen/*.v from the SEEDED tree: regenerate them from /repo so
        # that nothing stale is left behind for tools that read the build directory without running a check (coqchk)
        env = {k: v for k, v in os.environ.items() if k not in ("CATII_REPO", "VERIF_OUT")}
        subprocess.run(["/venv/bin/python", "-c", "from harness import setup; setup.regenerate()"], cwd=VERIF, env=env,
                       stdout=subprocess.DEVNULL, stderr=subprocess.DEVNULL)


if __name__ == "__main__":
    main()
