"""Abstraction of a real catii.iindex into the Coq record literal of IIndex/Model.v."""
from . import core


def idx_lit(ix):
    """entries in dict order; coords[0] = value, coords[1:] = higher coordinates."""
    ents = []
    for coords, rowids in dict.items(ix):
        ents.append("((%s, %s), %s)" % (core.zlit(int(coords[0])), core.zlist([int(c) for c in coords[1:]]),
                                      core.zlist([int(r) for r in rowids.tolist()])))
    return "{| entries := [%s]; common := %s; nrows := %s; hshape := %s |}" % (
        "; ".join(ents), core.zlit(int(ix.common)), core.zlit(int(ix.shape[0])), core.zlist([int(e) for e in ix.shape[1:]]))


def idx_json(ix):
    return {"shape": list(ix.shape), "common": int(ix.common),
            "entries": {str(tuple(int(c) for c in k)): v.tolist() for k, v in dict.items(ix)}}


def lst(items):
    return "[" + "; ".join(items) + "]"
